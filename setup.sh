#!/bin/sh
# setup_cmd: warm the build variants the checks use (offline; everything comes from the module cache and /repo)
set -e
export GOFLAGS=-mod=mod GOPROXY=off GOSUMDB=off GOTOOLCHAIN=local
cd /verif/harness
T=$(mktemp -d /var/tmp/verif-setup-XXXXXX)
trap 'rm -rf "$T"' EXIT
go1.26.8 test -c -tags verif -o "$T/a.test" ./checks
go1.26.8 test -c -tags verif -race -o "$T/b.test" ./checks
go1.26.8 test -c -tags verif -o "$T/c.test" ./checks16
go1.26.8 test -c -tags verifoff -o "$T/d.test" ./checks16
go test -c -tags verif -o "$T/e.test" ./checks16
go test -c -tags verifoff -o "$T/f.test" ./checks16
go1.26.8 test -count=1 ./refdec
echo setup ok
