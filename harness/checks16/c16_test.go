// Package checks16 holds the C16 workload on its own so that it also builds with the verif tag OFF
// and with the repository's default toolchain (go 1.23), see DESIGN.md 5/C16.
package checks16

import (
	"bytes"
	"fmt"
	"net/netip"
	"os"
	"testing"
	"unsafe"

	"github.com/irai/packet"

	"verif/harness/gen"
	"verif/harness/mon"
	"verif/harness/refdec"
	"verif/harness/wk"
)

func TestWorker(t *testing.T) {
	if os.Getenv("VERIF_PROP") == "" {
		t.Skip("run through /verif/check")
	}
	c := wk.New()
	mon.Quiet()
	runC16(c)
	c.Finish()
}

func ptr(b []byte) unsafe.Pointer { return unsafe.Pointer(unsafe.SliceData(b)) }

func runC16(c *wk.Ctx) {
	if err := refdec.SelfTest(); err != nil {
		fmt.Println("SELFTEST FAILED:", err)
		panic("SELFTEST FAILED")
	}
	runName := os.Getenv("VERIF_RUN")
	env := gen.DefaultEnv()
	s, err := mon.NewSession(mon.NewRecorder(1), mon.DefaultNIC(), 0, 0, 0)
	if err != nil {
		panic("HARNESS BUG: " + err.Error())
	}
	n := c.N(6_000, 200_000)
	// the caller's buffer: Parse works on whatever the caller read into, and a packet socket with receive offload or a jumbo
	// MTU hands over more than one standard frame's worth
	big := make([]byte, 40000)
	buf := big[:packet.EthMaxSize]
	inSess := 0
	for i := int64(1); i <= n; i++ {
		if !c.Mine(i) {
			continue
		}
		r := c.Rand("c16", i)
		f := gen.Structural(r, env)
		buf = big[:packet.EthMaxSize]
		if len(f.B) > len(buf) {
			if len(f.B) > len(big) {
				continue
			}
			buf = big[:len(f.B)+16]
			c.Obs("frames_larger_than_a_standard_frame", 1)
		}
		if i%4 == 3 {
			c.Obs("truncated_frames_tried", 1)
			f = gen.Mutate(r, f, "truncate") // cut short: whatever Parse still accepts must keep its views inside the frame
			if len(f.B) == 0 {
				continue
			}
		}
		ref := refdec.Decode(f.B)
		if inSess++; inSess > 400 { // keep the table small (duplicate-IP path prints the whole table)
			go s.Close()
			s, _ = mon.NewSession(mon.NewRecorder(1), mon.DefaultNIC(), 0, 0, 0)
			inSess = 0
		}
		for k := range buf {
			buf[k] = 0xee
		}
		b := buf[:copy(buf, f.B)]
		c.Begin(i, "Parse", b)
		c.Eval()
		cs := func() any {
			return map[string]any{"index": i, "input_hex": wk.Hex(f.B), "kind": f.Kind, "src": f.SrcKind, "build": runName}
		}
		frame, err := s.Parse(b) // warm-up: creates the host if the source is new
		if err != nil {
			// acceptance differences are C02's business; but a frame the reference decoder finds well-formed is covered by the
			// allocation clause whatever Parse makes of it (an error value is a heap allocation)
			if !ref.Err && !ref.DontCare {
				if allocs := testing.AllocsPerRun(20, func() { s.Parse(b) }); allocs > 0 {
					c.Viol("alloc:well-formed-frame-rejected", fmt.Sprintf("Parse rejects a frame the reference decoder finds well-formed (%v) and allocates %.2f objects per call (%s)", err, allocs, runName), cs())
				}
			}
			continue
		}
		if ref.Err {
			// the reference decoder rejects this frame (acceptance differences are C02's business): if Parse accepts it, the
			// containment rule still applies to every view it hands out
			for _, v := range []struct {
				name string
				b    []byte
			}{{"Ether", frame.Ether()}, {"IP4", frame.IP4()}, {"IP6", frame.IP6()}, {"UDP", frame.UDP()}, {"TCP", frame.TCP()}, {"Payload", frame.Payload()}} {
				if len(v.b) == 0 {
					continue
				}
				off := int(uintptr(ptr(v.b)) - uintptr(ptr(b)))
				if off < 0 || off+len(v.b) > len(b) {
					c.Viol("zerocopy:"+v.name+":beyond-frame", fmt.Sprintf("%s spans [%d:%d], the frame has %d bytes (frame cut short, receive buffer has spare capacity)", v.name, off, off+len(v.b), len(b)), cs())
				}
				c.Obs("views_checked_on_rejected_frames", 1)
			}
			continue
		}
		// --- zero copy: every view aliases the buffer at the reference offset and stays inside the frame
		type vw struct {
			name string
			b    []byte
			off  int
		}
		pay := -1
		if len(ref.OffPayload) > 0 {
			pay = ref.OffPayload[0]
		}
		views := []vw{{"Ether", frame.Ether(), 0}, {"IP4", frame.IP4(), ref.OffIP4}, {"IP6", frame.IP6(), ref.OffIP6}, {"UDP", frame.UDP(), ref.OffUDP},
			{"TCP", frame.TCP(), ref.OffTCP}, {"SrcAddr.MAC", frame.SrcAddr.MAC, 6}, {"DstAddr.MAC", frame.DstAddr.MAC, 0}}
		if p := frame.Payload(); len(p) > 0 && pay >= 0 {
			off := int(uintptr(ptr(p)) - uintptr(ptr(b)))
			if off >= 0 && off < len(b) && !ref.PayloadOK(off) {
				// aliased, but not at a decoded offset (e.g. inside a VLAN tag): a write through it lands in a header
				c.Viol("zerocopy:Payload:offset", fmt.Sprintf("Payload() starts at &buf[%d], the reference decoder puts the payload at %v", off, ref.OffPayload), cs())
				continue
			}
			views = append(views, vw{"Payload", p, off})
		}
		bad := false
		for _, v := range views {
			if v.b == nil {
				if v.off != 0 && v.name != "Ether" && v.name != "DstAddr.MAC" {
					c.Viol("zerocopy:"+v.name+":missing", "view is nil but the reference decoder finds the layer", cs())
					bad = true
				}
				continue
			}
			if len(v.b) == 0 {
				continue
			}
			if ptr(v.b) != unsafe.Pointer(&b[v.off]) {
				c.Viol("zerocopy:"+v.name+":not-aliased", fmt.Sprintf("%s does not start at &buf[%d]", v.name, v.off), cs())
				bad = true
				continue
			}
			if v.off+len(v.b) > len(b) {
				c.Viol("zerocopy:"+v.name+":beyond-frame", fmt.Sprintf("%s ends at %d, frame has %d bytes", v.name, v.off+len(v.b), len(b)), cs())
				bad = true
				continue
			}
			// the upper layer views end with the decoded packet: bytes after the IPv4 total length / IPv6 payload length are link
			// layer padding inside the frame, at no layer's decoded offsets
			if v.name != "Ether" && v.name != "SrcAddr.MAC" && v.name != "DstAddr.MAC" && v.off+len(v.b) > ref.End {
				c.Viol("zerocopy:"+v.name+":beyond-packet", fmt.Sprintf("%s ends at %d, the decoded packet ends at %d (frame has %d bytes)", v.name, v.off+len(v.b), ref.End, len(b)), cs())
				bad = true
				continue
			}
			if ref.End < len(b) {
				c.Obs("views_checked_on_padded_frames", 1)
			}
			last := len(v.b) - 1
			v.b[last] ^= 0xff
			seen := b[v.off+last] == f.B[v.off+last]^0xff
			b[v.off+last] ^= 0xff
			back := v.b[last] == f.B[v.off+last]
			if !seen || !back {
				c.Viol("zerocopy:"+v.name+":write-through", "a write through the view / buffer is not visible on the other side", cs())
				bad = true
			}
			c.Obs("views_checked", 1)
		}
		if bad {
			continue
		}
		// --- allocations in steady state (source tracked by now, or untracked by rule)
		allocs := testing.AllocsPerRun(100, func() { s.Parse(b) })
		srcState := "untracked-by-rule"
		if frame.Host != nil {
			srcState = "tracked"
		}
		if allocs > 0 {
			c.Viol(fmt.Sprintf("alloc:%s:%s", frame.PayloadID, srcState), fmt.Sprintf("Parse allocates %.2f objects per call in steady state (%s)", allocs, runName), cs())
			continue
		}
		c.Obs("alloc_measurements", 1)
		// the same packet seen a second time with this host's MAC as Ethernet source (a captured client's packet that this host
		// forwards shows up on its own promiscuous socket): frames sent through our interface never create or move a host, so
		// the client's frame and the forwarded copy alternating are a steady state too
		if frame.Host != nil && (ref.OffIP4 != 0 || ref.OffIP6 != 0) && len(b)*2 <= len(buf) {
			fw := buf[len(b) : 2*len(b)]
			copy(fw, b)
			copy(fw[6:12], mon.DefaultNIC().HostMAC)
			if ff, err := s.Parse(fw); err == nil {
				if ff.Host != nil {
					c.Viol("alloc:forwarded-copy:host-created", fmt.Sprintf("a frame with this host's MAC as source and IP source %v got a host entry", ref.SrcIP), cs())
					continue
				}
				if a2 := testing.AllocsPerRun(50, func() { s.Parse(b); s.Parse(fw) }); a2 > 0 {
					c.Viol(fmt.Sprintf("alloc:forwarded-copy:%s", frame.PayloadID), fmt.Sprintf("a tracked client's frame and its forwarded copy (our MAC as source) alternating: %.2f allocations per pair (%s)", a2, runName), cs())
					continue
				}
				c.Obs("forwarded_copy_pairs_measured", 1)
			}
		}
		// a source that is untracked by rule stays untracked whoever sends from it: the same packet from a second station,
		// alternating with the first, is a steady state as well (two devices doing duplicate address detection from "::")
		nobody := ref.SrcIP.IsValid() && (ref.SrcIP.IsUnspecified() || ref.SrcIP.IsMulticast() || ref.SrcIP.IsLoopback() || ref.SrcIP == netip.AddrFrom4([4]byte{255, 255, 255, 255}))
		if nobody && frame.Host != nil {
			c.Viol("alloc:untracked-source:host-created", fmt.Sprintf("a frame from %x with the source address %v (nobody's address) got a host entry", b[6:12], ref.SrcIP), cs())
			continue
		}
		if (frame.Host == nil || nobody) && f.SrcKind != "own" && f.SrcKind != "router" && (ref.OffIP4 != 0 || ref.OffIP6 != 0) && b[6]&1 == 0 && len(b)*2 <= len(buf) {
			other := buf[len(b) : 2*len(b)]
			copy(other, b)
			copy(other[6:12], []byte{0x02, 0xab, 0xcd, 0, 0, byte(i)})
			if !bytes.Equal(other[6:12], mon.DefaultNIC().HostMAC) {
				if f2, err := s.Parse(other); err == nil {
					if f2.Host != nil {
						c.Viol("alloc:untracked-source:host-created", fmt.Sprintf("the source %v is untracked by rule for %x but got a host entry when %x sent from it", ref.SrcIP, b[6:12], other[6:12]), cs())
						continue
					}
					if a2 := testing.AllocsPerRun(50, func() { s.Parse(b); s.Parse(other) }); a2 > 0 {
						c.Viol(fmt.Sprintf("alloc:untracked-source:%s", frame.PayloadID), fmt.Sprintf("two stations sending from the untracked source %v in turn: %.2f allocations per pair (%s)", ref.SrcIP, a2, runName), cs())
						continue
					}
					c.Obs("untracked_source_pairs_measured", 1)
				}
			}
		}
		c.Class(fmt.Sprintf("%s|%s|%s|%s", frame.PayloadID, f.L3, f.SrcKind, srcState))
		if c.WantSample() && len(f.B) < 80 {
			c.Sample(map[string]any{"frame_hex": wk.Hex(f.B), "kind": f.Kind, "payloadID": frame.PayloadID.String(), "source": srcState, "allocs_per_parse": allocs, "build": runName})
		}
	}
}
