package mon

import (
	"bytes"
	"fmt"
	"net/netip"

	"verif/harness/refdec"
)

// TxFinding is one broken universal rule on a transmitted frame (C07).
type TxFinding struct {
	Rule   string
	Detail string
}

// TxInfo is what the reference decoder says about a transmitted frame.
type TxInfo struct {
	Class string // protocol class, e.g. "arp:request", "icmp6:na", "udp:dhcp4:offer"
	Dst   string // destination class: bcast, group, unicast
	D     refdec.Decoded
	ARP   *refdec.ARPPkt
	ICMP  []byte // icmp message
	UDP   []byte // udp payload
	DHCP  *refdec.DHCPMsg
	DNS   *refdec.DNSMsg
}

func macClass(m refdec.MAC) string {
	switch {
	case m == refdec.MAC{0xff, 0xff, 0xff, 0xff, 0xff, 0xff}:
		return "bcast"
	case m.IsGroup():
		return "group"
	}
	return "unicast"
}

// CheckTx applies the universal rules of C07 to one frame handed to Conn.WriteTo:
// decodable and length-consistent (strict: no bytes beyond the IP total length, UDP length = bytes present),
// Ethernet source = NIC MAC, IPv4 header / ICMPv4 / ICMPv6 checksums verify, NDP uses hop limit 255,
// a 33:33 destination MAC matches the IPv6 multicast destination, DHCP / DNS payloads decode completely.
func CheckTx(nic NIC, f []byte) (info TxInfo, bad []TxFinding) {
	add := func(rule, format string, a ...any) { bad = append(bad, TxFinding{rule, fmt.Sprintf(format, a...)}) }
	d := refdec.Decode(f)
	info.D = d
	if d.Err {
		info.Class = "undecodable"
		add("undecodable:"+d.ErrLayer, "reference decoder rejects the frame at layer %s", d.ErrLayer)
		return
	}
	info.Dst = macClass(d.DstMAC)
	if !bytes.Equal(d.SrcMAC[:], nic.HostMAC) {
		add("ether-source", "Ethernet source %x is not the NIC MAC %s", d.SrcMAC[:], nic.HostMAC)
	}
	switch {
	case d.PayloadID == refdec.PARP:
		a, err := refdec.ParseARP(f[14:])
		if err != nil {
			add("arp:short", "arp truncated")
			return
		}
		info.ARP = &a
		info.Class = fmt.Sprintf("arp:op%d", a.Op)
		if a.HType != 1 || a.PType != 0x0800 || a.HLen != 6 || a.PLen != 4 {
			add("arp:header", "ARP header htype=%d ptype=%#x hlen=%d plen=%d (want 1, 0x800, 6, 4); frame dst %x", a.HType, a.PType, a.HLen, a.PLen, d.DstMAC[:])
		}
		if a.Op != 1 && a.Op != 2 {
			add("arp:op", "ARP operation %d", a.Op)
		}
		return
	case d.OffIP4 != 0:
		ip := f[d.OffIP4:]
		ihl := int(ip[0]&0xf) * 4
		tot := int(ip[2])<<8 | int(ip[3])
		if tot != len(ip) {
			add("ip4:length", "IPv4 total length %d but %d bytes follow the Ethernet header", tot, len(ip))
		}
		if ip[0]>>4 != 4 {
			add("ip4:version", "IPv4 version nibble %d", ip[0]>>4)
		}
		if !refdec.Verify1071(ip[:ihl]) {
			add("ip4:checksum", "IPv4 header checksum does not verify")
		}
		// no send path fragments: a frame with the more-fragments bit, a fragment offset or the reserved bit set is not a
		// complete packet (a receiver would wait for the other fragments or drop it)
		if ff := int(ip[6])<<8 | int(ip[7]); ff&0x8000 != 0 || ff&0x2000 != 0 || ff&0x1fff != 0 {
			add("ip4:fragment", "IPv4 flags/fragment offset field is %#04x (reserved=%v MF=%v offset=%d): not a complete datagram", ff, ff&0x8000 != 0, ff&0x2000 != 0, ff&0x1fff)
		}
		if tot > len(ip) {
			tot = len(ip)
		}
		l4 := ip[ihl:tot]
		switch d.Proto {
		case 1:
			info.ICMP = l4
			info.Class = fmt.Sprintf("icmp4:type%d", l4[0])
			if !refdec.Verify1071(l4) {
				add("icmp4:checksum", "ICMPv4 checksum does not verify")
			}
		case 17:
			checkUDP(&info, l4, add)
		default:
			info.Class = fmt.Sprintf("ip4:proto%d", d.Proto)
		}
	case d.OffIP6 != 0:
		ip := f[d.OffIP6:]
		pl := int(ip[4])<<8 | int(ip[5])
		if 40+pl != len(ip) {
			add("ip6:length", "IPv6 payload length %d but %d bytes follow the header", pl, len(ip)-40)
		}
		if 40+pl > len(ip) {
			pl = len(ip) - 40
		}
		l4 := ip[40 : 40+pl]
		if d.DstMAC[0] == 0x33 && d.DstMAC[1] == 0x33 {
			if !d.DstIP.IsMulticast() || refdec.MulticastMAC6(d.DstIP) != d.DstMAC {
				add("ip6:group-mac", "destination MAC %x does not match IPv6 destination %v (want %x)", d.DstMAC[:], d.DstIP, refdec.MulticastMAC6(d.DstIP))
			}
		}
		switch d.Proto {
		case 58:
			info.ICMP = l4
			if len(l4) < 4 {
				add("icmp6:short", "icmpv6 shorter than its header")
				return
			}
			info.Class = fmt.Sprintf("icmp6:type%d", l4[0])
			if !refdec.Verify1071(refdec.PseudoHdr6(d.SrcIP, d.DstIP, len(l4), 58), l4) {
				add("icmp6:checksum", "ICMPv6 checksum does not verify over the pseudo header")
			}
			if l4[0] >= 133 && l4[0] <= 137 {
				// the statement says "link-local NDP uses hop limit 255": applied when the destination has link-local
				// scope (fe80::/10 or ff02::/16); other destinations are only counted (DESIGN Corrections)
				if ip[7] != 255 && (d.DstIP.IsLinkLocalUnicast() || d.DstIP.IsLinkLocalMulticast()) {
					add("ndp:hop-limit", "NDP message type %d sent with hop limit %d", l4[0], ip[7])
				}
				min := map[byte]int{133: 8, 134: 16, 135: 24, 136: 24, 137: 40}[l4[0]]
				if len(l4) < min {
					add("ndp:short", "NDP message type %d is %d bytes, minimum %d", l4[0], len(l4), min)
				} else if _, err := refdec.SplitOptions(l4[min:]); err != nil {
					add("ndp:options", "NDP options of message type %d do not sum to the message length", l4[0])
				}
			}
		case 17:
			checkUDP(&info, l4, add)
		default:
			info.Class = fmt.Sprintf("ip6:next%d", d.Proto)
		}
	default:
		info.Class = fmt.Sprintf("ether:%04x", d.EtherType)
	}
	return
}

func checkUDP(info *TxInfo, u []byte, add func(string, string, ...any)) {
	if len(u) < 8 {
		add("udp:short", "udp shorter than its header")
		return
	}
	if l := int(u[4])<<8 | int(u[5]); l != len(u) {
		add("udp:length", "UDP length field %d but the datagram has %d bytes", l, len(u))
	}
	sp, dp := int(u[0])<<8|int(u[1]), int(u[2])<<8|int(u[3])
	p := u[8:]
	info.UDP = p
	switch {
	case dp == 67 || dp == 68:
		m, err := refdec.ParseDHCP(p)
		if err != nil {
			info.Class = "udp:dhcp4:bad"
			add("dhcp:undecodable", "DHCP payload: %v", err)
			return
		}
		info.DHCP = &m
		info.Class = fmt.Sprintf("udp:dhcp4:type%d", m.Type())
		if len(p) < 300 {
			add("dhcp:min-size", "DHCP message is %d bytes (BOOTP minimum 300)", len(p))
		}
		if mi, ri := m.OptIndex(1), m.OptIndex(3); mi >= 0 && ri >= 0 && mi > ri {
			add("dhcp:mask-after-router", "subnet mask option after the router option")
		}
		if _, overload := m.Opt(52); !overload {
			// RFC 2131 section 2: sname and file are null terminated strings (unless option 52 turns them into option space)
			for _, fld := range []struct {
				name string
				b    []byte
			}{{"sname", m.SName[:]}, {"file", m.File[:]}} {
				z := bytes.IndexByte(fld.b, 0)
				if z < 0 {
					add("dhcp:"+fld.name+"-not-terminated", "the %s field of the DHCP message holds %d bytes without a terminating NUL: % x", fld.name, len(fld.b), fld.b[:16])
				} else if len(bytes.Trim(fld.b[z:], "\x00")) != 0 {
					add("dhcp:"+fld.name+"-bytes-after-terminator", "the %s field of the DHCP message has bytes behind its terminating NUL", fld.name)
				}
			}
		}
	case sp == 53 || dp == 53 || sp == 5353 || dp == 5353 || sp == 5355 || dp == 5355 || dp == 137:
		m, err := refdec.ParseDNS(p)
		name := map[int]string{53: "dns", 5353: "mdns", 5355: "llmnr", 137: "nbns"}[dp]
		if err != nil {
			info.Class = "udp:" + name + ":bad"
			add(name+":undecodable", "%s payload: %v", name, err)
			return
		}
		info.DNS = m
		info.Class = fmt.Sprintf("udp:%s:q%d-an%d", name, len(m.Q), len(m.An))
	case dp == 1900:
		info.Class = "udp:ssdp"
	default:
		info.Class = fmt.Sprintf("udp:%d", dp)
	}
}

// WellKnownDst tells the destination a protocol's multicast queries must use (IPv4).
var WellKnownDst = map[string]netip.AddrPort{
	"mdns":  netip.MustParseAddrPort("224.0.0.251:5353"),
	"llmnr": netip.MustParseAddrPort("224.0.0.252:5355"),
	"ssdp":  netip.MustParseAddrPort("239.255.255.250:1900"),
}
