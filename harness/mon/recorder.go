// Package mon holds the recorder connection, session helpers and monitors shared by the checks.
package mon

import (
	"bytes"
	"errors"
	"io"
	"net"
	"net/netip"
	"os"
	"sync"
	"sync/atomic"
	"time"
	"unsafe"

	"github.com/irai/packet"
	"github.com/irai/packet/fastlog"
)

// TxFrame is one frame passed to Conn.WriteTo.
type TxFrame struct {
	Seq    int
	T      time.Time
	Data   []byte
	Dst    packet.Addr
	HasDst bool
}

// Recorder is a net.PacketConn injected through Config.Conn: it records every written frame and
// feeds ReadFrom from a queue. Unlike the repo's bufferedPacketConn it never panics after Close.
type Recorder struct {
	mu        sync.Mutex
	frames    []TxFrame
	seq       int
	failDelay time.Duration
	failN     int // fail the next failN writes
	failErr   error
	onWrite   func(TxFrame)
	after     func(TxFrame)
	shards    []recShard
	rx        chan []byte
	closed    chan struct{}
	once      sync.Once
}

// NewRecorder returns a recorder with an rx queue of the given size.
func NewRecorder(rxQueue int) *Recorder {
	return &Recorder{rx: make(chan []byte, rxQueue), closed: make(chan struct{})}
}

// OnWrite installs an online monitor called (under the recorder lock) for every frame.
func (r *Recorder) OnWrite(f func(TxFrame)) { r.mu.Lock(); r.onWrite = f; r.mu.Unlock() }

// FailNext makes the next n writes fail with err.
func (r *Recorder) FailNext(n int, err error) {
	r.mu.Lock()
	r.failN, r.failErr = n, err
	r.mu.Unlock()
}

// FailSlowly makes the injected write failures take d before they are reported (a driver that times out, a full queue):
// other goroutines run while the failing writer is still inside its write.
func (r *Recorder) FailSlowly(d time.Duration) { r.mu.Lock(); r.failDelay = d; r.mu.Unlock() }

var ErrInjected = errors.New("injected write error")

// AfterWrite installs a responder called, without the recorder lock, before WriteTo returns to the library: a peer that
// answers faster than the sender gets back from its write.
func (r *Recorder) AfterWrite(f func(TxFrame)) { r.mu.Lock(); r.after = f; r.mu.Unlock() }

// dirtyPool keeps the library's shared frame buffer pool dirty: the send paths build their frames in pooled buffers that
// earlier sends (of any protocol) have used, so every byte of a frame has to be written by the path that sends it. After each
// recorded write a few pooled buffers are filled with 0xff and handed back.
func dirtyPool() {
	var got [4]*[packet.EthMaxSize]byte
	for i := range got {
		got[i] = packet.EtherBufferPool.Get().(*[packet.EthMaxSize]byte)
		for k := range got[i] {
			got[i][k] = 0xff
		}
	}
	for i := range got {
		packet.EtherBufferPool.Put(got[i])
	}
}

// Sharded switches the recorder to the mode used by the race-detector stress run (C09): a mutex shared by every sender would
// order all goroutines that transmit (and the packet loop that used to collect the frames) and so hide races between them from
// the detector. In this mode a write only locks one of 64 shards chosen from the address of the sender's buffer (concurrent
// senders use different buffers), nothing else is touched (no sequence numbers, no fault injection, no pool poisoning), and the
// frames are collected with TakeShards by a goroutine that does nothing else.
func (r *Recorder) Sharded() { r.shards = make([]recShard, 64) }

type recShard struct {
	mu     sync.Mutex
	frames []TxFrame
	_      [40]byte
}

// TakeShards returns and clears the frames of all shards (order between shards is not preserved).
func (r *Recorder) TakeShards() []TxFrame {
	var out []TxFrame
	for i := range r.shards {
		sh := &r.shards[i]
		sh.mu.Lock()
		out = append(out, sh.frames...)
		sh.frames = nil
		sh.mu.Unlock()
	}
	return out
}

func (r *Recorder) WriteTo(b []byte, addr net.Addr) (int, error) {
	if r.shards != nil {
		if len(b) == 0 {
			return 0, nil
		}
		sh := &r.shards[(uintptr(unsafe.Pointer(&b[0]))>>11)%uintptr(len(r.shards))]
		f := TxFrame{T: time.Now(), Data: append([]byte(nil), b...)}
		sh.mu.Lock()
		sh.frames = append(sh.frames, f)
		sh.mu.Unlock()
		return len(b), nil
	}
	defer dirtyPool()
	n, f, after, err := r.writeTo(b, addr)
	if err == nil && after != nil {
		after(f)
	}
	if err != nil {
		r.mu.Lock()
		d := r.failDelay
		r.mu.Unlock()
		if d > 0 {
			time.Sleep(d)
		}
	}
	return n, err
}

func (r *Recorder) writeTo(b []byte, addr net.Addr) (int, TxFrame, func(TxFrame), error) {
	r.mu.Lock()
	defer r.mu.Unlock()
	if r.failN > 0 {
		r.failN--
		return 0, TxFrame{}, nil, r.failErr
	}
	f := TxFrame{Seq: r.seq, T: time.Now(), Data: append([]byte(nil), b...)}
	r.seq++
	if a, ok := addr.(*packet.Addr); ok && a != nil {
		f.Dst = packet.Addr{MAC: append(net.HardwareAddr(nil), a.MAC...), IP: a.IP, Port: a.Port}
		f.HasDst = true
	}
	r.frames = append(r.frames, f)
	if r.onWrite != nil {
		r.onWrite(f)
	}
	return len(b), f, r.after, nil
}

// Take returns and clears the recorded frames.
func (r *Recorder) Take() []TxFrame {
	r.mu.Lock()
	defer r.mu.Unlock()
	f := r.frames
	r.frames = nil
	return f
}

// Count returns the number of frames written so far (including taken ones).
func (r *Recorder) Count() int { r.mu.Lock(); defer r.mu.Unlock(); return r.seq }

// Feed queues a frame for ReadFrom; false if the queue is full or the conn closed.
func (r *Recorder) Feed(b []byte) bool {
	select {
	case <-r.closed:
		return false
	default:
	}
	select {
	case r.rx <- b:
		return true
	default:
		return false
	}
}

// FeedWait queues a frame, blocking while the queue is full.
func (r *Recorder) FeedWait(b []byte) bool {
	select {
	case r.rx <- b:
		return true
	case <-r.closed:
		return false
	}
}

func (r *Recorder) ReadFrom(b []byte) (int, net.Addr, error) {
	select {
	case p := <-r.rx:
		return copy(b, p), nil, nil
	case <-r.closed:
		return 0, nil, io.EOF
	}
}

func (r *Recorder) Close() error                       { r.once.Do(func() { close(r.closed) }); return nil }
func (r *Recorder) LocalAddr() net.Addr                { return nil }
func (r *Recorder) SetDeadline(t time.Time) error      { return nil }
func (r *Recorder) SetReadDeadline(t time.Time) error  { return nil }
func (r *Recorder) SetWriteDeadline(t time.Time) error { return nil }

// NIC is a NIC configuration for test sessions.
type NIC struct {
	HostMAC   net.HardwareAddr
	HostIP    netip.Addr
	RouterMAC net.HardwareAddr
	RouterIP  netip.Addr
	HomeLAN   netip.Prefix
	HostLLA   netip.Addr // may be invalid (no IPv6)
}

// DefaultNIC is the usual /24 configuration.
func DefaultNIC() NIC {
	return NIC{
		HostMAC:   net.HardwareAddr{0x02, 0x55, 0x55, 0x55, 0x55, 0x55},
		HostIP:    netip.MustParseAddr("192.168.0.129"),
		RouterMAC: net.HardwareAddr{0x02, 0x66, 0x66, 0x66, 0x66, 0x66},
		RouterIP:  netip.MustParseAddr("192.168.0.1"),
		HomeLAN:   netip.MustParsePrefix("192.168.0.0/24"),
		HostLLA:   netip.MustParseAddr("fe80::55:55ff:fe55:5555"),
	}
}

// NICConfigs are the NIC configurations used for C07.
func NICConfigs() []NIC {
	a := DefaultNIC()
	b := NIC{
		HostMAC:   net.HardwareAddr{0x00, 0x1c, 0x42, 0xaa, 0xbb, 0xcc},
		HostIP:    netip.MustParseAddr("10.1.2.5"),
		RouterMAC: net.HardwareAddr{0x00, 0x1c, 0x42, 0x00, 0x00, 0x01},
		RouterIP:  netip.MustParseAddr("10.1.2.1"),
		HomeLAN:   netip.MustParsePrefix("10.1.2.0/28"),
		HostLLA:   netip.MustParseAddr("fe80::21c:42ff:feaa:bbcc"),
	}
	c := a
	c.HostLLA = netip.Addr{}
	c.HostMAC = net.HardwareAddr{0xf6, 0x01, 0x02, 0x03, 0x04, 0x05}
	d := NIC{
		HostMAC:   net.HardwareAddr{0x9c, 0x00, 0x00, 0x00, 0x00, 0xfe},
		HostIP:    netip.MustParseAddr("172.16.255.254"),
		RouterMAC: net.HardwareAddr{0x9c, 0xff, 0xff, 0xff, 0xff, 0x00},
		RouterIP:  netip.MustParseAddr("172.16.0.1"),
		HomeLAN:   netip.MustParsePrefix("172.16.0.0/16"),
		HostLLA:   netip.MustParseAddr("fe80::ffff:ffff:ffff:ffff"),
	}
	return []NIC{a, b, c, d}
}

// Info converts to the library's NICInfo.
func (n NIC) Info() *packet.NICInfo {
	info := &packet.NICInfo{
		IFI:         &net.Interface{Index: 2, MTU: 1500, Name: "eth0", HardwareAddr: n.HostMAC},
		HomeLAN4:    n.HomeLAN,
		HostAddr4:   packet.Addr{MAC: n.HostMAC, IP: n.HostIP},
		RouterAddr4: packet.Addr{MAC: n.RouterMAC, IP: n.RouterIP},
	}
	if n.HostLLA.IsValid() {
		info.HostLLA = netip.PrefixFrom(n.HostLLA, 64)
	}
	return info
}

// NewSession creates a session on the recorder with the given NIC and deadlines (zero = library defaults).
func NewSession(conn net.PacketConn, nic NIC, probe, offline, purge time.Duration) (*packet.Session, error) {
	return packet.Config{Conn: conn, NICInfo: nic.Info(), ProbeDeadline: probe, OfflineDeadline: offline, PurgeDeadline: purge}.NewSession("")
}

var quietOnce sync.Once

// Quiet sends the library's stdout chatter and fastlog output to /dev/null (DESIGN 2.5).
func Quiet() {
	quietOnce.Do(func() {
		if f, err := os.OpenFile(os.DevNull, os.O_WRONLY, 0); err == nil {
			os.Stdout = f
		}
		fastlog.DefaultIOWriter = Log
	})
}

// LogMon is the writer behind every fastlog line the library emits: nothing is kept, but every write is judged. A line
// handed to Write must begin with its 6 character module tag and ':' (what Logger.Msg puts there) and must not be the
// poison text fastlog leaves in a buffer it has already given back to its pool ("invalid buffer freed via ..."): such a
// write means that a line was written twice or used after Write/ToString, i.e. two users now share one pooled buffer.
type LogMon struct {
	counting atomic.Bool
	mu       sync.Mutex
	Lines    int64
	bad      []string
}

// Log is the process wide monitor installed by Quiet.
var Log = &LogMon{}

// Counting makes the monitor count the lines it judges (C20). It is off by default: a counter or a lock touched by every log
// line would order all goroutines that log and hide races between them from the race detector (C09).
func (m *LogMon) Counting(on bool) { m.counting.Store(on) }

func (m *LogMon) Write(p []byte) (int, error) {
	kind := logLineKind(p)
	if kind == "" && !m.counting.Load() {
		return len(p), nil // the common case touches nothing shared
	}
	m.mu.Lock()
	defer m.mu.Unlock()
	m.Lines++
	if kind != "" && len(m.bad) < 16 {
		q := p
		if len(q) > 200 {
			q = q[:200]
		}
		m.bad = append(m.bad, kind+"|"+string(q))
	}
	return len(p), nil
}

func logLineKind(p []byte) string {
	kind := ""
	switch {
	case bytes.Contains(p, []byte("invalid buffer freed via")):
		kind = "written-after-free"
	case len(p) < 8 || p[6] != ':':
		kind = "no-module-tag"
	default:
		for _, b := range p[:6] {
			if !(b == ' ' || b == '_' || b == '-' || b >= '0' && b <= '9' || b >= 'a' && b <= 'z' || b >= 'A' && b <= 'Z') {
				kind = "no-module-tag"
			}
		}
	}
	return kind
}

// Take returns and clears the malformed writes seen so far ("kind|first 200 bytes").
func (m *LogMon) Take() []string {
	m.mu.Lock()
	defer m.mu.Unlock()
	out := m.bad
	m.bad = nil
	return out
}

// Count returns the number of lines judged so far.
func (m *LogMon) Count() int64 {
	m.mu.Lock()
	defer m.mu.Unlock()
	return m.Lines
}
