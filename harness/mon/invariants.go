package mon

import (
	"bytes"
	"fmt"

	"github.com/irai/packet"
)

// CheckTables evaluates the C05 invariants I1-I7 on the exported tables. The caller guarantees quiescence.
// It returns one "<invariant>: detail" string per broken invariant.
func CheckTables(s *packet.Session) (bad []string) {
	add := func(inv, f string, a ...any) { bad = append(bad, inv+": "+fmt.Sprintf(f, a...)) }
	inMAC := map[*packet.MACEntry]bool{}
	for i, e := range s.MACTable.Table {
		if e == nil {
			add("I5", "nil MAC entry at %d", i)
			continue
		}
		inMAC[e] = true
		for j := 0; j < i; j++ {
			if o := s.MACTable.Table[j]; o != nil && bytes.Equal(o.MAC, e.MAC) {
				add("I5", "MAC %s appears twice in the MAC table", e.MAC)
			}
		}
	}
	listed := map[*packet.Host]int{}
	for _, e := range s.MACTable.Table {
		if e == nil {
			continue
		}
		for _, h := range e.HostList {
			if h == nil {
				add("I4", "nil host under MAC %s", e.MAC)
				continue
			}
			listed[h]++
			if s.HostTable.Table[h.Addr.IP] != h {
				add("I4", "host %v listed under MAC %s is not the indexed host for its IP", h.Addr.IP, e.MAC)
			}
			if h.MACEntry != e {
				add("I3", "host %v listed under MAC %s points to another MAC entry", h.Addr.IP, e.MAC)
			}
		}
	}
	for ip, h := range s.HostTable.Table {
		if h == nil {
			add("I1", "nil host indexed under %v", ip)
			continue
		}
		if h.Addr.IP != ip {
			add("I1", "host indexed under %v has IP %v", ip, h.Addr.IP)
		}
		if h.MACEntry == nil {
			add("I2", "host %v has no MAC entry", ip)
			continue
		}
		if !inMAC[h.MACEntry] {
			add("I2", "MAC entry %s of host %v is not in the MAC table", h.MACEntry.MAC, ip)
		}
		if !bytes.Equal(h.MACEntry.MAC, h.Addr.MAC) {
			add("I2", "host %v has MAC %s but belongs to entry %s", ip, h.Addr.MAC, h.MACEntry.MAC)
		}
		if n := listed[h]; n != 1 {
			add("I3", "host %v appears %d times in MAC host lists", ip, n)
		}
		if h.Online && !h.MACEntry.Online {
			add("I6", "host %v online but its MAC entry %s is offline", ip, h.MACEntry.MAC)
		}
	}
	func() {
		defer func() {
			if r := recover(); r != nil {
				add("I7", "PrintTable panicked: %v", r)
			}
		}()
		s.PrintTable()
	}()
	return bad
}
