package mon

import (
	"fmt"
	"net/netip"
	"time"

	"verif/harness/refdec"
)

// DHCPCfg is what the monitor knows about the server's configuration (from the harness, not from the server).
type DHCPCfg struct {
	Home      netip.Prefix // home LAN
	Netfilter netip.Prefix // netfilter (captured) subnet
	HostIP    netip.Addr   // our address on the LAN = server id
	Gateway   netip.Addr   // our address in the netfilter subnet (Config.NetfilterIP): the router captured clients get; HostIP when unset
	RouterIP  netip.Addr   // the real router
	DNS       netip.Addr   // configured DNS for the home subnet
	FamilyDNS netip.Addr   // DNS handed to captured clients
	Lease     time.Duration
}

// DHCPFinding is one refuting observation of the wire monitor.
type DHCPFinding struct {
	Prop   string // C11 or C12
	Key    string
	Detail string
}

type dhcpBinding struct {
	client   string
	until    time.Time
	captured bool // capture state of the client when the binding was acknowledged
}

type dhcpReq struct {
	msg      refdec.DHCPMsg
	typ      int
	client   string
	captured bool
	srcIP    netip.Addr
	state    string // discover, selecting, renewing, rebooting, decline, release, other
	reqIP    netip.Addr
	serverID netip.Addr
	hasSID   bool
}

// DHCPMon is the online monitor over the wire (requests built by refdec, replies decoded by refdec). DESIGN appendix B.
type DHCPMon struct {
	Cfg    DHCPCfg
	Now    func() time.Time
	held   map[netip.Addr]dhcpBinding // C11 shadow: ends generously (incl. the client's next DISCOVER)
	lease  map[string]dhcpBinding     // C12 shadow "current lease" per client: ends only on expiry, decline/release, NAK, re-ACK
	leaseA map[string]netip.Addr
	offers map[string]netip.Addr // client|xid -> offered address
	last   *dhcpReq
	// observation counters
	Acks, Offers, Naks, Silent, Expiries, Requests int
}

// NewDHCPMon creates the monitor.
func NewDHCPMon(cfg DHCPCfg, now func() time.Time) *DHCPMon {
	return &DHCPMon{Cfg: cfg, Now: now, held: map[netip.Addr]dhcpBinding{}, lease: map[string]dhcpBinding{}, leaseA: map[string]netip.Addr{}, offers: map[string]netip.Addr{}}
}

func (m *DHCPMon) expire() {
	now := m.Now()
	for a, b := range m.held {
		if !b.until.After(now) {
			delete(m.held, a)
			m.Expiries++
		}
	}
	for c, b := range m.lease {
		if !b.until.After(now) {
			delete(m.lease, c)
			delete(m.leaseA, c)
		}
	}
}

// Forget drops every shadowed binding and offer: the server was restarted with a changed configuration, which by design
// (dhcp4.go, "Reset leases if error or config has changed") makes it start from an empty lease table.
func (m *DHCPMon) Forget() {
	m.held = map[netip.Addr]dhcpBinding{}
	m.lease = map[string]dhcpBinding{}
	m.leaseA = map[string]netip.Addr{}
	m.offers = map[string]netip.Addr{}
}

// HeldInfo returns the holder of the address in the C11 shadow and the capture state it was acknowledged under.
func (m *DHCPMon) HeldInfo(a netip.Addr) (client string, captured, ok bool) {
	m.expire()
	b, ok := m.held[a]
	return b.client, b.captured, ok
}

// HeldBy returns the client holding the address in the C11 shadow.
func (m *DHCPMon) HeldBy(a netip.Addr) (string, bool) {
	m.expire()
	b, ok := m.held[a]
	return b.client, ok
}

// LeaseOf returns the client's current lease in the C12 shadow.
func (m *DHCPMon) LeaseOf(client string) (netip.Addr, bool) {
	m.expire()
	a, ok := m.leaseA[client]
	return a, ok
}

// HeldLeases lists (client, address) of the generous (C11) shadow: bindings that are certainly still in force.
func (m *DHCPMon) HeldLeases() map[string]netip.Addr {
	m.expire()
	out := map[string]netip.Addr{}
	for a, b := range m.held {
		out[b.client] = a
	}
	return out
}

// Leases lists (client, address) of the conservative shadow.
func (m *DHCPMon) Leases() map[string]netip.Addr {
	m.expire()
	out := map[string]netip.Addr{}
	for c, a := range m.leaseA {
		out[c] = a
	}
	return out
}

func (m *DHCPMon) dropHeld(client string, a netip.Addr) {
	if b, ok := m.held[a]; ok && b.client == client {
		delete(m.held, a)
	}
}

func (m *DHCPMon) dropAllHeld(client string) {
	for a, b := range m.held {
		if b.client == client {
			delete(m.held, a)
		}
	}
}

// Request records a client message put on the wire (before the server sees it).
func (m *DHCPMon) Request(msg refdec.DHCPMsg, srcIP netip.Addr, captured bool) {
	m.expire()
	m.Requests++
	r := &dhcpReq{msg: msg, typ: msg.Type(), client: msg.ClientID(), captured: captured, srcIP: srcIP}
	r.reqIP, _ = msg.OptIP4(50)
	r.serverID, r.hasSID = msg.OptIP4(54)
	switch r.typ {
	case refdec.DHCPDiscover, refdec.DHCPRequest, refdec.DHCPDecline, refdec.DHCPRelease:
		// a client whose capture state changed since the ACK belongs to the other subnet now: with its next message of any of
		// these kinds the server replaces its lease record (by design, DESIGN Corrections "capture generations"), answered or
		// not - the generous shadow ends there
		for a, b := range m.held {
			if b.client == r.client && b.captured != captured {
				delete(m.held, a)
			}
		}
	}
	switch r.typ {
	case refdec.DHCPDiscover:
		r.state = "discover"
		m.dropAllHeld(r.client) // a client in INIT holds nothing (generous ending for C11)
	case refdec.DHCPRequest:
		switch {
		case r.hasSID:
			r.state = "selecting"
			if r.serverID != m.Cfg.HostIP {
				m.dropAllHeld(r.client) // a client selecting another server is in INIT/SELECTING and holds nothing (C11 shadow only)
			}
		case r.reqIP.IsValid():
			r.state = "rebooting"
		default:
			r.state = "renewing"
			r.reqIP = msg.CI
		}
	case refdec.DHCPDecline:
		r.state = "decline"
		if r.hasSID && r.serverID == m.Cfg.HostIP {
			m.dropHeld(r.client, r.reqIP)
			if a, ok := m.leaseA[r.client]; ok && a == r.reqIP {
				delete(m.lease, r.client)
				delete(m.leaseA, r.client)
			}
		}
	case refdec.DHCPRelease:
		r.state = "release"
		if r.hasSID && r.serverID == m.Cfg.HostIP {
			m.dropHeld(r.client, msg.CI)
			if a, ok := m.leaseA[r.client]; ok && a == msg.CI {
				delete(m.lease, r.client)
				delete(m.leaseA, r.client)
			}
		}
	default:
		r.state = "other"
	}
	m.last = r
}

func (m *DHCPMon) subnet(captured bool) (lan netip.Prefix, gw, dns netip.Addr, name string) {
	if captured {
		if m.Cfg.Gateway.IsValid() {
			return m.Cfg.Netfilter, m.Cfg.Gateway, m.Cfg.FamilyDNS, "captured"
		}
		return m.Cfg.Netfilter, m.Cfg.HostIP, m.Cfg.FamilyDNS, "captured"
	}
	return m.Cfg.Home, m.Cfg.RouterIP, m.Cfg.DNS, "normal"
}

func bcastOf(p netip.Prefix) netip.Addr {
	a := p.Masked().Addr().As4()
	bits := p.Bits()
	for i := 0; i < 4; i++ {
		for b := 0; b < 8; b++ {
			if i*8+b >= bits {
				a[i] |= 0x80 >> b
			}
		}
	}
	return netip.AddrFrom4(a)
}

func maskOf(p netip.Prefix) [4]byte {
	var m [4]byte
	for i := 0; i < p.Bits(); i++ {
		m[i/8] |= 0x80 >> (i % 8)
	}
	return m
}

// Silent tells the monitor that the step produced no reply.
func (m *DHCPMon) SilentStep() { m.Silent++ }

// Reply judges one BOOTREPLY seen on the wire. tracked returns the MAC the session currently tracks for an address.
func (m *DHCPMon) Reply(rep refdec.DHCPMsg, tracked func(netip.Addr) (refdec.MAC, bool)) (out []DHCPFinding) {
	m.expire()
	add := func(prop, key, f string, a ...any) { out = append(out, DHCPFinding{prop, key, fmt.Sprintf(f, a...)}) }
	r := m.last
	typ := rep.Type()
	kind := map[int]string{refdec.DHCPOffer: "offer", refdec.DHCPAck: "ack", refdec.DHCPNak: "nak"}[typ]
	if kind == "" {
		add("C12", "dhcp:reply-type", "server sent a BOOTREPLY of message type %d", typ)
		return
	}
	if r == nil {
		add("C12", "dhcp:unsolicited-"+kind, "reply without a request")
		return
	}
	if rep.XID != r.msg.XID {
		add("C12", "dhcp:echo:xid:"+kind, "reply xid %x, request xid %x", rep.XID, r.msg.XID)
	}
	if rep.CHAddr != r.msg.CHAddr {
		add("C12", "dhcp:echo:chaddr:"+kind, "reply chaddr %x, request chaddr %x", rep.CHAddr[:6], r.msg.CHAddr[:6])
	}
	client := r.client
	if typ == refdec.DHCPNak {
		m.Naks++
		// C11 shadow ends generously on a NAK; the C12 "current lease" does not: a NAK that refuses a request for some
		// other address leaves the server's binding of the leased address intact (DESIGN Corrections)
		m.dropAllHeld(client)
		// ... unless the refused request named the leased address itself: then the lease is gone
		if a, ok := m.leaseA[client]; ok && a == r.reqIP {
			delete(m.lease, client)
			delete(m.leaseA, client)
		}
		return
	}
	a := rep.YI
	lan, gw, dns, sub := m.subnet(r.captured)
	// ---- C11: reserved / foreign / doubly allocated addresses
	switch {
	case !a.Is4() || !lan.Contains(a):
		add("C11", "dhcp:reserved:outside-subnet:"+kind, "%s of %v to a %s client whose subnet is %v (request state %s)", kind, a, sub, lan, r.state)
		add("C12", "dhcp:subnet:"+sub+":"+kind, "%s of %v, subnet selected by the capture state is %v", kind, a, lan)
	case a == lan.Masked().Addr():
		add("C11", "dhcp:reserved:network:"+kind, "%s of the network address %v", kind, a)
	case a == bcastOf(lan):
		add("C11", "dhcp:reserved:broadcast:"+kind, "%s of the broadcast address %v", kind, a)
	}
	if a == m.Cfg.HostIP {
		add("C11", "dhcp:reserved:own:"+kind, "%s of our own address %v", kind, a)
	}
	if a == m.Cfg.Gateway && a != m.Cfg.HostIP {
		// the host's second address: what every captured client is told to route through
		add("C11", "dhcp:reserved:own-gateway:"+kind, "%s of %v, our own address in the netfilter subnet (the router of captured clients)", kind, a)
	}
	if a == m.Cfg.RouterIP {
		add("C11", "dhcp:reserved:router:"+kind, "%s of the router address %v", kind, a)
	}
	if mac, ok := tracked(a); ok && mac != r.msg.CHMAC() {
		add("C11", "dhcp:reserved:tracked-by-other-mac:"+kind, "%s of %v which the session tracks for MAC %x (client MAC %x)", kind, a, mac[:], r.msg.CHAddr[:6])
	}
	if b, ok := m.held[a]; ok && b.client != client {
		if typ == refdec.DHCPAck {
			add("C11", "dhcp:ack-held-by-other", "ACK of %v to client %x while it is still acknowledged to client %x until %v", a, client, b.client, b.until)
		} else {
			add("C11", "dhcp:offer-held-by-other", "OFFER of %v to client %x while it is acknowledged to client %x", a, client, b.client)
		}
	}
	// ---- C12: options of the selected subnet
	mask := maskOf(lan)
	if d, ok := rep.Opt(1); !ok || len(d) != 4 || [4]byte(d) != mask {
		add("C12", "dhcp:option:mask:"+sub, "%s carries subnet mask %v, subnet %v needs %v", kind, d, lan, mask)
	}
	if x, ok := rep.OptIP4(3); !ok || x != gw {
		add("C12", "dhcp:option:router:"+sub, "%s carries router %v, a %s client must get %v", kind, x, sub, gw)
	}
	if x, ok := rep.OptIP4(6); !ok || x != dns {
		add("C12", "dhcp:option:dns:"+sub, "%s carries DNS %v, a %s client must get %v", kind, x, sub, dns)
	}
	if x, ok := rep.OptIP4(54); !ok || x != m.Cfg.HostIP {
		add("C12", "dhcp:option:server-id", "%s carries server identifier %v, ours is %v", kind, x, m.Cfg.HostIP)
	}
	lt, ok := rep.Opt(51)
	if !ok || len(lt) != 4 || time.Duration(uint32(lt[0])<<24|uint32(lt[1])<<16|uint32(lt[2])<<8|uint32(lt[3]))*time.Second != m.Cfg.Lease {
		add("C12", "dhcp:option:lease-time", "%s carries lease time %v, configured %v", kind, lt, m.Cfg.Lease)
	}
	if mi, ri := rep.OptIndex(1), rep.OptIndex(3); mi >= 0 && ri >= 0 && mi > ri {
		add("C12", "dhcp:option:order", "subnet mask encoded after the router option")
	}
	key := client + "|" + string(rep.XID[:])
	if typ == refdec.DHCPOffer {
		m.Offers++
		if r.state != "discover" {
			add("C12", "dhcp:offer-without-discover", "OFFER in answer to a %s message", r.state)
		}
		m.offers[key] = a
		return
	}
	// ---- ACK
	m.Acks++
	offered, hasOffer := m.offers[key]
	cur, hasLease := m.leaseA[client]
	if !((hasOffer && offered == a) || (hasLease && cur == a)) {
		add("C12", "dhcp:ack-unrelated:"+r.state, "ACK of %v which is neither the address offered in this transaction (%v, %v) nor the client's current lease (%v, %v)", a, offered, hasOffer, cur, hasLease)
	}
	// must-not-ACK situations
	switch r.state {
	case "selecting":
		if r.serverID != m.Cfg.HostIP {
			add("C12", "dhcp:must-not-ack:selecting-other-server", "ACK although the client selected server %v", r.serverID)
		} else if !((hasOffer && offered == r.reqIP) || (hasLease && cur == r.reqIP)) {
			add("C12", "dhcp:must-not-ack:selecting-mismatch", "ACK of a selecting REQUEST for %v; offered in this transaction: %v (%v), current lease: %v (%v)", r.reqIP, offered, hasOffer, cur, hasLease)
		}
	case "renewing", "rebooting":
		if !hasLease {
			add("C12", "dhcp:must-not-ack:"+r.state+"-unknown-or-expired", "ACK of a %s REQUEST for %v from a client without a current lease", r.state, r.reqIP)
		} else if cur != r.reqIP {
			add("C12", "dhcp:must-not-ack:"+r.state+"-mismatch", "ACK of a %s REQUEST for %v, the client's lease is %v", r.state, r.reqIP, cur)
		}
	case "discover", "decline", "release", "other":
		add("C12", "dhcp:must-not-ack:"+r.state, "ACK in answer to a %s message", r.state)
	}
	if a != r.reqIP && r.reqIP.IsValid() {
		add("C12", "dhcp:ack-other-than-requested", "ACK of %v, the client asked for %v", a, r.reqIP)
	}
	// update the shadows
	until := m.Now().Add(m.Cfg.Lease)
	for x, b := range m.held {
		if b.client == client && x != a {
			delete(m.held, x)
		}
	}
	m.held[a] = dhcpBinding{client, until, r.captured}
	m.lease[client] = dhcpBinding{client, until, r.captured}
	m.leaseA[client] = a
	delete(m.offers, key)
	return
}
