package refdec

import (
	"bytes"
	"fmt"
	"math/rand"
	"net/netip"
	"sync"

	"golang.org/x/net/dns/dnsmessage"
	"golang.org/x/net/icmp"
	"golang.org/x/net/ipv4"
	"golang.org/x/net/ipv6"
)

var (
	selfOnce sync.Once
	selfErr  error
)

// SelfTest cross-checks refdec against golang.org/x/net (a third implementation) and against itself.
// Checks call it first; a failure makes the check broken, never "violated".
func SelfTest() error {
	selfOnce.Do(func() { selfErr = selfTest() })
	return selfErr
}

func rAddr4(r *rand.Rand) netip.Addr {
	return netip.AddrFrom4([4]byte{byte(r.Intn(256)), byte(r.Intn(256)), byte(r.Intn(256)), byte(r.Intn(256))})
}
func rAddr6(r *rand.Rand) netip.Addr {
	var a [16]byte
	r.Read(a[:])
	return netip.AddrFrom16(a)
}

func selfTest() error {
	r := rand.New(rand.NewSource(42))
	// RFC 1071 worked example: 0001 f203 f4f5 f6f7 -> sum ddf2, checksum 220d
	if s := Sum1071([]byte{0x00, 0x01, 0xf2, 0x03, 0xf4, 0xf5, 0xf6, 0xf7}); s != 0x220d {
		return fmt.Errorf("Sum1071 RFC example: %#x", s)
	}
	if s := Sum1071([]byte{0x00, 0x01, 0xf2}, []byte{0x03, 0xf4, 0xf5, 0xf6, 0xf7}); s != 0x220d {
		return fmt.Errorf("Sum1071 split: %#x", s)
	}
	for i := 0; i < 2000; i++ {
		// IPv4 against x/net/ipv4
		h := IP4Hdr{TOS: uint8(r.Intn(256)), ID: uint16(r.Intn(65536)), Flags: uint8(r.Intn(8)), FragOff: uint16(r.Intn(8192)),
			TTL: uint8(r.Intn(256)), Proto: uint8(r.Intn(256)), Src: rAddr4(r), Dst: rAddr4(r), Options: make([]byte, 4*r.Intn(3))}
		pl := make([]byte, r.Intn(64))
		r.Read(pl)
		b := IP4(h, pl)
		xh, err := ipv4.ParseHeader(b)
		if err != nil {
			return fmt.Errorf("ipv4.ParseHeader: %v", err)
		}
		if xh.Len != 20+len(h.Options) || xh.TotalLen != len(b) || xh.TOS != int(h.TOS) || xh.ID != int(h.ID) || xh.TTL != int(h.TTL) ||
			xh.Protocol != int(h.Proto) || xh.FragOff != int(h.FragOff) || int(xh.Flags) != int(h.Flags) ||
			!bytes.Equal(xh.Src.To4(), h.Src.AsSlice()) || !bytes.Equal(xh.Dst.To4(), h.Dst.AsSlice()) {
			return fmt.Errorf("ipv4 header disagrees with x/net: %+v vs %+v", xh, h)
		}
		if !Verify1071(b[:xh.Len]) {
			return fmt.Errorf("ipv4 checksum does not verify")
		}
		// IPv6 against x/net/ipv6
		h6 := IP6Hdr{Class: uint8(r.Intn(256)), Flow: uint32(r.Intn(1 << 20)), Next: uint8(r.Intn(256)), Hop: uint8(r.Intn(256)), Src: rAddr6(r), Dst: rAddr6(r), PayloadLen: -1}
		b6 := IP6(h6, pl)
		x6, err := ipv6.ParseHeader(b6)
		if err != nil {
			return fmt.Errorf("ipv6.ParseHeader: %v", err)
		}
		if x6.TrafficClass != int(h6.Class) || x6.FlowLabel != int(h6.Flow) || x6.PayloadLen != len(pl) || x6.NextHeader != int(h6.Next) ||
			x6.HopLimit != int(h6.Hop) || !bytes.Equal(x6.Src, h6.Src.AsSlice()) || !bytes.Equal(x6.Dst, h6.Dst.AsSlice()) {
			return fmt.Errorf("ipv6 header disagrees with x/net")
		}
		// ICMPv4 echo against x/net/icmp
		id, seq := uint16(r.Intn(65536)), uint16(r.Intn(65536))
		eb := EchoBody(id, seq, pl)
		var rest [4]byte
		copy(rest[:], eb[:4])
		m4 := ICMP4(8, 0, rest, eb[4:])
		xm, err := icmp.ParseMessage(1, m4)
		if err != nil {
			return fmt.Errorf("icmp.ParseMessage v4: %v", err)
		}
		if e, ok := xm.Body.(*icmp.Echo); !ok || e.ID != int(id) || e.Seq != int(seq) || !bytes.Equal(e.Data, pl) {
			return fmt.Errorf("icmp4 echo disagrees with x/net")
		}
		xb, _ := (&icmp.Message{Type: ipv4.ICMPTypeEcho, Body: &icmp.Echo{ID: int(id), Seq: int(seq), Data: pl}}).Marshal(nil)
		if !bytes.Equal(xb, m4) {
			return fmt.Errorf("icmp4 echo bytes differ from x/net marshal")
		}
		// ICMPv6 echo checksum against x/net
		m6 := ICMP6(h6.Src, h6.Dst, 128, 0, eb)
		psh := icmp.IPv6PseudoHeader(h6.Src.AsSlice(), h6.Dst.AsSlice())
		xb6, _ := (&icmp.Message{Type: ipv6.ICMPTypeEchoRequest, Body: &icmp.Echo{ID: int(id), Seq: int(seq), Data: pl}}).Marshal(psh)
		if !bytes.Equal(xb6, m6) {
			return fmt.Errorf("icmp6 echo bytes differ from x/net marshal: % x vs % x", xb6, m6)
		}
		// Decode of a composed frame
		f := Ether(MAC{2, 0, 0, 0, 0, 1}, MAC{2, 0, 0, 0, 0, 2}, 0x0800, i%3, IP4(IP4Hdr{TTL: 1, Proto: 17, Src: h.Src, Dst: h.Dst}, UDP(uint16(r.Intn(65536)), 53, pl)))
		d := Decode(f)
		if i%3 == 0 {
			if d.Err || d.PayloadID != PDNS || d.OffIP4 != 14 || d.OffUDP != 34 || !d.PayloadOK(42) || d.SrcIP != h.Src {
				return fmt.Errorf("Decode of udp/53 frame: %+v", d)
			}
		} else if d.Err || d.PayloadID != PEther {
			return fmt.Errorf("Decode of vlan frame: %+v", d)
		}
	}
	// DNS builder/parser against x/net/dns/dnsmessage
	for i := 0; i < 500; i++ {
		names := []string{"www.example.com", "a.b.c.example.com", "example.com", "host.local", "x.y.host.local"}
		m := NewDNSMsg(uint16(r.Intn(65536)), 0x8400)
		m.Q = []DNSQ{{names[r.Intn(len(names))], TypeA, 1}}
		for k := 0; k < 1+r.Intn(4); k++ {
			n := names[r.Intn(len(names))]
			switch r.Intn(4) {
			case 0:
				m.An = append(m.An, DNSRR{Name: n, Type: TypeA, Class: 1, TTL: uint32(r.Intn(9999)), Addr: rAddr4(r)})
			case 1:
				m.An = append(m.An, DNSRR{Name: n, Type: TypeAAAA, Class: 1, TTL: uint32(r.Intn(9999)), Addr: rAddr6(r)})
			case 2:
				m.Ns = append(m.Ns, DNSRR{Name: n, Type: TypeCNAME, Class: 1, TTL: 5, Target: names[r.Intn(len(names))]})
			default:
				m.Ar = append(m.Ar, DNSRR{Name: n, Type: TypePTR, Class: 1, TTL: 5, Target: names[r.Intn(len(names))]})
			}
		}
		bld := DNSBuilder{Compress: i%2 == 0}
		wire := bld.Build(m)
		var xm dnsmessage.Message
		if err := xm.Unpack(wire); err != nil {
			return fmt.Errorf("dnsmessage.Unpack of refdec message: %v (% x)", err, wire)
		}
		back, err := ParseDNS(wire)
		if err != nil {
			return fmt.Errorf("ParseDNS of own message: %v", err)
		}
		if len(back.An) != len(m.An) || len(back.Ns) != len(m.Ns) || len(back.Ar) != len(m.Ar) || back.Q[0].Name != m.Q[0].Name {
			return fmt.Errorf("ParseDNS round trip mismatch")
		}
		all := append(append(append([]DNSRR{}, back.An...), back.Ns...), back.Ar...)
		xall := append(append(append([]dnsmessage.Resource{}, xm.Answers...), xm.Authorities...), xm.Additionals...)
		orig := append(append(append([]DNSRR{}, m.An...), m.Ns...), m.Ar...)
		for k := range all {
			if all[k].Name != orig[k].Name || all[k].Target != orig[k].Target || (orig[k].Addr.IsValid() && all[k].Addr != orig[k].Addr) {
				return fmt.Errorf("ParseDNS rr %d mismatch %+v vs %+v", k, all[k], orig[k])
			}
			if xall[k].Header.Name.String() != all[k].Name+"." {
				return fmt.Errorf("x/net name %q vs refdec %q", xall[k].Header.Name.String(), all[k].Name)
			}
		}
		// and the other direction: x/net packs, refdec parses
		xw, err := xm.Pack()
		if err != nil {
			return err
		}
		b2, err := ParseDNS(xw)
		if err != nil || len(b2.An) != len(m.An) {
			return fmt.Errorf("ParseDNS of x/net message: %v", err)
		}
	}
	// pointer loop / forward pointer must be rejected
	if _, _, err := ReadName([]byte{0, 0, 0, 0, 0, 0, 0, 0, 0, 0, 0, 0, 0xc0, 12}, 12); err == nil {
		return fmt.Errorf("ReadName accepted a self pointer")
	}
	// DHCP round trip
	for i := 0; i < 500; i++ {
		m := DHCPMsg{Op: 1, HType: 1, HLen: 6, Secs: uint16(i), Flags: 0x8000, CI: rAddr4(r), YI: rAddr4(r)}
		r.Read(m.XID[:])
		r.Read(m.CHAddr[:6])
		m.Options = []DHCPOpt{{53, []byte{byte(1 + r.Intn(8))}}, {61, []byte{1, 2, 3, 4, 5, 6, 7}}, {50, []byte{1, 2, 3, 4}}}
		b := m.Bytes()
		if len(b) < 300 {
			return fmt.Errorf("dhcp not padded")
		}
		back, err := ParseDHCP(b)
		if err != nil || back.Type() != int(m.Options[0].Data[0]) || back.XID != m.XID || back.CI != m.CI || back.YI != m.YI || back.CHAddr != m.CHAddr || len(back.Options) != 3 {
			return fmt.Errorf("dhcp round trip: %v %+v", err, back)
		}
	}
	// NDP RA round trip
	ra := RA{HopLimit: 64, Flags: 0xc8, Lifetime: 1800, Reachable: 5, Retrans: 7, Opts: []NDPOpt{
		OptLLA(OptSLLA, MAC{2, 1, 2, 3, 4, 5}), OptMTUv(1480),
		OptPrefixInfo(PrefixInfo{Len: 64, OnLink: true, Auto: true, Valid: 86400, Preferred: 14400, Prefix: netip.MustParseAddr("2001:db8:1::")}),
		OptRDNSSv(RDNSS{Lifetime: 600, Servers: []netip.Addr{netip.MustParseAddr("2001:db8::53"), netip.MustParseAddr("2001:db8::54")}}),
		OptDNSSLv(DNSSL{Lifetime: 600, Domains: []string{"lan", "example.com"}}),
		OptRouteInfo(RouteInfo{Len: 48, Pref: 1, Lifetime: 300, Prefix: netip.MustParseAddr("2001:db8:2::")}),
	}}
	msg := ICMP6(netip.MustParseAddr("fe80::1"), netip.MustParseAddr("ff02::1"), NDPRouterAdvert, 0, ra.Body())
	info, err := DecodeRA(msg)
	if err != nil {
		return fmt.Errorf("DecodeRA: %v", err)
	}
	if !info.Managed || !info.Other || info.Pref != 1 || info.MTU != 1480 || len(info.Prefixes) != 1 || info.Prefixes[0].Valid != 86400 ||
		info.RDNSS == nil || len(info.RDNSS.Servers) != 2 || info.DNSSL == nil || len(info.DNSSL.Domains) != 2 || info.DNSSL.Domains[1] != "example.com" ||
		info.Route == nil || info.Route.Len != 48 || info.Route.Pref != 1 || info.SLLA == nil || info.SLLA[5] != 5 {
		return fmt.Errorf("DecodeRA content: %+v", info)
	}
	if _, err := SplitOptions([]byte{1, 0, 0, 0, 0, 0, 0, 0}); err == nil {
		return fmt.Errorf("SplitOptions accepted a zero-length option")
	}
	return nil
}
