package refdec

import (
	"errors"
	"net/netip"
	"strings"
)

// NDP message types (RFC 4861).
const (
	NDPRouterSolicit  = 133
	NDPRouterAdvert   = 134
	NDPNeighborSolicit = 135
	NDPNeighborAdvert  = 136
	NDPRedirect        = 137
)

// NDP option types.
const (
	OptSLLA   = 1
	OptTLLA   = 2
	OptPrefix = 3
	OptMTU    = 5
	OptRoute  = 24
	OptRDNSS  = 25
	OptDNSSL  = 31
)

// NDPOpt is a raw option: Type, Len in 8-octet units (0 = derive from Body), Body = bytes after type+len.
type NDPOpt struct {
	Type byte
	Len  int // override of the length octet; -1 = computed
	Body []byte
}

// Bytes encodes the option (padding the body to a multiple of 8 minus 2 when Len is computed).
func (o NDPOpt) Bytes() []byte {
	body := o.Body
	l := o.Len
	if l < 0 {
		for (len(body)+2)%8 != 0 {
			body = append(body[:len(body):len(body)], 0)
		}
		l = (len(body) + 2) / 8
	}
	b := []byte{o.Type, byte(l)}
	return append(b, body...)
}

func OptLLA(t byte, m MAC) NDPOpt { return NDPOpt{Type: t, Len: -1, Body: append([]byte(nil), m[:]...)} }

func OptMTUv(mtu uint32) NDPOpt {
	b := make([]byte, 6)
	be.PutUint32(b[2:], mtu)
	return NDPOpt{Type: OptMTU, Len: -1, Body: b}
}

// PrefixInfo is RFC 4861 4.6.2.
type PrefixInfo struct {
	Len       uint8
	OnLink    bool
	Auto      bool
	Valid     uint32
	Preferred uint32
	Prefix    netip.Addr
}

func OptPrefixInfo(p PrefixInfo) NDPOpt {
	b := make([]byte, 30)
	b[0] = p.Len
	if p.OnLink {
		b[1] |= 0x80
	}
	if p.Auto {
		b[1] |= 0x40
	}
	be.PutUint32(b[2:], p.Valid)
	be.PutUint32(b[6:], p.Preferred)
	a := p.Prefix.As16()
	copy(b[14:], a[:])
	return NDPOpt{Type: OptPrefix, Len: -1, Body: b}
}

// RDNSS is RFC 8106 5.1.
type RDNSS struct {
	Lifetime uint32
	Servers  []netip.Addr
}

func OptRDNSSv(r RDNSS) NDPOpt {
	b := make([]byte, 6)
	be.PutUint32(b[2:], r.Lifetime)
	for _, s := range r.Servers {
		a := s.As16()
		b = append(b, a[:]...)
	}
	return NDPOpt{Type: OptRDNSS, Len: -1, Body: b}
}

// DNSSL is RFC 8106 5.2.
type DNSSL struct {
	Lifetime uint32
	Domains  []string
}

func OptDNSSLv(d DNSSL) NDPOpt {
	b := make([]byte, 6)
	be.PutUint32(b[2:], d.Lifetime)
	for _, dn := range d.Domains {
		for _, l := range strings.Split(dn, ".") {
			b = append(b, byte(len(l)))
			b = append(b, l...)
		}
		b = append(b, 0)
	}
	return NDPOpt{Type: OptDNSSL, Len: -1, Body: b}
}

// RouteInfo is RFC 4191 2.3.
type RouteInfo struct {
	Len      uint8
	Pref     uint8 // 2 bits
	Lifetime uint32
	Prefix   netip.Addr
	OptLen   int // 1, 2 or 3 (0 = minimal for Len)
}

func OptRouteInfo(r RouteInfo) NDPOpt {
	l := r.OptLen
	if l == 0 {
		switch {
		case r.Len == 0:
			l = 1
		case r.Len <= 64:
			l = 2
		default:
			l = 3
		}
	}
	b := make([]byte, l*8-2)
	b[0] = r.Len
	b[1] = r.Pref & 3 << 3
	be.PutUint32(b[2:], r.Lifetime)
	a := r.Prefix.As16()
	copy(b[6:], a[:])
	return NDPOpt{Type: OptRoute, Len: -1, Body: b}
}

// RA is a router advertisement body (RFC 4861 4.2).
type RA struct {
	HopLimit  uint8
	Flags     uint8 // M O H Prf(2) P
	Lifetime  uint16
	Reachable uint32
	Retrans   uint32
	Opts      []NDPOpt
}

// Body returns the ICMPv6 body after the 4-byte type/code/checksum header.
func (r RA) Body() []byte {
	b := make([]byte, 12)
	b[0], b[1] = r.HopLimit, r.Flags
	be.PutUint16(b[2:], r.Lifetime)
	be.PutUint32(b[4:], r.Reachable)
	be.PutUint32(b[8:], r.Retrans)
	for _, o := range r.Opts {
		b = append(b, o.Bytes()...)
	}
	return b
}

// NSBody / NABody / RSBody build the bodies of the other messages.
func NSBody(target netip.Addr, opts ...NDPOpt) []byte {
	b := make([]byte, 20)
	a := target.As16()
	copy(b[4:], a[:])
	for _, o := range opts {
		b = append(b, o.Bytes()...)
	}
	return b
}

func NABody(router, solicited, override bool, target netip.Addr, opts ...NDPOpt) []byte {
	b := make([]byte, 20)
	if router {
		b[0] |= 0x80
	}
	if solicited {
		b[0] |= 0x40
	}
	if override {
		b[0] |= 0x20
	}
	a := target.As16()
	copy(b[4:], a[:])
	for _, o := range opts {
		b = append(b, o.Bytes()...)
	}
	return b
}

func RSBody(opts ...NDPOpt) []byte {
	b := make([]byte, 4)
	for _, o := range opts {
		b = append(b, o.Bytes()...)
	}
	return b
}

func RedirectBody(target, dst netip.Addr, opts ...NDPOpt) []byte {
	b := make([]byte, 36)
	a := target.As16()
	copy(b[4:], a[:])
	a = dst.As16()
	copy(b[20:], a[:])
	for _, o := range opts {
		b = append(b, o.Bytes()...)
	}
	return b
}

var ErrNDPOpt = errors.New("refdec: ndp option malformed")

// SplitOptions walks an option area strictly (RFC 4861 4.6: length 0 is invalid, options must fill the area).
func SplitOptions(b []byte) ([]NDPOpt, error) {
	var out []NDPOpt
	for len(b) > 0 {
		if len(b) < 2 || b[1] == 0 || int(b[1])*8 > len(b) {
			return out, ErrNDPOpt
		}
		n := int(b[1]) * 8
		out = append(out, NDPOpt{Type: b[0], Len: int(b[1]), Body: b[2:n]})
		b = b[n:]
	}
	return out, nil
}

// RAInfo is the decoded content of an RA (last instance wins for single-valued options, as a host would keep).
type RAInfo struct {
	RA
	Managed, Other, HomeAgent, Proxy bool
	Pref                             uint8
	Prefixes                         []PrefixInfo
	MTU                              uint32
	HasMTU                           bool
	RDNSS                            *RDNSS
	DNSSL                            *DNSSL
	Route                            *RouteInfo
	SLLA                             *MAC
	Unknown                          []byte
}

// DecodeRA decodes an ICMPv6 RA message (starting at the ICMPv6 type octet).
func DecodeRA(icmp []byte) (*RAInfo, error) {
	if len(icmp) < 16 || icmp[0] != NDPRouterAdvert {
		return nil, ErrShort
	}
	r := &RAInfo{}
	r.HopLimit, r.Flags = icmp[4], icmp[5]
	r.Managed, r.Other, r.HomeAgent, r.Proxy = icmp[5]&0x80 != 0, icmp[5]&0x40 != 0, icmp[5]&0x20 != 0, icmp[5]&0x04 != 0
	r.Pref = icmp[5] >> 3 & 3
	r.Lifetime = be.Uint16(icmp[6:])
	r.Reachable = be.Uint32(icmp[8:])
	r.Retrans = be.Uint32(icmp[12:])
	opts, err := SplitOptions(icmp[16:])
	if err != nil {
		return nil, err
	}
	r.Opts = opts
	for _, o := range opts {
		b := o.Body
		switch o.Type {
		case OptSLLA:
			if o.Len == 1 {
				var m MAC
				copy(m[:], b[:6])
				r.SLLA = &m
			}
		case OptMTU:
			if o.Len == 1 {
				r.MTU, r.HasMTU = be.Uint32(b[2:]), true
			}
		case OptPrefix:
			if o.Len == 4 {
				r.Prefixes = append(r.Prefixes, PrefixInfo{Len: b[0], OnLink: b[1]&0x80 != 0, Auto: b[1]&0x40 != 0,
					Valid: be.Uint32(b[2:]), Preferred: be.Uint32(b[6:]), Prefix: netip.AddrFrom16([16]byte(b[14:30]))})
			}
		case OptRDNSS:
			if o.Len >= 3 && o.Len%2 == 1 {
				x := &RDNSS{Lifetime: be.Uint32(b[2:])}
				for i := 6; i+16 <= len(b); i += 16 {
					x.Servers = append(x.Servers, netip.AddrFrom16([16]byte(b[i:i+16])))
				}
				r.RDNSS = x
			}
		case OptDNSSL:
			if o.Len >= 2 {
				x := &DNSSL{Lifetime: be.Uint32(b[2:])}
				i := 6
				var labels []string
				ok := true
				for i < len(b) {
					l := int(b[i])
					if l == 0 {
						if len(labels) > 0 {
							x.Domains = append(x.Domains, strings.Join(labels, "."))
							labels = nil
						}
						i++
						continue
					}
					if l > 63 || i+1+l > len(b) {
						ok = false
						break
					}
					labels = append(labels, string(b[i+1:i+1+l]))
					i += 1 + l
				}
				if ok && len(labels) == 0 && len(x.Domains) > 0 {
					r.DNSSL = x
				}
			}
		case OptRoute:
			if o.Len >= 1 && o.Len <= 3 && b[1]>>3&3 != 2 { // RFC 4191 2.3: an option with the reserved preference (10) MUST be ignored
				x := &RouteInfo{Len: b[0], Pref: b[1] >> 3 & 3, Lifetime: be.Uint32(b[2:]), OptLen: o.Len}
				var a [16]byte
				copy(a[:], b[6:])
				x.Prefix = netip.AddrFrom16(a)
				r.Route = x
			}
		default:
			r.Unknown = append(r.Unknown, o.Type)
		}
	}
	return r, nil
}
