package refdec

import (
	"errors"
	"net/netip"
	"strings"
)

// DNS record types used here.
const (
	TypeA     = 1
	TypeNS    = 2
	TypeCNAME = 5
	TypePTR   = 12
	TypeMX    = 15
	TypeTXT   = 16
	TypeAAAA  = 28
	TypeSRV   = 33
	TypeOPT   = 41
	TypeNSEC  = 47
	TypeNB    = 0x20
	TypeNBSTAT = 0x21
	TypeANY   = 255
)

// DNSQ is a question.
type DNSQ struct {
	Name  string // dotted, no trailing dot ("" = root)
	Type  uint16
	Class uint16
}

// DNSRR is a resource record; RData is the raw wire RDATA, Target the decoded name for CNAME/PTR/NS/SRV.
type DNSRR struct {
	Name   string
	Type   uint16
	Class  uint16
	TTL    uint32
	RData  []byte
	Target string     // CNAME, PTR, NS, SRV target
	Addr   netip.Addr // A, AAAA
	// builder only
	RawName    []byte // if set, used verbatim instead of encoding Name
	RDLenDelta int    // added to RDLENGTH (malformed messages)
	TargetRaw  []byte // if set used verbatim as the rdata name
}

// DNSMsg is a DNS message.
type DNSMsg struct {
	ID    uint16
	Flags uint16
	Q     []DNSQ
	An    []DNSRR
	Ns    []DNSRR
	Ar    []DNSRR
	// builder overrides for counts (-1 = actual)
	QD, AN, NS, AR int
}

// NewDNSMsg returns a message with count overrides disabled.
func NewDNSMsg(id, flags uint16) *DNSMsg { return &DNSMsg{ID: id, Flags: flags, QD: -1, AN: -1, NS: -1, AR: -1} }

// DNSBuilder encodes messages with optional RFC 1035 4.1.4 compression.
type DNSBuilder struct {
	Compress bool
	buf      []byte
	offs     map[string]int // suffix -> offset
}

func splitName(n string) []string {
	n = strings.TrimSuffix(n, ".")
	if n == "" {
		return nil
	}
	return strings.Split(n, ".")
}

func (b *DNSBuilder) name(n string) {
	labels := splitName(n)
	for i := range labels {
		suffix := strings.Join(labels[i:], ".") // exact case: the builder input is the ground truth
		if b.Compress {
			if off, ok := b.offs[suffix]; ok && off < 0x3fff {
				b.buf = append(b.buf, 0xc0|byte(off>>8), byte(off))
				return
			}
			if len(b.buf) < 0x3fff {
				b.offs[suffix] = len(b.buf)
			}
		}
		b.buf = append(b.buf, byte(len(labels[i])))
		b.buf = append(b.buf, labels[i]...)
	}
	b.buf = append(b.buf, 0)
}

func (b *DNSBuilder) u16(v uint16) { b.buf = append(b.buf, byte(v>>8), byte(v)) }
func (b *DNSBuilder) u32(v uint32) { b.buf = append(b.buf, byte(v>>24), byte(v>>16), byte(v>>8), byte(v)) }

func (b *DNSBuilder) rr(r DNSRR) {
	if r.RawName != nil {
		b.buf = append(b.buf, r.RawName...)
	} else {
		b.name(r.Name)
	}
	b.u16(r.Type)
	b.u16(r.Class)
	b.u32(r.TTL)
	lenPos := len(b.buf)
	b.u16(0)
	start := len(b.buf)
	switch {
	case r.TargetRaw != nil:
		b.buf = append(b.buf, r.TargetRaw...)
	case r.RData != nil:
		b.buf = append(b.buf, r.RData...)
	case r.Type == TypeA && r.Addr.Is4():
		a := r.Addr.As4()
		b.buf = append(b.buf, a[:]...)
	case r.Type == TypeAAAA && r.Addr.IsValid():
		a := r.Addr.As16()
		b.buf = append(b.buf, a[:]...)
	case r.Type == TypeCNAME || r.Type == TypePTR || r.Type == TypeNS:
		b.name(r.Target)
	case r.Type == TypeSRV:
		b.u16(0)
		b.u16(0)
		b.u16(5353)
		// RFC 2782: no compression in SRV targets; mDNS (RFC 6762 18.14) allows it. Follow the builder flag.
		b.name(r.Target)
	}
	n := len(b.buf) - start + r.RDLenDelta
	b.buf[lenPos], b.buf[lenPos+1] = byte(n>>8), byte(n)
}

// Build encodes m.
func (b *DNSBuilder) Build(m *DNSMsg) []byte {
	b.buf = make([]byte, 12, 512)
	b.offs = map[string]int{}
	cnt := func(over, actual int) uint16 {
		if over >= 0 {
			return uint16(over)
		}
		return uint16(actual)
	}
	be.PutUint16(b.buf[0:], m.ID)
	be.PutUint16(b.buf[2:], m.Flags)
	be.PutUint16(b.buf[4:], cnt(m.QD, len(m.Q)))
	be.PutUint16(b.buf[6:], cnt(m.AN, len(m.An)))
	be.PutUint16(b.buf[8:], cnt(m.NS, len(m.Ns)))
	be.PutUint16(b.buf[10:], cnt(m.AR, len(m.Ar)))
	for _, q := range m.Q {
		b.name(q.Name)
		b.u16(q.Type)
		b.u16(q.Class)
	}
	for _, r := range m.An {
		b.rr(r)
	}
	for _, r := range m.Ns {
		b.rr(r)
	}
	for _, r := range m.Ar {
		b.rr(r)
	}
	return b.buf
}

var (
	ErrDNSShort   = errors.New("refdec: dns truncated")
	ErrDNSPointer = errors.New("refdec: dns bad compression pointer")
	ErrDNSLabel   = errors.New("refdec: dns bad label")
	ErrDNSName    = errors.New("refdec: dns name too long")
)

// ReadName decodes a possibly compressed name at off; returns the dotted name and the offset after it.
// Strict per RFC 1035: labels <= 63, name <= 255 octets, pointers only backwards to earlier data, no loops.
func ReadName(msg []byte, off int) (string, int, error) {
	var labels []string
	end := -1
	total := 0
	hops := 0
	pos := off
	for {
		if pos >= len(msg) {
			return "", 0, ErrDNSShort
		}
		c := int(msg[pos])
		switch c & 0xc0 {
		case 0x00:
			if c == 0 {
				if end < 0 {
					end = pos + 1
				}
				return strings.Join(labels, "."), end, nil
			}
			if pos+1+c > len(msg) {
				return "", 0, ErrDNSShort
			}
			total += c + 1
			if total > 254 {
				return "", 0, ErrDNSName
			}
			labels = append(labels, string(msg[pos+1:pos+1+c]))
			pos += 1 + c
		case 0xc0:
			if pos+2 > len(msg) {
				return "", 0, ErrDNSShort
			}
			ptr := (c&0x3f)<<8 | int(msg[pos+1])
			if end < 0 {
				end = pos + 2
			}
			if ptr >= pos { // must point to a prior occurrence
				return "", 0, ErrDNSPointer
			}
			hops++
			if hops > 127 {
				return "", 0, ErrDNSPointer
			}
			pos = ptr
		default:
			return "", 0, ErrDNSLabel
		}
	}
}

func parseRR(msg []byte, off int) (DNSRR, int, error) {
	var r DNSRR
	n, off, err := ReadName(msg, off)
	if err != nil {
		return r, 0, err
	}
	r.Name = n
	if off+10 > len(msg) {
		return r, 0, ErrDNSShort
	}
	r.Type, r.Class = be.Uint16(msg[off:]), be.Uint16(msg[off+2:])
	r.TTL = be.Uint32(msg[off+4:])
	rl := int(be.Uint16(msg[off+8:]))
	off += 10
	if off+rl > len(msg) {
		return r, 0, ErrDNSShort
	}
	r.RData = msg[off : off+rl]
	switch r.Type {
	case TypeA:
		if rl != 4 {
			return r, 0, ErrDNSShort
		}
		r.Addr = netip.AddrFrom4([4]byte(r.RData))
	case TypeAAAA:
		if rl != 16 {
			return r, 0, ErrDNSShort
		}
		r.Addr = netip.AddrFrom16([16]byte(r.RData))
	case TypeCNAME, TypePTR, TypeNS:
		t, e, err := ReadName(msg, off)
		if err != nil {
			return r, 0, err
		}
		if e != off+rl {
			return r, 0, ErrDNSShort
		}
		r.Target = t
	case TypeSRV:
		if rl < 7 {
			return r, 0, ErrDNSShort
		}
		t, _, err := ReadName(msg, off+6)
		if err != nil {
			return r, 0, err
		}
		r.Target = t
	}
	return r, off + rl, nil
}

// ParseDNS decodes a whole message strictly.
func ParseDNS(msg []byte) (*DNSMsg, error) {
	if len(msg) < 12 {
		return nil, ErrDNSShort
	}
	m := NewDNSMsg(be.Uint16(msg[0:]), be.Uint16(msg[2:]))
	qd, an, ns, ar := int(be.Uint16(msg[4:])), int(be.Uint16(msg[6:])), int(be.Uint16(msg[8:])), int(be.Uint16(msg[10:]))
	off := 12
	for i := 0; i < qd; i++ {
		n, o, err := ReadName(msg, off)
		if err != nil {
			return nil, err
		}
		if o+4 > len(msg) {
			return nil, ErrDNSShort
		}
		m.Q = append(m.Q, DNSQ{n, be.Uint16(msg[o:]), be.Uint16(msg[o+2:])})
		off = o + 4
	}
	for sec, cnt := range []int{an, ns, ar} {
		for i := 0; i < cnt; i++ {
			r, o, err := parseRR(msg, off)
			if err != nil {
				return nil, err
			}
			off = o
			switch sec {
			case 0:
				m.An = append(m.An, r)
			case 1:
				m.Ns = append(m.Ns, r)
			default:
				m.Ar = append(m.Ar, r)
			}
		}
	}
	return m, nil
}

// EncodeNBName is the RFC 1001 first-level encoding of a 16-byte NetBIOS name.
func EncodeNBName(name [16]byte) []byte {
	b := make([]byte, 0, 34)
	b = append(b, 32)
	for _, c := range name {
		b = append(b, 'A'+c>>4, 'A'+c&0x0f)
	}
	return append(b, 0)
}

// NBName pads a name with spaces to 15 characters plus the suffix byte.
func NBName(s string, suffix byte) (n [16]byte) {
	for i := range n {
		n[i] = ' '
	}
	copy(n[:15], s)
	n[15] = suffix
	return n
}

// NBNodeName is one entry of a node status response.
type NBNodeName struct {
	Name  [16]byte
	Flags uint16 // 0x8000 = group
}

// NBStatRData builds the RDATA of a NODE STATUS RESPONSE (RFC 1002 4.2.18): NUM_NAMES, entries, 46 bytes statistics.
func NBStatRData(names []NBNodeName, stats int) []byte {
	b := []byte{byte(len(names))}
	for _, n := range names {
		b = append(b, n.Name[:]...)
		b = append(b, byte(n.Flags>>8), byte(n.Flags))
	}
	return append(b, make([]byte, stats)...)
}
