// Package refdec is an independent reference codec written from the RFCs
// (894/802.1Q, 791, 8200, 768, 9293, 826, 792/4443, 4861/4191/8106, 2131/2132, 1035/6762/1002, 1071).
// It shares no code with github.com/irai/packet and does not import it.
package refdec

import (
	"encoding/binary"
	"errors"
	"net/netip"
)

var be = binary.BigEndian

// MAC is an Ethernet address.
type MAC [6]byte

func (m MAC) IsGroup() bool { return m[0]&1 == 1 }

// Sum1071 is the RFC 1071 internet checksum of b as a big-endian (network order) value:
// the one's complement of the one's complement sum of the 16-bit big-endian words, odd byte padded on the right.
func Sum1071(parts ...[]byte) uint16 {
	var sum uint64
	odd := false
	var carry byte
	for _, b := range parts {
		for _, x := range b {
			if !odd {
				carry = x
				odd = true
			} else {
				sum += uint64(carry)<<8 | uint64(x)
				odd = false
			}
		}
	}
	if odd {
		sum += uint64(carry) << 8
	}
	for sum>>16 != 0 {
		sum = sum&0xffff + sum>>16
	}
	return ^uint16(sum)
}

// Verify1071 is true when data (which includes its checksum field) sums to zero.
func Verify1071(parts ...[]byte) bool { return Sum1071(parts...) == 0 }

// PayloadID values as documented in the package (layer_frame.go constants / README).
const (
	PEther = 1 + iota
	P8023
	PARP
	PIP4
	PIP6
	PICMP4
	PICMP6
	PUDP
	PTCP
	PDHCP4
	PDHCP6
	PDNS
	PMDNS
	PSSL
	PNTP
	PSSDP
	PWSDP
	PNBNS
	PPlex
	PUbiquiti
	PLLMNR
	PIGMP
	PPause
	PRRCP
	PLLDP
	P80211r
	PIEEE1905
	PSonos
	P880a
)

// Decoded is what the reference decoder says about a frame.
type Decoded struct {
	Err            bool   // a mandatory header on the selected path is truncated or length-inconsistent
	ErrLayer       string // which one
	DontCare       bool   // error-vs-success is left open by the RFCs / the statement (DESIGN C02 guards)
	dontCareBefore bool
	PayloadID      int
	SrcMAC         MAC
	DstMAC         MAC
	EtherType      uint16
	SrcIP          netip.Addr
	DstIP          netip.Addr
	SrcPort        uint16
	DstPort        uint16
	OffIP4         int
	OffIP6         int
	OffUDP         int
	OffTCP         int
	OffPayload     []int // acceptable start offsets of Frame.Payload()
	End            int   // end of the decoded packet inside the frame: IPv4 total length / IPv6 40+payload length (bytes after it are link layer padding), else len(frame)
	Proto          int   // IP protocol / next header, -1 if none
}

func has(xs []int, v int) bool {
	for _, x := range xs {
		if x == v {
			return true
		}
	}
	return false
}

// PayloadOK tells whether off is an acceptable payload start.
func (d *Decoded) PayloadOK(off int) bool { return has(d.OffPayload, off) }

// EtherHeaderLen returns the header length including 802.1Q / 802.1ad tags (14, 18 or 22).
func EtherHeaderLen(etherType uint16) int {
	switch etherType {
	case 0x8100:
		return 18
	case 0x88a8:
		return 22
	}
	return 14
}

// UDPClass applies the documented port table (first match wins, in this order).
func UDPClass(src, dst uint16) int {
	switch {
	case src == 443 || dst == 443:
		return PSSL
	case dst == 67 || dst == 68:
		return PDHCP4
	case dst == 546 || dst == 547:
		return PDHCP6
	case src == 53 || dst == 53:
		return PDNS
	case src == 5353 || dst == 5353:
		return PMDNS
	case src == 5355 || dst == 5355:
		return PLLMNR
	case src == 123 || dst == 123:
		return PNTP
	case src == 1900 || dst == 1900:
		return PSSDP
	case src == 3702 || dst == 3702:
		return PWSDP
	case dst == 137 || dst == 138:
		return PNBNS
	case dst == 32412 || dst == 32414:
		return PPlex
	case src == 10001 || dst == 10001:
		return PUbiquiti
	}
	return PUDP
}

// Decode applies Ethernet II / 802.3 framing, the EtherType table, the IP protocol table and the UDP port table.
func Decode(f []byte) Decoded {
	d := Decoded{Proto: -1, End: len(f)}
	if len(f) < 14 {
		d.Err, d.ErrLayer = true, "ether"
		return d
	}
	copy(d.DstMAC[:], f[0:6])
	copy(d.SrcMAC[:], f[6:12])
	d.EtherType = be.Uint16(f[12:14])
	hl := EtherHeaderLen(d.EtherType)
	if len(f) < hl {
		d.Err, d.ErrLayer = true, "ether-vlan"
		return d
	}
	d.PayloadID = PEther
	d.OffPayload = []int{hl}
	if d.SrcMAC.IsGroup() {
		return d // only unicast sources are decoded further
	}
	if d.EtherType < 1536 {
		d.PayloadID = P8023
		if d.EtherType > 1500 {
			d.DontCare = true // 1501..1535 undefined
		}
		return d
	}
	p := f[hl:]
	switch d.EtherType {
	case 0x0800:
		d.PayloadID = PIP4
		if len(p) < 20 {
			d.Err, d.ErrLayer = true, "ip4"
			return d
		}
		ihl := int(p[0]&0x0f) * 4
		tot := int(be.Uint16(p[2:4]))
		if ihl < 20 || ihl > len(p) || tot < ihl || tot > len(p) {
			d.Err, d.ErrLayer = true, "ip4-len"
			return d
		}
		if p[0]>>4 != 4 {
			d.DontCare = true
		}
		d.OffIP4 = hl
		d.SrcIP = netip.AddrFrom4([4]byte(p[12:16]))
		d.DstIP = netip.AddrFrom4([4]byte(p[16:20]))
		d.Proto = int(p[9])
		// RFC 791: the datagram ends at the total length; what follows is link layer padding and not part of any upper layer
		d.End = hl + tot
		return decodeL4(f[:hl+tot], hl+ihl, d)
	case 0x86dd:
		d.PayloadID = PIP6
		if len(p) < 40 {
			d.Err, d.ErrLayer = true, "ip6"
			return d
		}
		pl := int(be.Uint16(p[4:6]))
		if 40+pl > len(p) {
			d.Err, d.ErrLayer = true, "ip6-len"
			return d
		}
		if 40+pl < len(p) {
			d.DontCare = true // trailing link-layer padding
		}
		d.OffIP6 = hl
		d.SrcIP = netip.AddrFrom16([16]byte(p[8:24]))
		d.DstIP = netip.AddrFrom16([16]byte(p[24:40]))
		d.Proto = int(p[6])
		// RFC 8200: the packet ends at 40 + payload length. Whether a frame with bytes after that is accepted is left open
		// (DontCare above), but when it is, those bytes are link layer padding and belong to no upper layer view.
		d.End = hl + 40 + pl
		return decodeL4(f[:hl+40+pl], hl+40, d)
	case 0x0806:
		d.PayloadID = PARP
		if len(p) < 28 {
			d.Err, d.ErrLayer = true, "arp"
			return d
		}
		if p[4] != 6 || p[5] != 4 {
			d.DontCare = true
		}
		return d
	case 0x8808:
		d.PayloadID = PPause
	case 0x8899:
		d.PayloadID = PRRCP
	case 0x88cc:
		d.PayloadID = PLLDP
	case 0x890d:
		d.PayloadID = P80211r
	case 0x893a:
		d.PayloadID = PIEEE1905
	case 0x6970:
		d.PayloadID = PSonos
	case 0x880a:
		d.PayloadID = P880a
	}
	return d
}

func decodeL4(f []byte, off int, d Decoded) Decoded {
	p := f[off:]
	d.dontCareBefore = d.DontCare
	// Frame.Payload() for a bare IP payload: after the IP header (the IP start is tolerated for an unknown protocol,
	// the documentation is silent there).
	d.OffPayload = []int{off}
	switch d.Proto {
	case 17:
		d.PayloadID = PUDP
		if len(p) < 8 {
			d.Err, d.ErrLayer = true, "udp"
			return d
		}
		if int(be.Uint16(p[4:6])) != len(p) {
			d.DontCare = true // UDP length field != bytes present: acceptance is left open
			// ... except for the first fragment of a fragmented IPv4 datagram (MF set, offset 0): the length field covers the
			// whole datagram, the frame carries what fits the MTU - a well-formed frame of its class like any other
			if d.OffIP4 != 0 && f[d.OffIP4+6]&0x20 != 0 && be.Uint16(f[d.OffIP4+6:])&0x1fff == 0 && int(be.Uint16(p[4:6])) > len(p) {
				d.DontCare = d.dontCareBefore
			}
		}
		d.OffUDP = off
		d.SrcPort = be.Uint16(p[0:2])
		d.DstPort = be.Uint16(p[2:4])
		d.PayloadID = UDPClass(d.SrcPort, d.DstPort)
		if d.PayloadID == PUDP {
			d.OffPayload = []int{off}
		} else {
			d.OffPayload = []int{off + 8}
		}
	case 6:
		d.PayloadID = PTCP
		if len(p) < 20 {
			d.Err, d.ErrLayer = true, "tcp"
			return d
		}
		do := int(p[12]>>4) * 4
		if do < 20 || do > len(p) {
			d.Err, d.ErrLayer = true, "tcp-off"
			return d
		}
		d.OffTCP = off
		d.SrcPort = be.Uint16(p[0:2])
		d.DstPort = be.Uint16(p[2:4])
		d.OffPayload = []int{off}
	case 1:
		d.PayloadID = PICMP4 // the table is keyed by protocol number only
		if len(p) < 8 {
			d.Err, d.ErrLayer = true, "icmp4"
			return d
		}
	case 58:
		d.PayloadID = PICMP6
		if len(p) < 8 {
			d.Err, d.ErrLayer = true, "icmp6"
			return d
		}
	case 2:
		d.PayloadID = PIGMP
	}
	return d
}

var ErrShort = errors.New("refdec: short")

// ---- builders -------------------------------------------------------------------------

// Ether builds an Ethernet II header followed by payload. tags: 0, 1 (802.1Q) or 2 (802.1ad + 802.1Q).
func Ether(dst, src MAC, etherType uint16, tags int, payload []byte) []byte {
	b := make([]byte, 0, 22+len(payload))
	b = append(b, dst[:]...)
	b = append(b, src[:]...)
	switch tags {
	case 1:
		b = append(b, 0x81, 0x00, 0x00, 0x01)
	case 2:
		b = append(b, 0x88, 0xa8, 0x00, 0x02, 0x81, 0x00, 0x00, 0x01)
	}
	b = append(b, byte(etherType>>8), byte(etherType))
	return append(b, payload...)
}

// IP4Hdr are the IPv4 header fields.
type IP4Hdr struct {
	TOS      uint8
	ID       uint16
	Flags    uint8  // 3 bits
	FragOff  uint16 // 13 bits
	TTL      uint8
	Proto    uint8
	Src, Dst netip.Addr
	Options  []byte // multiple of 4
	// overrides for malformed frames (0 = computed)
	IHLWords int
	TotalLen int
	Version  int
}

// IP4 builds an IPv4 packet with a correct header checksum.
func IP4(h IP4Hdr, payload []byte) []byte {
	ihl := 20 + len(h.Options)
	b := make([]byte, ihl, ihl+len(payload))
	ver := 4
	if h.Version != 0 {
		ver = h.Version
	}
	words := ihl / 4
	if h.IHLWords != 0 {
		words = h.IHLWords
	}
	b[0] = byte(ver<<4 | words&0x0f)
	b[1] = h.TOS
	tot := ihl + len(payload)
	if h.TotalLen != 0 {
		tot = h.TotalLen
	}
	be.PutUint16(b[2:], uint16(tot))
	be.PutUint16(b[4:], h.ID)
	be.PutUint16(b[6:], uint16(h.Flags&7)<<13|h.FragOff&0x1fff)
	b[8] = h.TTL
	b[9] = h.Proto
	s, d := h.Src.As4(), h.Dst.As4()
	copy(b[12:], s[:])
	copy(b[16:], d[:])
	copy(b[20:], h.Options)
	be.PutUint16(b[10:], Sum1071(b[:ihl]))
	return append(b, payload...)
}

// IP6Hdr are the IPv6 header fields.
type IP6Hdr struct {
	Class      uint8
	Flow       uint32
	Next       uint8
	Hop        uint8
	Src, Dst   netip.Addr
	PayloadLen int // override, -1 = computed
}

// IP6 builds an IPv6 packet.
func IP6(h IP6Hdr, payload []byte) []byte {
	b := make([]byte, 40, 40+len(payload))
	b[0] = 0x60 | h.Class>>4
	b[1] = h.Class<<4 | byte(h.Flow>>16)&0x0f
	b[2] = byte(h.Flow >> 8)
	b[3] = byte(h.Flow)
	pl := len(payload)
	if h.PayloadLen >= 0 {
		pl = h.PayloadLen
	}
	be.PutUint16(b[4:], uint16(pl))
	b[6] = h.Next
	b[7] = h.Hop
	s, d := h.Src.As16(), h.Dst.As16()
	copy(b[8:], s[:])
	copy(b[24:], d[:])
	return append(b, payload...)
}

// UDP builds a UDP datagram (checksum 0 = not computed, allowed over IPv4).
func UDP(src, dst uint16, payload []byte) []byte {
	b := make([]byte, 8, 8+len(payload))
	be.PutUint16(b[0:], src)
	be.PutUint16(b[2:], dst)
	be.PutUint16(b[4:], uint16(8+len(payload)))
	return append(b, payload...)
}

// TCPHdr are the TCP header fields.
type TCPHdr struct {
	Src, Dst uint16
	Seq, Ack uint32
	DataOff  int    // words; 0 = 5 + options
	Flags    uint16 // 12 bits: three reserved bits, NS, CWR ... FIN
	Window   uint16
	Csum     uint16
	Urgent   uint16
	Options  []byte
}

// TCP builds a TCP segment.
func TCP(h TCPHdr, payload []byte) []byte {
	hl := 20 + len(h.Options)
	b := make([]byte, hl, hl+len(payload))
	be.PutUint16(b[0:], h.Src)
	be.PutUint16(b[2:], h.Dst)
	be.PutUint32(b[4:], h.Seq)
	be.PutUint32(b[8:], h.Ack)
	do := hl / 4
	if h.DataOff != 0 {
		do = h.DataOff
	}
	b[12] = byte(do<<4) | byte(h.Flags>>8)&0x0f // NS and the three reserved bits (senders set them to zero, receivers ignore them)
	b[13] = byte(h.Flags)
	be.PutUint16(b[14:], h.Window)
	be.PutUint16(b[16:], h.Csum)
	be.PutUint16(b[18:], h.Urgent)
	copy(b[20:], h.Options)
	return append(b, payload...)
}

// ARPPkt are the ARP fields.
type ARPPkt struct {
	HType, PType uint16
	HLen, PLen   uint8
	Op           uint16
	SHA          MAC
	SPA          netip.Addr
	THA          MAC
	TPA          netip.Addr
}

// ARP builds an Ethernet/IPv4 ARP packet.
func ARP(a ARPPkt) []byte {
	b := make([]byte, 28)
	be.PutUint16(b[0:], a.HType)
	be.PutUint16(b[2:], a.PType)
	b[4], b[5] = a.HLen, a.PLen
	be.PutUint16(b[6:], a.Op)
	copy(b[8:], a.SHA[:])
	s := a.SPA.As4()
	copy(b[14:], s[:])
	copy(b[18:], a.THA[:])
	t := a.TPA.As4()
	copy(b[24:], t[:])
	return b
}

// ParseARP decodes an ARP packet (28 bytes, Ethernet/IPv4).
func ParseARP(b []byte) (a ARPPkt, err error) {
	if len(b) < 28 {
		return a, ErrShort
	}
	a.HType, a.PType = be.Uint16(b[0:]), be.Uint16(b[2:])
	a.HLen, a.PLen = b[4], b[5]
	a.Op = be.Uint16(b[6:])
	copy(a.SHA[:], b[8:14])
	a.SPA = netip.AddrFrom4([4]byte(b[14:18]))
	copy(a.THA[:], b[18:24])
	a.TPA = netip.AddrFrom4([4]byte(b[24:28]))
	return a, nil
}

// ICMP builds an ICMPv4 message with checksum: type, code, rest-of-header (4 bytes), body.
func ICMP4(typ, code uint8, rest [4]byte, body []byte) []byte {
	b := make([]byte, 8, 8+len(body))
	b[0], b[1] = typ, code
	copy(b[4:8], rest[:])
	b = append(b, body...)
	be.PutUint16(b[2:], Sum1071(b))
	return b
}

// PseudoHdr6 is the IPv6 pseudo header for upper-layer checksums (RFC 8200 8.1).
func PseudoHdr6(src, dst netip.Addr, upperLen int, next uint8) []byte {
	b := make([]byte, 40)
	s, d := src.As16(), dst.As16()
	copy(b[0:], s[:])
	copy(b[16:], d[:])
	be.PutUint32(b[32:], uint32(upperLen))
	b[39] = next
	return b
}

// ICMP6 builds an ICMPv6 message (type, code, body after the 4-byte header) with the pseudo-header checksum.
func ICMP6(src, dst netip.Addr, typ, code uint8, body []byte) []byte {
	b := make([]byte, 4, 4+len(body))
	b[0], b[1] = typ, code
	b = append(b, body...)
	be.PutUint16(b[2:], Sum1071(PseudoHdr6(src, dst, len(b), 58), b))
	return b
}

// Echo body helper: id, seq, data (for ICMPv4 use as rest+body; for ICMPv6 as body).
func EchoBody(id, seq uint16, data []byte) []byte {
	b := make([]byte, 4, 4+len(data))
	be.PutUint16(b[0:], id)
	be.PutUint16(b[2:], seq)
	return append(b, data...)
}

// MulticastMAC6 is the RFC 2464 mapping of an IPv6 multicast address.
func MulticastMAC6(ip netip.Addr) MAC {
	a := ip.As16()
	return MAC{0x33, 0x33, a[12], a[13], a[14], a[15]}
}

// MulticastMAC4 is the RFC 1112 mapping of an IPv4 multicast address.
func MulticastMAC4(ip netip.Addr) MAC {
	a := ip.As4()
	return MAC{0x01, 0x00, 0x5e, a[1] & 0x7f, a[2], a[3]}
}
