package refdec

import "testing"

func TestSelf(t *testing.T) {
	if err := SelfTest(); err != nil {
		t.Fatal(err)
	}
}
