package refdec

import (
	"errors"
	"net/netip"
)

// DHCP message types (RFC 2132 option 53).
const (
	DHCPDiscover = 1
	DHCPOffer    = 2
	DHCPRequest  = 3
	DHCPDecline  = 4
	DHCPAck      = 5
	DHCPNak      = 6
	DHCPRelease  = 7
	DHCPInform   = 8
)

// DHCPOpt is one option in wire order.
type DHCPOpt struct {
	Code byte
	Data []byte
}

// DHCPMsg is a BOOTP/DHCP message (RFC 2131 figure 1).
type DHCPMsg struct {
	Op, HType, HLen, Hops byte
	XID                   [4]byte
	Secs, Flags           uint16
	CI, YI, SI, GI        netip.Addr
	CHAddr                [16]byte
	SName                 [64]byte
	File                  [128]byte
	Options               []DHCPOpt
	NoEnd                 bool // (builder) omit the End option
	NoPad                 bool // (builder) do not pad to 300 bytes
	BadCookie             bool
	Trailer               int // bytes after the End option (parser)
	HasEnd                bool
}

func put4(b []byte, a netip.Addr) {
	if a.Is4() {
		x := a.As4()
		copy(b, x[:])
	}
}

// Bytes encodes the message.
func (m DHCPMsg) Bytes() []byte {
	b := make([]byte, 240, 576)
	b[0], b[1], b[2], b[3] = m.Op, m.HType, m.HLen, m.Hops
	copy(b[4:8], m.XID[:])
	be.PutUint16(b[8:], m.Secs)
	be.PutUint16(b[10:], m.Flags)
	put4(b[12:], m.CI)
	put4(b[16:], m.YI)
	put4(b[20:], m.SI)
	put4(b[24:], m.GI)
	copy(b[28:44], m.CHAddr[:])
	copy(b[44:108], m.SName[:])
	copy(b[108:236], m.File[:])
	copy(b[236:240], []byte{99, 130, 83, 99})
	if m.BadCookie {
		b[236] = 0
	}
	for _, o := range m.Options {
		if o.Code == 0 {
			b = append(b, 0)
			continue
		}
		b = append(b, o.Code, byte(len(o.Data)))
		b = append(b, o.Data...)
	}
	if !m.NoEnd {
		b = append(b, 255)
	}
	for !m.NoPad && len(b) < 300 {
		b = append(b, 0)
	}
	return b
}

var (
	ErrDHCPShort  = errors.New("refdec: dhcp shorter than 240 bytes")
	ErrDHCPCookie = errors.New("refdec: dhcp bad magic cookie")
	ErrDHCPOption = errors.New("refdec: dhcp option overruns the message")
	ErrDHCPNoEnd  = errors.New("refdec: dhcp options not terminated by End")
)

// ParseDHCP decodes strictly: cookie, every option inside the message, End present.
func ParseDHCP(b []byte) (m DHCPMsg, err error) {
	if len(b) < 240 {
		return m, ErrDHCPShort
	}
	m.Op, m.HType, m.HLen, m.Hops = b[0], b[1], b[2], b[3]
	copy(m.XID[:], b[4:8])
	m.Secs, m.Flags = be.Uint16(b[8:]), be.Uint16(b[10:])
	m.CI = netip.AddrFrom4([4]byte(b[12:16]))
	m.YI = netip.AddrFrom4([4]byte(b[16:20]))
	m.SI = netip.AddrFrom4([4]byte(b[20:24]))
	m.GI = netip.AddrFrom4([4]byte(b[24:28]))
	copy(m.CHAddr[:], b[28:44])
	copy(m.SName[:], b[44:108])
	copy(m.File[:], b[108:236])
	if string(b[236:240]) != string([]byte{99, 130, 83, 99}) {
		return m, ErrDHCPCookie
	}
	o := b[240:]
	for len(o) > 0 {
		if o[0] == 0 {
			o = o[1:]
			continue
		}
		if o[0] == 255 {
			m.HasEnd = true
			m.Trailer = len(o) - 1
			return m, nil
		}
		if len(o) < 2 || len(o) < 2+int(o[1]) {
			return m, ErrDHCPOption
		}
		m.Options = append(m.Options, DHCPOpt{o[0], append([]byte(nil), o[2:2+int(o[1])]...)})
		o = o[2+int(o[1]):]
	}
	return m, ErrDHCPNoEnd
}

// Opt returns the first option with the code.
func (m *DHCPMsg) Opt(code byte) ([]byte, bool) {
	for _, o := range m.Options {
		if o.Code == code {
			return o.Data, true
		}
	}
	return nil, false
}

// OptIndex returns the position of the option in wire order, -1 if absent.
func (m *DHCPMsg) OptIndex(code byte) int {
	for i, o := range m.Options {
		if o.Code == code {
			return i
		}
	}
	return -1
}

// Type returns option 53 (0 if missing or malformed).
func (m *DHCPMsg) Type() int {
	if d, ok := m.Opt(53); ok && len(d) == 1 {
		return int(d[0])
	}
	return 0
}

// OptIP4 returns a 4-byte option as an address.
func (m *DHCPMsg) OptIP4(code byte) (netip.Addr, bool) {
	if d, ok := m.Opt(code); ok && len(d) == 4 {
		return netip.AddrFrom4([4]byte(d)), true
	}
	return netip.Addr{}, false
}

// CHMAC returns the first six bytes of chaddr.
func (m *DHCPMsg) CHMAC() MAC {
	var x MAC
	copy(x[:], m.CHAddr[:6])
	return x
}

// ClientID is option 61 or chaddr[:hlen] when absent (RFC 2131 4.2).
func (m *DHCPMsg) ClientID() string {
	if d, ok := m.Opt(61); ok && len(d) > 0 { // RFC 2131 4.2: without a (usable) client identifier the client is known by chaddr
		return string(d)
	}
	return string(m.CHAddr[:6])
}
