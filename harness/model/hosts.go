// Package model holds the executable reference models stepped next to the real code (DESIGN.md appendix A).
// It does not import github.com/irai/packet.
package model

import (
	"fmt"
	"net/netip"
	"sort"
	"time"
)

// MAC is a hardware address as a string key.
type MAC string

// Host is the model of one tracked address.
type Host struct {
	MAC      MAC
	IP       netip.Addr
	Online   bool
	LastSeen time.Time
	Pending  bool // a notification is due
	Names    map[string]string // learned name per source (dhcp4, mdns, ssdp, llmnr, nbns)
}

// MACRec is the model of one MAC entry.
type MACRec struct {
	IP4      netip.Addr // current IPv4 ("0.0.0.0" initially)
	Offer    netip.Addr // DHCP offer (invalid if none)
	Captured bool
	IsRouter bool
	Hosts    []netip.Addr // in creation order
}

// Emission is an expected notification.
type Emission struct {
	IP     netip.Addr
	MAC    MAC
	Online bool
	Cause  string
}

func (e Emission) String() string { return fmt.Sprintf("{%v %x online=%v (%s)}", e.IP, string(e.MAC), e.Online, e.Cause) }

// Group is a set of emissions whose mutual order is free.
type Group []Emission

// Hosts is the host-tracking model.
type Hosts struct {
	OwnMAC, RouterMAC MAC
	OwnIP, RouterIP   netip.Addr
	LAN               netip.Prefix
	Offline, Purge    time.Duration
	T0                time.Time
	Now               time.Time
	H                 map[netip.Addr]*Host
	M                 map[MAC]*MACRec
	lastTick          int64 // number of ticks executed
	// observations
	Rebinds, IPChanges, AgeOuts, Deletes, Ticks int
}

// NewHosts mirrors NewSession: own host (never expires) and router host.
func NewHosts(own, router MAC, ownIP, routerIP netip.Addr, lan netip.Prefix, offline, purge time.Duration, t0 time.Time) *Hosts {
	m := &Hosts{OwnMAC: own, RouterMAC: router, OwnIP: ownIP, RouterIP: routerIP, LAN: lan, Offline: offline, Purge: purge, T0: t0, Now: t0,
		H: map[netip.Addr]*Host{}, M: map[MAC]*MACRec{}}
	h := m.findOrCreate(own, ownIP)
	h.LastSeen = t0.Add(365 * 24 * time.Hour)
	h.Online = true
	m.M[own].IP4 = ownIP
	h = m.findOrCreate(router, routerIP)
	h.Online = true
	m.M[router].IP4 = routerIP
	m.M[router].IsRouter = true
	return m
}

func (m *Hosts) mac(a MAC) *MACRec {
	r := m.M[a]
	if r == nil {
		r = &MACRec{IP4: netip.AddrFrom4([4]byte{})}
		m.M[a] = r
	}
	return r
}

func (m *Hosts) deleteHost(ip netip.Addr) {
	h := m.H[ip]
	if h == nil {
		return
	}
	r := m.M[h.MAC]
	for i, x := range r.Hosts {
		if x == ip {
			r.Hosts = append(r.Hosts[:i:i], r.Hosts[i+1:]...)
			break
		}
	}
	delete(m.H, ip)
	if len(r.Hosts) == 0 {
		delete(m.M, h.MAC)
	}
	m.Deletes++
}

// findOrCreate: find, re-bind (address claimed by another MAC) or create; refreshes LastSeen.
func (m *Hosts) findOrCreate(a MAC, ip netip.Addr) *Host {
	if h := m.H[ip]; h != nil {
		if h.MAC == a {
			h.LastSeen = m.Now
			return h
		}
		m.deleteHost(ip)
		m.Rebinds++
	}
	r := m.mac(a)
	h := &Host{MAC: a, IP: ip, Online: false, Pending: true, LastSeen: m.Now}
	m.H[ip] = h
	r.Hosts = append(r.Hosts, ip)
	return h
}

func (m *Hosts) onlineTransition(h *Host) {
	if h.Online {
		return
	}
	h.Online = true
	h.Pending = true
	if h.IP.Is4() {
		r := m.M[h.MAC]
		if r.IP4 != h.IP {
			r.IP4 = h.IP
			for _, ip := range r.Hosts {
				v := m.H[ip]
				if v.IP.Is4() && v.IP != h.IP && v.Online {
					v.Online = false
					v.Pending = true
					m.IPChanges++
				}
			}
		}
	}
}

func isUnicastMAC(a MAC) bool { return len(a) == 6 && a[0]&1 == 0 }

// Creates tells whether a frame with this source creates / refreshes a host (the discovery rule of the statement).
func (m *Hosts) Creates(kind string, src MAC, ip netip.Addr) bool {
	if !isUnicastMAC(src) || src == m.OwnMAC || !ip.IsValid() {
		return false
	}
	switch kind {
	case "ip4", "arp":
		return ip.Is4() && m.LAN.Contains(ip)
	case "ip6":
		if !ip.Is6() || ip.Is4In6() {
			return false
		}
		if ip.IsLinkLocalUnicast() {
			return true
		}
		return ip.IsGlobalUnicast() && src != m.RouterMAC
	}
	return false
}

// Frame models Parse + Notify of one frame. dhcp tells that the frame is a DHCPv4 frame (payload id DHCP4).
func (m *Hosts) Frame(kind string, src MAC, ip netip.Addr, dhcp bool) []Group {
	var h *Host
	flag := false
	if m.Creates(kind, src, ip) {
		h = m.findOrCreate(src, ip)
		if !h.Online {
			m.onlineTransition(h)
			flag = true
		}
	}
	if h == nil {
		if !dhcp {
			return nil
		}
		r := m.M[src]
		if r == nil || !r.Offer.IsValid() {
			return nil
		}
		h = m.H[r.Offer]
		if h == nil {
			return nil
		}
		flag = true
	}
	return m.notify(h, flag)
}

// FrameNamed models a frame that a naming handler (mDNS, NBNS, ...) looks at between Parse and Notify: the host the frame
// belongs to gets a name update before the notification pass.
func (m *Hosts) FrameNamed(kind string, src MAC, ip netip.Addr, source, name string) []Group {
	if !m.Creates(kind, src, ip) {
		return nil
	}
	h := m.findOrCreate(src, ip)
	flag := false
	if !h.Online {
		m.onlineTransition(h)
		flag = true
	}
	m.UpdateName(ip, source, name)
	return m.notify(h, flag)
}

func (m *Hosts) notify(h *Host, flag bool) []Group {
	if !h.Pending {
		return nil
	}
	var out []Group
	if flag && h.IP.Is4() {
		var g Group
		for _, ip := range m.M[h.MAC].Hosts {
			v := m.H[ip]
			if !v.Online && v.Pending {
				v.Pending = false
				g = append(g, Emission{IP: v.IP, MAC: v.MAC, Online: false, Cause: "superseded"})
			}
		}
		if len(g) > 0 {
			out = append(out, g)
		}
	}
	h.Pending = false
	cause := "online"
	if !h.Online {
		cause = "pending-offline-host"
	}
	out = append(out, Group{{IP: h.IP, MAC: h.MAC, Online: h.Online, Cause: cause}})
	return out
}

// DHCPUpdate models Session.DHCPv4Update (ip valid and non-zero).
func (m *Hosts) DHCPUpdate(a MAC, ip netip.Addr, name string) {
	h := m.findOrCreate(a, ip)
	m.UpdateName(ip, "dhcp4", name)
	m.M[a].Offer = ip
	if !h.Online {
		m.onlineTransition(h)
	}
}

// SetOffer models SetDHCPv4IPOffer.
func (m *Hosts) SetOffer(a MAC, ip netip.Addr) { m.mac(a).Offer = ip }

// Capture / Release model the capture flag (Capture creates the MAC entry).
func (m *Hosts) Capture(a MAC) bool {
	r := m.mac(a)
	if r.Captured {
		return true
	}
	if r.IsRouter {
		return false
	}
	r.Captured = true
	return true
}

func (m *Hosts) Release(a MAC) {
	if r := m.M[a]; r != nil {
		r.Captured = false
	}
}

// UpdateName merges a learned name: a non-empty name different from the known one changes it and makes a notification pending.
func (m *Hosts) UpdateName(ip netip.Addr, source, name string) bool {
	h := m.H[ip]
	if h == nil || name == "" {
		return false
	}
	if h.Names == nil {
		h.Names = map[string]string{}
	}
	if h.Names[source] == name {
		return false
	}
	h.Names[source] = name
	h.Pending = true
	return true
}

// Advance moves the clock to t and runs every minute tick in (Now, t].
func (m *Hosts) Advance(t time.Time) []Group {
	var out []Group
	for {
		next := m.T0.Add(time.Duration(m.lastTick+1) * time.Minute)
		if next.After(t) {
			break
		}
		m.lastTick++
		m.Now = next
		if g := m.tick(next); len(g) > 0 {
			out = append(out, g)
		}
	}
	m.Now = t
	return out
}

// TickAt runs one ageing pass with the clock value t without moving the model's clock: a pass that runs late (the process was
// stopped for a while) sees every deadline at once.
func (m *Hosts) TickAt(t time.Time) Group { return m.tick(t) }

func (m *Hosts) tick(t time.Time) Group {
	m.Ticks++
	del := t.Add(-m.Purge)
	off := t.Add(-m.Offline)
	var g Group
	var purge []netip.Addr
	ips := make([]netip.Addr, 0, len(m.H))
	for ip := range m.H {
		ips = append(ips, ip)
	}
	sort.Slice(ips, func(i, j int) bool { return ips[i].Less(ips[j]) })
	for _, ip := range ips {
		h := m.H[ip]
		if !h.Online && h.LastSeen.Before(del) {
			purge = append(purge, ip)
			continue
		}
		if h.Online && h.LastSeen.Before(off) {
			h.Online = false
			h.Pending = false
			g = append(g, Emission{IP: h.IP, MAC: h.MAC, Online: false, Cause: "aged-out"})
			m.AgeOuts++
		}
	}
	for _, ip := range purge {
		m.deleteHost(ip)
	}
	return g
}

// Triple is one tracked (MAC, IP, online).
type Triple struct {
	MAC    MAC
	IP     netip.Addr
	Online bool
}

// Triples returns the tracked set, sorted.
func (m *Hosts) Triples() []Triple {
	out := make([]Triple, 0, len(m.H))
	for _, h := range m.H {
		out = append(out, Triple{h.MAC, h.IP, h.Online})
	}
	SortTriples(out)
	return out
}

// SortTriples sorts by IP then MAC.
func SortTriples(t []Triple) {
	sort.Slice(t, func(i, j int) bool {
		if t[i].IP != t[j].IP {
			return t[i].IP.Less(t[j].IP)
		}
		return t[i].MAC < t[j].MAC
	})
}

// StateKey is a canonical description of the model state (for distinct-state counting).
func (m *Hosts) StateKey() string {
	s := ""
	for _, t := range m.Triples() {
		h := m.H[t.IP]
		s += fmt.Sprintf("%x/%v/%v/%v;", string(t.MAC), t.IP, t.Online, h.Pending)
	}
	macs := make([]string, 0, len(m.M))
	for a, r := range m.M {
		macs = append(macs, fmt.Sprintf("%x:%v:%v:%v", string(a), r.IP4, r.Offer, r.Captured))
	}
	sort.Strings(macs)
	return s + fmt.Sprint(macs)
}
