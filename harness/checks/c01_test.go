package checks

import (
	"fmt"
	"math/rand"
	"net"
	"net/netip"
	"reflect"
	"sort"
	"strings"
	"unsafe"

	"github.com/irai/packet"

	"verif/harness/gen"
	"verif/harness/mon"
	"verif/harness/refdec"
	"verif/harness/wk"
)

func init() { register("C01", runC01) }

// arena places an input inside a larger buffer with guard zones so that "outside [base,base+len)" is observable.
type arena struct {
	big  []byte
	base int
	n    int
}

const guard = 64

// newArena copies in at offset guard of a buffer with `spare` bytes after it filled by fill().
func newArena(in []byte, spare []byte) arena {
	big := make([]byte, guard+len(in)+len(spare)+guard)
	for i := range big {
		big[i] = 0xa5
	}
	copy(big[guard:], in)
	copy(big[guard+len(in):], spare)
	return arena{big: big, base: guard, n: len(in)}
}

// view returns the input slice with capacity reaching to the end of the spare area.
func (a arena) view() []byte { return a.big[a.base : a.base+a.n : len(a.big)-guard] }

// where classifies a result slice relative to the input: "inside", "foreign" (other memory), "empty", or "outside" (touches the
// arena but is not within [base, base+n)).
func (a arena) where(p unsafe.Pointer, l int) string {
	if l == 0 || p == nil {
		return "empty"
	}
	lo := uintptr(unsafe.Pointer(unsafe.SliceData(a.big)))
	hi := lo + uintptr(len(a.big))
	s := uintptr(p)
	e := s + uintptr(l)
	if e <= lo || s >= hi {
		return "foreign"
	}
	in0 := lo + uintptr(a.base)
	in1 := in0 + uintptr(a.n)
	if s >= in0 && e <= in1 {
		return "inside"
	}
	return "outside"
}

func (a arena) off(p unsafe.Pointer) int {
	if p == nil {
		return -1
	}
	return int(uintptr(p) - uintptr(unsafe.Pointer(unsafe.SliceData(a.big))) - uintptr(a.base))
}

// parseSummary is everything observable about a Parse result; two parses of equal bytes must give equal summaries.
type parseSummary struct {
	ErrNil                                 bool
	PayloadID                              int
	SrcMAC, DstMAC                         string
	SrcIP, DstIP                           netip.Addr
	SrcPort, DstPort                       uint16
	HasIP                                  bool
	OffIP4, OffIP6, OffUDP, OffTCP, OffPay int
	LenIP4, LenIP6, LenUDP, LenTCP, LenPay int
	HasHost                                bool
	Panic                                  string
}

func (s parseSummary) diff(o parseSummary) string {
	va, vb := reflect.ValueOf(s), reflect.ValueOf(o)
	for i := 0; i < va.NumField(); i++ {
		if !reflect.DeepEqual(va.Field(i).Interface(), vb.Field(i).Interface()) {
			return fmt.Sprintf("%s: %v vs %v", va.Type().Field(i).Name, va.Field(i).Interface(), vb.Field(i).Interface())
		}
	}
	return ""
}

// parseObserve runs Parse and every Frame accessor on the arena's view.
// It reports panics / out-of-input slices as violations of prop and returns the summary.
func parseObserve(c *wk.Ctx, prop string, s *packet.Session, a arena, cs func() any) (sum parseSummary, frame packet.Frame, err error) {
	in := a.view()
	pi := c.Guard(prop, cs, func() { frame, err = s.Parse(in) })
	if pi != nil {
		sum.Panic = pi.Key()
		return sum, frame, err
	}
	sum.ErrNil = err == nil
	if err != nil {
		return sum, frame, err
	}
	sum.PayloadID = int(frame.PayloadID)
	chk := func(name string, b []byte) (int, int) {
		if b == nil {
			return -1, 0
		}
		if len(b) == 0 {
			return -2, 0
		}
		p := unsafe.Pointer(unsafe.SliceData(b))
		if w := a.where(p, len(b)); w == "outside" {
			c.ViolP(prop, "oob:Frame."+name, fmt.Sprintf("Frame.%s() returned %d bytes at input offset %d, input length %d", name, len(b), a.off(p), a.n), cs())
		}
		return a.off(p), len(b)
	}
	pi = c.Guard(prop, cs, func() {
		sum.SrcMAC, sum.DstMAC = string(frame.SrcAddr.MAC), string(frame.DstAddr.MAC)
		chk("SrcAddr.MAC", frame.SrcAddr.MAC)
		chk("DstAddr.MAC", frame.DstAddr.MAC)
		sum.SrcIP, sum.DstIP = frame.SrcAddr.IP, frame.DstAddr.IP
		sum.SrcPort, sum.DstPort = frame.SrcAddr.Port, frame.DstAddr.Port
		sum.HasIP = frame.HasIP()
		chk("Ether", frame.Ether())
		sum.OffIP4, sum.LenIP4 = chk("IP4", frame.IP4())
		sum.OffIP6, sum.LenIP6 = chk("IP6", frame.IP6())
		sum.OffUDP, sum.LenUDP = chk("UDP", frame.UDP())
		sum.OffTCP, sum.LenTCP = chk("TCP", frame.TCP())
		sum.OffPay, sum.LenPay = chk("Payload", frame.Payload())
		sum.HasHost = frame.Host != nil
	})
	if pi != nil {
		sum.Panic = "accessor:" + pi.Key()
	}
	return sum, frame, err
}

func lenBucket(n int) string {
	switch {
	case n < 14:
		return "<14"
	case n < 34:
		return "<34"
	case n < 60:
		return "<60"
	case n < 300:
		return "<300"
	case n <= 1522:
		return "<=1522"
	}
	return ">1522"
}

func errClass(err error) string {
	if err == nil {
		return "ok"
	}
	s := err.Error()
	if i := strings.IndexAny(s, " :"); i > 0 {
		return "err:" + s[:i]
	}
	return "err"
}

type c01State struct {
	c        *wk.Ctx
	env      gen.Env
	sExact   *packet.Session
	sSpare   *packet.Session
	nInSess  int
	idx      int64
	sessions int64
}

func (st *c01State) fresh() {
	nic := mon.DefaultNIC()
	var err error
	old1, old2 := st.sExact, st.sSpare
	if st.sExact, err = mon.NewSession(mon.NewRecorder(1), nic, 0, 0, 0); err != nil {
		panic("HARNESS BUG: " + err.Error())
	}
	if st.sSpare, err = mon.NewSession(mon.NewRecorder(1), nic, 0, 0, 0); err != nil {
		panic("HARNESS BUG: " + err.Error())
	}
	st.nInSess = 0
	st.sessions++
	if old1 != nil {
		go old1.Close()
		go old2.Close()
	}
}

func hostSet(s *packet.Session) []string {
	var out []string
	for _, h := range s.GetHosts() {
		out = append(out, fmt.Sprintf("%s %s %v", h.MACEntry.MAC, h.Addr.IP, h.Online))
	}
	sort.Strings(out)
	return out
}

// one runs one input through both capacity variants and the accessor checks.
func (st *c01State) one(in []byte, rest []byte, kind, mut string) {
	c := st.c
	st.idx++
	if !c.Mine(st.idx) {
		return
	}
	if st.nInSess >= 2000 || st.sExact == nil {
		if st.sExact != nil {
			a, b := hostSet(st.sExact), hostSet(st.sSpare)
			if !reflect.DeepEqual(a, b) {
				c.Viol("capdep:hosttable", fmt.Sprintf("host tables differ after identical byte sequences:\n%v\n%v", a, b), nil)
			}
		}
		st.fresh()
	}
	st.nInSess++
	c.Begin(st.idx, "Parse", in)
	c.Eval()
	cs := func() any {
		return map[string]any{"index": st.idx, "input_hex": wk.Hex(in), "kind": kind, "mutation": mut, "len": len(in)}
	}
	// (1) exact capacity: any reslice past len panics
	var s1 parseSummary
	{
		b := append(make([]byte, 0, len(in)), in...)
		s1, _, _ = parseObserveExact(c, st.sExact, b[:len(in):len(in)], cs)
	}
	// (2) same bytes at the front of a larger buffer with adversarial spare capacity
	spare := make([]byte, 96)
	switch st.idx % 3 {
	case 0:
		for i := range spare {
			spare[i] = 0xff
		}
	case 1:
		rr := rand.New(rand.NewSource(st.idx))
		rr.Read(spare)
	default: // plausible continuation of the truncated packet
		n := copy(spare, rest)
		for i := n; i < len(spare); i++ {
			spare[i] = byte(i)
		}
	}
	a := newArena(in, spare)
	s2, frame, err := parseObserve(c, "C01", st.sSpare, a, cs)
	if s1.Panic == "" && s2.Panic == "" {
		if d := s1.diff(s2); d != "" {
			c.Viol("capdep:"+strings.SplitN(d, ":", 2)[0], "Parse result depends on bytes beyond len (exact-capacity vs spare-capacity run): "+d, cs())
		}
	}
	if err == nil && s2.Panic == "" {
		above := frame.PayloadID != packet.PayloadEther && frame.PayloadID != 0
		if above {
			c.Class(fmt.Sprintf("%s|%s|%s|%s", frame.PayloadID, "ok", lenBucket(len(in)), mut))
		}
		if c.WantSample() && above && len(in) < 80 && mut != "none" {
			c.Sample(map[string]any{"input_hex": wk.Hex(in), "kind": kind, "mutation": mut, "payloadID": frame.PayloadID.String(), "err": nil})
		}
	} else if err != nil {
		c.Obs("parse_errors", 1)
		c.Class(fmt.Sprintf("%s|%s|%s|%s", frame.PayloadID, errClass(err), lenBucket(len(in)), mut))
	}
}

// parseObserveExact is parseObserve for a cap==len slice (no arena arithmetic: every result must lie inside b).
func parseObserveExact(c *wk.Ctx, s *packet.Session, b []byte, cs func() any) (parseSummary, packet.Frame, error) {
	a := arena{big: b, base: 0, n: len(b)}
	var sum parseSummary
	var frame packet.Frame
	var err error
	pi := c.Guard("C01", cs, func() { frame, err = s.Parse(b) })
	if pi != nil {
		sum.Panic = pi.Key()
		return sum, frame, err
	}
	sum.ErrNil = err == nil
	if err != nil {
		return sum, frame, err
	}
	sum.PayloadID = int(frame.PayloadID)
	off := func(x []byte) (int, int) {
		if x == nil {
			return -1, 0
		}
		if len(x) == 0 {
			return -2, 0 // an empty slice carries no position (Go may normalise its pointer)
		}
		return a.off(unsafe.Pointer(unsafe.SliceData(x))), len(x)
	}
	pi = c.Guard("C01", cs, func() {
		sum.SrcMAC, sum.DstMAC = string(frame.SrcAddr.MAC), string(frame.DstAddr.MAC)
		sum.SrcIP, sum.DstIP = frame.SrcAddr.IP, frame.DstAddr.IP
		sum.SrcPort, sum.DstPort = frame.SrcAddr.Port, frame.DstAddr.Port
		sum.HasIP = frame.HasIP()
		sum.OffIP4, sum.LenIP4 = off(frame.IP4())
		sum.OffIP6, sum.LenIP6 = off(frame.IP6())
		sum.OffUDP, sum.LenUDP = off(frame.UDP())
		sum.OffTCP, sum.LenTCP = off(frame.TCP())
		sum.OffPay, sum.LenPay = off(frame.Payload())
		sum.HasHost = frame.Host != nil
	})
	if pi != nil {
		sum.Panic = "accessor:" + pi.Key()
	}
	return sum, frame, err
}

func runC01(c *wk.Ctx) {
	if c.Shard == 0 {
		if err := refdec.SelfTest(); err != nil {
			fmt.Println("SELFTEST FAILED:", err)
			panic("SELFTEST FAILED: " + err.Error())
		}
	}
	st := &c01State{c: c, env: gen.DefaultEnv()}
	// S1: structural frames x mutations
	n1 := c.N(250_000, 12_000_000)
	for i := int64(0); i < n1; i++ {
		r := c.Rand("c01s1", i)
		f := gen.Structural(r, st.env)
		mut := gen.Mutations[i%int64(len(gen.Mutations))]
		g := gen.Mutate(r, f, mut)
		var rest []byte
		if mut == "truncate" && len(g.B) < len(f.B) {
			rest = f.B[len(g.B):]
		}
		st.one(g.B, rest, f.Kind, mut)
	}
	st.idx = 1_000_000_000
	// S2: truncation at every offset
	n2 := c.N(1500, 60_000)
	for i := int64(0); i < n2; i++ {
		r := c.Rand("c01s2", i)
		f := gen.Structural(r, st.env)
		if len(f.B) > 400 {
			f.B = f.B[:400]
		}
		for cut := 0; cut <= len(f.B); cut++ {
			st.one(f.B[:cut], f.B[cut:], f.Kind, "truncate@every")
		}
	}
	st.idx = 2_000_000_000
	// S3: random and boundary-patterned strings of every length, steered into the deeper layers
	n3 := c.N(150_000, 8_000_000)
	ets := []uint16{0x0800, 0x86dd, 0x0806, 0x8100, 0x88a8, 0x8808, 0x8899, 0x88cc, 0x890d, 0x893a, 0x6970, 0x880a, 0x0005, 0x05dc, 0xffff}
	for i := int64(0); i < n3; i++ {
		r := c.Rand("c01s3", i)
		l := int(i % 1601)
		if i%3 == 0 {
			l = int(i/3) % 120 // short lengths more often: every boundary of every header
		}
		b := make([]byte, l)
		switch r.Intn(4) {
		case 0:
			r.Read(b)
		case 1:
			for k := range b {
				b[k] = 0xff
			}
		case 2:
		default:
			r.Read(b)
		}
		kind := "random"
		if l >= 14 && r.Intn(4) != 0 {
			b[6] &^= 1 // unicast source so the frame is decoded
			et := ets[r.Intn(len(ets))]
			b[12], b[13] = byte(et>>8), byte(et)
			kind = fmt.Sprintf("random+ethertype(%04x)", et)
			if l > 24 && r.Intn(2) == 0 {
				switch et {
				case 0x0800:
					b[14] = 0x40 | byte(r.Intn(16))
					b[23] = []byte{17, 6, 1, 58, 2, 0}[r.Intn(6)]
					if r.Intn(2) == 0 {
						b[14] = 0x45
						tot := l - 14
						if r.Intn(3) == 0 {
							tot = r.Intn(l)
						}
						b[16], b[17] = byte(tot>>8), byte(tot)
					}
				case 0x86dd:
					b[20] = []byte{17, 6, 1, 58, 2, 0}[r.Intn(6)]
					if r.Intn(2) == 0 && l >= 54 {
						pl := l - 54
						b[18], b[19] = byte(pl>>8), byte(pl)
					}
				}
			}
		}
		st.one(b, nil, kind, "none")
	}
	c.Obs("sessions", st.sessions)
	// S4: every exported view type, every zero-argument method
	c01Views(c)
	// S5: Parse of echo replies (matching, duplicated, foreign, truncated) while Ping/Ping6 calls are pending: the only
	// state outside the frame that Parse consults
	runPingStream(c, c.N(400, 20_000), 3_000_000_000)
}

// viewTypes is the list named by the property; methods are enumerated by reflection so new getters are covered automatically.
var viewTypes = []struct {
	name string
	typ  reflect.Type
	min  int
}{
	{"Ether", reflect.TypeOf(packet.Ether(nil)), 14},
	{"IP4", reflect.TypeOf(packet.IP4(nil)), 20},
	{"IP6", reflect.TypeOf(packet.IP6(nil)), 40},
	{"UDP", reflect.TypeOf(packet.UDP(nil)), 8},
	{"TCP", reflect.TypeOf(packet.TCP(nil)), 20},
	{"ARP", reflect.TypeOf(packet.ARP(nil)), 28},
	{"ICMP", reflect.TypeOf(packet.ICMP(nil)), 8},
	{"ICMPEcho", reflect.TypeOf(packet.ICMPEcho(nil)), 8},
	{"ICMP4Redirect", reflect.TypeOf(packet.ICMP4Redirect(nil)), 8},
	{"ICMP6RouterSolicitation", reflect.TypeOf(packet.ICMP6RouterSolicitation(nil)), 8},
	{"ICMP6RouterAdvertisement", reflect.TypeOf(packet.ICMP6RouterAdvertisement(nil)), 16},
	{"ICMP6NeighborAdvertisement", reflect.TypeOf(packet.ICMP6NeighborAdvertisement(nil)), 24},
	{"ICMP6NeighborSolicitation", reflect.TypeOf(packet.ICMP6NeighborSolicitation(nil)), 24},
	{"ICMP6Redirect", reflect.TypeOf(packet.ICMP6Redirect(nil)), 40},
	{"DHCP4", reflect.TypeOf(packet.DHCP4(nil)), 240},
	{"DNS", reflect.TypeOf(packet.DNS(nil)), 12},
	{"LLC", reflect.TypeOf(packet.LLC(nil)), 3},
	{"SNAP", reflect.TypeOf(packet.SNAP(nil)), 9},
	{"RRCP", reflect.TypeOf(packet.RRCP(nil)), 16},
	{"LLDP", reflect.TypeOf(packet.LLDP(nil)), 6},
	{"IEEE1905", reflect.TypeOf(packet.IEEE1905(nil)), 8},
	{"EthernetPause", reflect.TypeOf(packet.EthernetPause(nil)), 46},
	{"HopByHopExtensionHeader", reflect.TypeOf(packet.HopByHopExtensionHeader(nil)), 2},
}

// viewSeed returns a structurally plausible message for the view type so that valid instances are frequent.
func viewSeed(r *rand.Rand, e gen.Env, name string, l int) []byte {
	mac := e.Clients[0]
	src, dst := netip.MustParseAddr("fe80::1"), netip.MustParseAddr("ff02::1")
	var b []byte
	switch name {
	case "Ether":
		b = gen.Structural(r, e).B
	case "IP4":
		b = refdec.IP4(refdec.IP4Hdr{TTL: 9, Proto: 17, Src: e.HostIP, Dst: e.RouterIP, Options: make([]byte, 4*r.Intn(3))}, gen.RandBytes(r, r.Intn(40)))
	case "IP6":
		b = refdec.IP6(refdec.IP6Hdr{Next: 58, Hop: 255, Src: src, Dst: dst, PayloadLen: -1}, gen.RandBytes(r, r.Intn(40)))
	case "UDP":
		b = refdec.UDP(1, 2, gen.RandBytes(r, r.Intn(30)))
	case "TCP":
		b = refdec.TCP(refdec.TCPHdr{Src: 1, Dst: 2, Options: make([]byte, 4*r.Intn(4))}, gen.RandBytes(r, r.Intn(30)))
	case "ARP":
		b = gen.ARP(r, e, gen.ARPKinds[r.Intn(len(gen.ARPKinds))], mac, e.LANIP(r))
	case "ICMP", "ICMPEcho":
		b = gen.ICMP4Msg(r, e, gen.ICMP4Kinds[r.Intn(len(gen.ICMP4Kinds))])
	case "ICMP4Redirect":
		b = gen.ICMP4Msg(r, e, "redirect")
		if r.Intn(2) == 0 { // the "router advertisement"-like layout the view documents
			n := r.Intn(4)
			// (the view's IsValid demands type 137: it compares with the ICMPv6 redirect constant)
			sz := []int{4, 10, 2, 1, 3}[r.Intn(5)]
			tail := n * 40
			if r.Intn(2) == 0 {
				tail = n * sz * 4 // a table of exactly the announced size: nothing behind the last entry
			}
			b = append([]byte{[]byte{137, 137, 5}[r.Intn(3)], 0, 0, 0, byte(n), byte(sz), 0, 30}, gen.RandBytes(r, tail)...)
			b = b[:len(b):len(b)]
		}
	case "ICMP6RouterSolicitation":
		b = gen.ICMP6Msg(r, e, "rs", src, dst, mac)
		if r.Intn(2) == 0 {
			b = append(b, gen.RandBytes(r, 8*r.Intn(4))...)
		}
	case "ICMP6RouterAdvertisement":
		b = gen.ICMP6Msg(r, e, "ra", src, dst, mac)
	case "ICMP6NeighborAdvertisement":
		b = gen.ICMP6Msg(r, e, "na", src, dst, mac)
	case "ICMP6NeighborSolicitation":
		b = gen.ICMP6Msg(r, e, "ns", src, dst, mac)
	case "ICMP6Redirect":
		b = gen.ICMP6Msg(r, e, "redirect", src, dst, mac)
	case "DHCP4":
		b = gen.DHCP(r, e, gen.DHCPKinds[r.Intn(len(gen.DHCPKinds))], mac).Bytes()
	case "DNS":
		b = gen.DNS(r, e, gen.DNSKinds[r.Intn(len(gen.DNSKinds))])
	case "LLC", "SNAP":
		b = gen.LLC(r, gen.L2Kinds[r.Intn(len(gen.L2Kinds))])
	case "RRCP":
		b = gen.RRCP(r)
	case "LLDP":
		b = gen.LLDP(r)
	case "IEEE1905":
		b = gen.IEEE1905(r)
	case "EthernetPause":
		b = gen.Pause(r)
	case "HopByHopExtensionHeader":
		b = append([]byte{58, byte(r.Intn(3))}, gen.RandBytes(r, 6+8*r.Intn(3))...)
		for k := 2; k < len(b); k++ {
			if r.Intn(3) == 0 {
				b[k] = []byte{0, 1, 5, 194}[r.Intn(4)]
			}
		}
	}
	return b
}

var errType = reflect.TypeOf((*error)(nil)).Elem()

// checkResult verifies that byte-slice results stay inside the view.
func checkResult(c *wk.Ctx, a arena, tname, mname string, v reflect.Value, cs func() any, depth int) {
	switch v.Kind() {
	case reflect.Slice:
		if v.IsNil() || v.Len() == 0 {
			return
		}
		if v.Type().Elem().Kind() == reflect.Uint8 {
			w := a.where(v.UnsafePointer(), v.Len())
			if w == "outside" && !(tname == "Ether" && mname == "Payload") {
				c.Viol("oob:"+tname+"."+mname, fmt.Sprintf("%s.%s() returned %d bytes at view offset %d, view length %d", tname, mname, v.Len(), a.off(v.UnsafePointer()), a.n), cs())
			}
			if w == "inside" {
				c.Obs("view_results_inside", 1)
			}
			return
		}
		if depth < 2 {
			for i := 0; i < v.Len() && i < 64; i++ {
				checkResult(c, a, tname, mname, v.Index(i), cs, depth+1)
			}
		}
	}
}

func c01Views(c *wk.Ctx) {
	e := gen.DefaultEnv()
	idx := int64(3_000_000_000)
	perType := c.N(6_000, 300_000)
	for ti, vt := range viewTypes {
		var methods []int
		var isValid int = -1
		for m := 0; m < vt.typ.NumMethod(); m++ {
			mt := vt.typ.Method(m)
			if mt.Name == "IsValid" {
				isValid = m
				continue
			}
			if mt.Type.NumIn() == 1 { // receiver only
				methods = append(methods, m)
			}
		}
		if isValid < 0 {
			panic("HARNESS BUG: no IsValid on " + vt.name)
		}
		c.ObsMax("view_methods_"+vt.name, int64(len(methods)))
		for i := int64(0); i < perType; i++ {
			idx++
			if !c.Mine(idx) {
				continue
			}
			r := c.Rand("c01v"+vt.name, i)
			// lengths: every length 0..min+64 round-robin, then seeds and mutated seeds
			var in []byte
			mode := i % 5
			mut := "random"
			switch mode {
			case 4:
				// count / size / length bytes at the values where products and sums wrap (x8 at 32, x4 at 64, x10 at 26, ...),
				// then cut short: a validity check computed in a narrower type than the accessor must not let this through
				in = viewSeed(r, e, vt.name, 0)
				for k := 1 + r.Intn(2); k > 0 && len(in) > 0; k-- {
					in[r.Intn(len(in))] = byte([]int{25, 26, 31, 32, 33, 63, 64, 65, 127, 128, 129, 254, 255, r.Intn(256)}[r.Intn(14)])
				}
				if len(in) > vt.min {
					in = in[:vt.min+r.Intn(len(in)-vt.min+1)]
				}
				mut = "seed-bytes-truncated"
			case 0:
				in = gen.RandBytes(r, int(i/4)%(vt.min+65))
			case 1:
				in = viewSeed(r, e, vt.name, 0)
				mut = "seed"
			case 2:
				in = viewSeed(r, e, vt.name, 0)
				if len(in) > 0 {
					in = in[:r.Intn(len(in)+1)]
				}
				mut = "seed-truncated"
			default:
				in = viewSeed(r, e, vt.name, 0)
				for k := 1 + r.Intn(3); k > 0 && len(in) > 0; k-- {
					in[r.Intn(len(in))] = byte([]int{0, 1, 0xff, 0x0f, 0xf0, r.Intn(256)}[r.Intn(6)])
				}
				mut = "seed-bytes"
			}
			if (mode == 1 || mode == 3) && strings.HasPrefix(vt.name, "ICMP6") && vt.name != "ICMP6Echo" && len(in) >= vt.min && r.Intn(3) == 0 {
				// one more option behind the message, correctly framed (type, length in units of 8 bytes, that many bytes) but
				// of a length its type does not have: half an address behind the last RDNSS server, a link-layer address
				// option of three units, a prefix option of one... Framing is all a receiver may rely on (RFC 4861 4.6)
				ot := byte([]int{1, 2, 3, 5, 24, 25, 31, r.Intn(256)}[r.Intn(8)])
				units := 1 + r.Intn(5)
				opt := append([]byte{ot, byte(units)}, gen.RandBytes(r, units*8-2)...)
				in = append(in, opt...)
				mut += "+framed-option-of-odd-size"
				c.Obs("ndp_views_with_a_framed_option_of_unusual_size", 1)
			}
			spare := make([]byte, 48)
			for k := range spare {
				spare[k] = 0xff
			}
			a := newArena(in, spare)
			view := a.view()
			if i%2 == 0 { // exact capacity half of the time
				view = view[:len(view):len(view)]
			}
			c.Begin(idx, vt.name+".*", in)
			c.Eval()
			cs := func() any {
				return map[string]any{"index": idx, "view": vt.name, "input_hex": wk.Hex(in), "mutation": mut, "type_index": ti}
			}
			val := reflect.ValueOf(view).Convert(vt.typ)
			valid := false
			if pi := c.Guard("C01", cs, func() {
				out := val.Method(isValid).Call(nil)
				if out[0].Kind() == reflect.Bool {
					valid = out[0].Bool()
				} else {
					valid = out[0].IsNil()
				}
			}); pi != nil {
				continue
			}
			if !valid {
				c.Obs("views_invalid", 1)
				continue
			}
			c.Obs("views_valid", 1)
			c.Obs("views_valid:"+vt.name, 1)
			for _, m := range methods {
				mname := vt.typ.Method(m).Name
				c.Begin(idx, vt.name+"."+mname, in)
				c.Guard("C01", func() any {
					x := cs().(map[string]any)
					x["method"] = mname
					return x
				}, func() {
					out := val.Method(m).Call(nil)
					for _, o := range out {
						checkResult(c, a, vt.name, mname, o, cs, 0)
					}
				})
			}
			c.Class(fmt.Sprintf("view:%s|%s|%s", vt.name, mut, lenBucket(len(in))))
			if c.WantSample() && len(in) < 48 && mut != "random" {
				c.Sample(map[string]any{"view": vt.name, "input_hex": wk.Hex(in), "mutation": mut, "methods_called": len(methods)})
			}
		}
	}
	_ = net.IP{}
}
