package checks

import (
	"bytes"
	"fmt"
	"math/bits"
	"os"
	"net"
	"net/netip"
	"time"

	"github.com/irai/packet"

	"verif/harness/mon"
	"verif/harness/refdec"
	"verif/harness/wk"
)

func init() { register("C15", runC15) }

// onesAdd is one's complement 16-bit addition.
func onesAdd(a, b uint16) uint16 {
	s := uint32(a) + uint32(b)
	return uint16(s&0xffff + s>>16)
}

func c15Class(b []byte) string {
	// raw big-endian word sum before folding: number of carries out of 16 bits
	var sum uint64
	for i := 0; i+1 < len(b); i += 2 {
		sum += uint64(b[i])<<8 | uint64(b[i+1])
	}
	if len(b)%2 == 1 {
		sum += uint64(b[len(b)-1]) << 8
	}
	carries := sum >> 16
	bucket := 0
	if carries > 0 {
		bucket = bits.Len64(carries)
	}
	second := 0
	if (sum&0xffff)+carries > 0xffff {
		second = 1
	}
	return fmt.Sprintf("parity=%d carries~2^%d refold=%d", len(b)%2, bucket, second)
}

func c15One(c *wk.Ctx, b []byte, kind string) {
	c.Eval()
	want := bits.ReverseBytes16(refdec.Sum1071(b)) // the library stores the checksum low byte first
	got := packet.Checksum(b)
	if got != want {
		c.Viol("diff:Checksum:"+kind, fmt.Sprintf("Checksum(%d bytes)=%#04x want byte-swapped RFC1071 %#04x", len(b), got, want),
			map[string]any{"input_hex": wk.Hex(b), "kind": kind})
		return
	}
	if len(b) > 0 {
		c.Class(c15Class(b))
	}
}

// c15Split checks the split identity: for even-length a, Checksum(a||b) = ^(^Checksum(a) +' ^Checksum(b));
// for odd-length a the second operand is byte-swapped.
func c15Split(c *wk.Ctx, b []byte, cut int) {
	c.Eval()
	a, t := b[:cut], b[cut:]
	sa, st := ^packet.Checksum(a), ^packet.Checksum(t)
	if cut%2 == 1 {
		st = bits.ReverseBytes16(st)
	}
	want := ^onesAdd(sa, st)
	got := packet.Checksum(b)
	// 0x0000 and 0xffff are the two representations of zero in one's complement arithmetic
	if got != want && !(got == 0xffff && want == 0) && !(got == 0 && want == 0xffff) {
		c.Viol("diff:Checksum:split", fmt.Sprintf("Checksum(whole)=%#04x but combining halves at %d gives %#04x", got, cut, want),
			map[string]any{"input_hex": wk.Hex(b), "cut": cut})
		return
	}
	c.Class(fmt.Sprintf("split cut-parity=%d len-parity=%d", cut%2, len(b)%2))
}

func runC15(c *wk.Ctx) {
	if os.Getenv("VERIF_PART") == "concurrent" {
		// second run of the check, built with the race detector: only the concurrent completions (every header is verified
		// as always; the detector reports state shared between senders even when no interleaving corrupts a header)
		for round := int64(0); round < c.N(4, 40); round++ {
			c.Begin(8_000_000+round, "IP4.concurrent", nil)
			c15Concurrent(c, 5_000)
		}
		return
	}
	idx := int64(0)
	next := func(entry string) bool {
		idx++
		ok := c.Mine(idx)
		if ok && idx%512 == 0 {
			c.Begin(idx, entry, nil)
		}
		return ok
	}
	// (1) exhaustive over short strings
	maxLen := 2
	if !c.Quick() {
		maxLen = 3
	}
	for l := 0; l <= maxLen; l++ {
		n := 1 << (8 * l)
		buf := make([]byte, l)
		for v := 0; v < n; v++ {
			if !next("Checksum/exhaustive") {
				continue
			}
			for k := 0; k < l; k++ {
				buf[k] = byte(v >> (8 * k))
			}
			c15One(c, buf, "exhaustive")
		}
	}
	c.Obs("exhaustive_max_len", 0)
	c.ObsMax("exhaustive_len", int64(maxLen))
	// (2) single-word perturbations of carriers
	for _, cl := range []int{20, 21, 1500, 1521, 1522} {
		for _, fill := range []byte{0x00, 0xff, 0x5a} {
			for pos := 0; pos+1 < cl; pos++ {
				for _, w := range []uint16{0x0000, 0xffff, 0x8000, 0x00ff, 0xff00} {
					if !next("Checksum/perturb") {
						continue
					}
					b := make([]byte, cl)
					for i := range b {
						b[i] = fill
					}
					b[pos], b[pos+1] = byte(w>>8), byte(w)
					c15One(c, b, "perturb")
				}
			}
		}
	}
	// (3) all-0xff and ramp carriers of every length
	for l := 0; l <= 1522; l++ {
		if !next("Checksum/carrier") {
			continue
		}
		b := make([]byte, l)
		for i := range b {
			b[i] = 0xff
		}
		c15One(c, b, "allff")
		for i := range b {
			b[i] = byte(i)
		}
		c15One(c, b, "ramp")
	}
	// (4) random strings, every length covered round-robin, plus split identity
	nRand := c.N(1_000_000, 40_000_000)
	for i := int64(0); i < nRand; i++ {
		if !next("Checksum/random") {
			continue
		}
		r := c.Rand("c15rand", i)
		l := int(i % 1523)
		b := make([]byte, l)
		switch r.Intn(4) {
		case 0:
			r.Read(b)
		case 1: // mostly 0xff: many carries
			for k := range b {
				b[k] = 0xff
				if r.Intn(16) == 0 {
					b[k] = byte(r.Intn(256))
				}
			}
		case 2: // sparse
			for k := range b {
				if r.Intn(8) == 0 {
					b[k] = byte(r.Intn(256))
				}
			}
		default:
			r.Read(b)
			for k := 0; k+1 < len(b); k += 2 {
				if r.Intn(4) == 0 {
					b[k], b[k+1] = 0xff, 0xff
				}
			}
		}
		c15One(c, b, "random")
		if l > 0 {
			c15Split(c, b, r.Intn(l+1))
		}
		if c.WantSample() && l > 3 && l < 40 {
			c.Sample(map[string]any{"kind": "random", "input_hex": wk.Hex(b), "library": fmt.Sprintf("%#04x", packet.Checksum(b)),
				"rfc1071_be": fmt.Sprintf("%#04x", refdec.Sum1071(b))})
		}
	}
	// (5) IPv4 headers completed by SetPayload / AppendPayload
	nHdr := c.N(100_000, 2_000_000)
	for i := int64(0); i < nHdr; i++ {
		if !next("IP4.SetPayload") {
			continue
		}
		r := c.Rand("c15ip4", i)
		c15IP4(c, r.Intn(256), randAddr4(r), randAddr4(r), r.Intn(1400), byte(r.Intn(256)), r.Intn(2) == 0, i)
	}
	// (5b) the same completions from several goroutines at once, each in its own buffer (the packet loop answering a DHCP
	// request while a spoof loop and an API caller's Ping send theirs): the encoders share nothing, so every header must verify
	if next("IP4.concurrent") {
		c15Concurrent(c, int(c.N(40_000, 400_000)))
	}
	// (6) ICMP messages through the send functions (shard 0 only: needs a session)
	if c.Shard == 0 || c.Only >= 0 {
		c15ICMP(c, &idx)
	}
}

func randAddr4(r interface{ Intn(int) int }) netip.Addr {
	switch r.Intn(6) {
	case 0:
		return netip.AddrFrom4([4]byte{255, 255, 255, 255})
	case 1:
		return netip.AddrFrom4([4]byte{0, 0, 0, 0})
	}
	return netip.AddrFrom4([4]byte{byte(r.Intn(256)), byte(r.Intn(256)), byte(r.Intn(256)), byte(r.Intn(256))})
}

func c15IP4(c *wk.Ctx, ttl int, src, dst netip.Addr, plen int, proto byte, appendMode bool, i int64) {
	c.Eval()
	buf := make([]byte, 20+plen+8)
	payload := make([]byte, plen)
	for k := range payload {
		payload[k] = byte(k*7 + int(i))
	}
	ip := packet.EncodeIP4(buf[:20:len(buf)], byte(ttl), src, dst)
	var out packet.IP4
	if appendMode {
		var err error
		if out, err = ip.AppendPayload(payload, proto); err != nil {
			c.Viol("diff:IP4.AppendPayload:error", err.Error(), map[string]any{"plen": plen})
			return
		}
	} else {
		copy(buf[20:], payload)
		out = ip.SetPayload(buf[20:20+plen], proto)
	}
	// a header is completed again when its payload changes (a reply buffer reused for the next packet, a retransmission with
	// another length): the second completion must not depend on what the first one left in the checksum field
	again := int(i % 3)
	if again > 0 {
		plen2 := plen
		if again == 2 {
			plen2 = plen / 2
		}
		out = packet.IP4(buf[:20:len(buf)]).SetPayload(buf[20:20+plen2], proto)
		plen = plen2
		if len(out) != 20+plen2 {
			c.Viol("diff:IP4.SetPayload:length", fmt.Sprintf("second SetPayload returned %d bytes, want %d", len(out), 20+plen2), map[string]any{"plen": plen2})
			return
		}
	}
	if len(out) < 20 || !refdec.Verify1071(out[:20]) {
		c.Viol("diff:IP4.checksum", fmt.Sprintf("IPv4 header does not sum to zero: % x", []byte(out[:min(20, len(out))])),
			map[string]any{"ttl": ttl, "src": src.String(), "dst": dst.String(), "plen": plen, "proto": proto, "append": appendMode, "completed_again": again})
		return
	}
	c.Class(fmt.Sprintf("ip4hdr append=%v plen-parity=%d completed-again=%d", appendMode, plen%2, again))
}

func c15Concurrent(c *wk.Ctx, n int) {
	c.Eval()
	const workers = 4
	type bad struct {
		n      int
		sample string
	}
	res := make(chan bad, workers)
	for w := 0; w < workers; w++ {
		go func(w int) {
			var b bad
			buf := make([]byte, 20+64)
			msg := make([]byte, 40)
			for i := 0; i < n; i++ {
				src := netip.AddrFrom4([4]byte{10, byte(w), byte(i >> 8), byte(i)})
				dst := netip.AddrFrom4([4]byte{192, 168, byte(i >> 4), byte(w*61 + i)})
				for k := range buf[:20] {
					buf[k] = 0
				}
				ip := packet.EncodeIP4(buf[:20:len(buf)], byte(i), src, dst)
				out := ip.SetPayload(buf[20:20+(i+w)%64], byte(1+w))
				if len(out) < 20 || !refdec.Verify1071(out[:20]) {
					if b.n++; b.sample == "" {
						b.sample = fmt.Sprintf("goroutine %d iteration %d: % x", w, i, []byte(out[:min(20, len(out))]))
					}
				}
				for k := range msg {
					msg[k] = byte(i*7 + k*w)
				}
				if got, want := packet.Checksum(msg), bits.ReverseBytes16(refdec.Sum1071(msg)); got != want {
					if b.n++; b.sample == "" {
						b.sample = fmt.Sprintf("goroutine %d iteration %d: Checksum(% x) = %#04x", w, i, msg, got)
					}
				}
			}
			res <- b
		}(w)
	}
	total, sample := 0, ""
	for w := 0; w < workers; w++ {
		b := <-res
		if total += b.n; sample == "" {
			sample = b.sample
		}
	}
	if total > 0 {
		c.Viol("diff:IP4.checksum:concurrent", fmt.Sprintf("%d of %d headers / sums completed by %d goroutines at once (each in its own buffer) do not verify; first: %s", total, 2*workers*n, workers, sample),
			map[string]any{"goroutines": workers, "iterations": n})
		return
	}
	c.Obs("headers_completed_concurrently", int64(workers*n))
	c.Class("ip4hdr concurrent senders")
}

func c15ICMP(c *wk.Ctx, idx *int64) {
	rec := mon.NewRecorder(4)
	nic := mon.DefaultNIC()
	s, err := mon.NewSession(rec, nic, 0, 0, 0)
	if err != nil {
		fmt.Println("HARNESS BUG: session:", err)
		panic(err)
	}
	defer s.Close()
	n := c.N(20_000, 400_000)
	echoBuf := bytes.Repeat([]byte{0xc7}, 64) // the message buffer of a caller that encodes one echo request after the other into it
	echoData := []byte("abcdefghijklmnopqrstuvwxyz0123456789ABCDEFGHIJKL")
	for i := int64(0); i < n; i++ {
		*idx++
		if i%64 == 0 {
			setLogLevels(i/64%2 == 1) // the send paths log (and touch) the message at debug level
		}
		r := c.Rand("c15icmp", i)
		id, seq := uint16(r.Intn(65536)), uint16(r.Intn(65536))
		dmac := net.HardwareAddr{2, byte(r.Intn(256)), byte(r.Intn(256)), 3, 4, 5}
		c.Eval()
		if i%8 == 7 && nic.HostLLA.IsValid() {
			// the neighbour discovery senders: messages from 16 bytes (RS) to several hundred (an RA with many prefixes and
			// DNS servers), every one checked against its pseudo header
			var a [16]byte
			r.Read(a[:])
			a[0], a[1] = 0xfe, 0x80
			peer := packet.Addr{MAC: dmac, IP: netip.AddrFrom16(a)}
			own := packet.Addr{MAC: nic.HostMAC, IP: nic.HostLLA}
			var api string
			var err error
			switch r.Intn(6) {
			case 0:
				api = "ICMP6SendRouterSolicitation"
				err = s.ICMP6SendRouterSolicitation()
			case 1:
				api = "ICMP6SendNeighborAdvertisement"
				err = s.ICMP6SendNeighborAdvertisement(own, peer, own)
			case 2:
				api = "ICMP6SendNeighbourSolicitation"
				err = s.ICMP6SendNeighbourSolicitation(own, peer, peer.IP)
			default:
				api = "ICMP6SendRouterAdvertisement"
				var pfx []packet.PrefixInformation
				for k := 1 + r.Intn(14); k > 0; k-- {
					p := [16]byte{0x20, 0x01, 0x0d, 0xb8, byte(r.Intn(256)), byte(r.Intn(256)), byte(r.Intn(256)), byte(k)}
					pfx = append(pfx, packet.PrefixInformation{Prefix: net.IP(p[:]), PrefixLength: 64})
				}
				var rdnss *packet.RecursiveDNSServer
				if k := r.Intn(5); k > 0 {
					rdnss = &packet.RecursiveDNSServer{Lifetime: time.Duration(r.Intn(7200)) * time.Second}
					for ; k > 0; k-- {
						p := [16]byte{0x26, 0x06, 0x47, 0x00, 0x47, 0x00, 14: byte(r.Intn(256)), 15: byte(k)}
						rdnss.Servers = append(rdnss.Servers, net.IP(p[:]))
					}
				}
				dst := packet.IP6AllNodesAddr
				if r.Intn(2) == 0 {
					dst = peer
				}
				err = s.ICMP6SendRouterAdvertisement(pfx, rdnss, dst)
			}
			if err != nil {
				c.Viol("tx:"+api+":error", err.Error(), nil)
				continue
			}
			fr := rec.Take()
			if len(fr) != 1 {
				c.Viol("tx:"+api+":count", fmt.Sprintf("%d frames sent", len(fr)), nil)
				continue
			}
			f := fr[0]
			d := refdec.Decode(f.Data)
			if d.Err || d.PayloadID != refdec.PICMP6 {
				c.Viol("tx:"+api+":undecodable", wk.Hex(f.Data), nil)
				continue
			}
			ip := f.Data[d.OffIP6:]
			pl := int(ip[4])<<8 | int(ip[5])
			if 40+pl > len(ip) || !refdec.Verify1071(refdec.PseudoHdr6(d.SrcIP, d.DstIP, pl, 58), ip[40:40+pl]) {
				c.Viol("diff:ICMP6.checksum:"+api, fmt.Sprintf("the %d byte ICMPv6 message sent by %s does not verify with its pseudo header: %s", pl, api, wk.Hex(f.Data)), map[string]any{"index": *idx})
				continue
			}
			c.Class(fmt.Sprintf("ndp-send %s len~%d", api, pl/64*64))
			c.Obs("ndp_messages_sent_and_verified", 1)
			if pl >= 256 {
				c.Obs("ndp_messages_of_256_bytes_and_more", 1)
			}
		} else if i%2 == 0 {
			dst := randAddr4(r)
			src := randAddr4(r)
			if err := s.ICMP4SendEchoRequest(packet.Addr{MAC: nic.HostMAC, IP: src}, packet.Addr{MAC: dmac, IP: dst}, id, seq); err != nil {
				c.Viol("tx:ICMP4SendEchoRequest:error", err.Error(), nil)
				continue
			}
			// a retransmission: the next echo request of the same ping is encoded into the message buffer that still holds the
			// previous, checksummed message (first use: arbitrary bytes) and handed to the session's own sender
			if p := packet.EncodeICMPEcho(echoBuf, packet.ICMP4TypeEchoRequest, 0, id, seq+1, echoData[:r.Intn(len(echoData)+1)]); p != nil {
				if err := s.VerifICMP4SendPacket(packet.Addr{MAC: nic.HostMAC, IP: src}, packet.Addr{MAC: dmac, IP: dst}, packet.ICMP(p)); err != nil {
					c.Viol("tx:icmp4SendPacket:error", err.Error(), nil)
					continue
				}
				c.Obs("echo_messages_encoded_over_an_earlier_message_and_verified", 1)
			}
			for _, f := range rec.Take() {
				d := refdec.Decode(f.Data)
				if d.Err || d.PayloadID != refdec.PICMP4 {
					c.Viol("tx:ICMP4SendEchoRequest:undecodable", wk.Hex(f.Data), nil)
					continue
				}
				ip := f.Data[d.OffIP4:]
				tot := int(ip[2])<<8 | int(ip[3])
				icmp := ip[int(ip[0]&0xf)*4 : tot]
				if !refdec.Verify1071(icmp) || !refdec.Verify1071(ip[:int(ip[0]&0xf)*4]) {
					c.Viol("diff:ICMP4.checksum", "ICMPv4 echo request does not verify: "+wk.Hex(f.Data), map[string]any{"id": id, "seq": seq})
					continue
				}
				c.Class("icmp4-echo")
			}
		} else {
			var a, b [16]byte
			r.Read(a[:])
			r.Read(b[:])
			switch r.Intn(3) {
			case 0:
				a[0], a[1] = 0xfe, 0x80
				b[0], b[1] = 0xfe, 0x80
			case 1:
				b = [16]byte{0xff, 0x02, 15: 1}
			}
			src, dst := netip.AddrFrom16(a), netip.AddrFrom16(b)
			if err := s.ICMP6SendEchoRequest(packet.Addr{MAC: nic.HostMAC, IP: src}, packet.Addr{MAC: dmac, IP: dst}, id, seq); err != nil {
				c.Viol("tx:ICMP6SendEchoRequest:error", err.Error(), nil)
				continue
			}
			if p := packet.EncodeICMPEcho(echoBuf, packet.ICMP6TypeEchoRequest, 0, id, seq+1, echoData[:r.Intn(len(echoData)+1)]); p != nil {
				if err := s.VerifICMP6SendPacket(packet.Addr{MAC: nic.HostMAC, IP: src}, packet.Addr{MAC: dmac, IP: dst}, p); err != nil {
					c.Viol("tx:icmp6SendPacket:error", err.Error(), nil)
					continue
				}
				c.Obs("echo_messages_encoded_over_an_earlier_message_and_verified", 1)
			}
			for _, f := range rec.Take() {
				d := refdec.Decode(f.Data)
				if d.Err || d.PayloadID != refdec.PICMP6 {
					c.Viol("tx:ICMP6SendEchoRequest:undecodable", wk.Hex(f.Data), nil)
					continue
				}
				ip := f.Data[d.OffIP6:]
				pl := int(ip[4])<<8 | int(ip[5])
				icmp := ip[40 : 40+pl]
				if !refdec.Verify1071(refdec.PseudoHdr6(d.SrcIP, d.DstIP, pl, 58), icmp) {
					c.Viol("diff:ICMP6.checksum", "ICMPv6 echo request does not verify with its pseudo header: "+wk.Hex(f.Data), map[string]any{"id": id, "seq": seq})
					continue
				}
				c.Class("icmp6-echo")
				if c.WantSample() {
					c.Sample(map[string]any{"kind": "icmp6 echo via ICMP6SendEchoRequest", "frame_hex": wk.Hex(f.Data)})
				}
			}
		}
	}
	c.Obs("icmp_frames_checked", n)
}
