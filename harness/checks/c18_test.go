package checks

import (
	"bytes"
	"fmt"
	"math/rand"
	"net"
	"net/netip"
	"os"
	"path/filepath"
	"sort"
	"strings"
	"testing"
	"testing/synctest"
	"time"

	yaml "gopkg.in/yaml.v2"

	"github.com/irai/packet"
	"github.com/irai/packet/handlers/dhcp4_spoofer"

	"verif/harness/mon"
	"verif/harness/refdec"
	"verif/harness/wk"
)

func init() { register("C18", runC18) }

// leaseFile is the harness' own reading of the YAML lease file.
type leaseFile struct {
	Net1   map[string]any `yaml:"net1"`
	Net2   map[string]any `yaml:"net2"`
	Leases []struct {
		ClientID []int `yaml:"clientid"`
		State    int   `yaml:"state"`
		Addr     struct {
			MAC []int  `yaml:"mac"`
			IP  string `yaml:"ip"`
		} `yaml:"addr"`
	} `yaml:"leases"`
}

type triple struct {
	client string
	mac    string
	ip     string
	state  int
}

func (t triple) String() string { return fmt.Sprintf("(%x %x %s state=%d)", t.client, t.mac, t.ip, t.state) }

func ints2s(x []int) string {
	b := make([]byte, len(x))
	for i, v := range x {
		b[i] = byte(v)
	}
	return string(b)
}

// parseLeases reads the triples of a lease file; ok=false if it is not YAML of the expected shape.
func parseLeases(b []byte) (out []triple, ok bool) {
	var f leaseFile
	if err := yaml.Unmarshal(b, &f); err != nil {
		return nil, false
	}
	for _, l := range f.Leases {
		out = append(out, triple{ints2s(l.ClientID), ints2s(l.Addr.MAC), l.Addr.IP, l.State})
	}
	sort.Slice(out, func(i, j int) bool { return out[i].String() < out[j].String() })
	return out, true
}

func tripleSet(t []triple) string {
	s := make([]string, len(t))
	for i, x := range t {
		s[i] = x.String()
	}
	return strings.Join(s, " ")
}

// yamlPath gives the key path class of the line containing offset off, e.g. "leases[].addr.ip".
func yamlPath(file []byte, off int) string {
	lines := strings.Split(string(file), "\n")
	pos, ln := 0, 0
	for i, l := range lines {
		if off < pos+len(l)+1 {
			ln = i
			break
		}
		pos += len(l) + 1
		ln = i
	}
	indentOf := func(s string) int { return len(s) - len(strings.TrimLeft(s, " ")) }
	keyOf := func(s string) (string, bool) {
		t := strings.TrimSpace(s)
		item := false
		if strings.HasPrefix(t, "- ") {
			item = true
			t = strings.TrimSpace(t[2:])
		}
		if i := strings.Index(t, ":"); i > 0 {
			return t[:i], item
		}
		return "", item || t == "-"
	}
	var parts []string
	cur := lines[ln]
	ind := indentOf(cur)
	k, item := keyOf(cur)
	if k != "" {
		parts = append(parts, k)
	} else if item || strings.HasPrefix(strings.TrimSpace(cur), "-") {
		parts = append(parts, "[]")
	}
	if item && k != "" {
		parts = append(parts, "[]")
	}
	for i := ln - 1; i >= 0 && ind > 0; i-- {
		l := lines[i]
		if strings.TrimSpace(l) == "" {
			continue
		}
		li := indentOf(l)
		lk, litem := keyOf(l)
		if litem {
			// a "- key:" line: its content is indented by two more
			if li+2 <= ind && li < ind {
				if lk != "" && li+2 < ind {
					parts = append(parts, lk)
				}
				parts = append(parts, "[]")
				ind = li
			}
			continue
		}
		if li < ind && lk != "" {
			parts = append(parts, lk)
			ind = li
		}
	}
	if len(parts) > 0 && strings.HasPrefix(parts[len(parts)-1], "[]") || (len(parts) > 0 && parts[len(parts)-1] == "[]") {
		for i := ln; i >= 0; i-- {
			if l := lines[i]; l != "" && l[0] != ' ' && l[0] != '-' && l[0] != '#' {
				if k, _ := keyOf(l); k != "" {
					parts = append(parts, k)
				}
				break
			}
		}
	}
	for i, j := 0, len(parts)-1; i < j; i, j = i+1, j-1 {
		parts[i], parts[j] = parts[j], parts[i]
	}
	p := strings.Join(parts, ".")
	p = strings.ReplaceAll(p, ".[]", "[]")
	if p == "" {
		p = "top"
	}
	return p
}

type leaseSnap struct {
	file    []byte
	net     dhcpNet
	mode    dhcp4_spoofer.Mode
	dns     netip.Addr
	triples []triple
	shadow  map[string]netip.Addr
}

// loadOutcome constructs a handler from a (damaged) file and reports what it loaded.
func loadOutcome(c *wk.Ctx, snap leaseSnap, damaged []byte, scratch string, s *packet.Session, cs func() any) (loaded []triple, outcome string) {
	file := filepath.Join(scratch, fmt.Sprintf("c18-%d.yaml", os.Getpid()))
	if err := os.WriteFile(file, damaged, 0o644); err != nil {
		panic("HARNESS BUG: " + err.Error())
	}
	defer os.Remove(file)
	var h *dhcp4_spoofer.Handler
	var err error
	pi := c.Guard("C18", cs, func() {
		h, err = dhcp4_spoofer.Config{Mode: snap.mode, NetfilterIP: snap.net.netfilter, DNSServer: snap.dns, LeaseFilename: file}.New(s)
	})
	if pi != nil {
		return nil, "panic"
	}
	if err != nil || h == nil {
		return nil, "construct-error"
	}
	defer h.Close()
	b, rerr := os.ReadFile(file)
	if rerr != nil {
		return nil, "no-file"
	}
	tr, ok := parseLeases(b)
	if !ok {
		return nil, "rewritten-file-unreadable"
	}
	return tr, "loaded"
}

func classifyLoad(orig, got []triple, home netip.Prefix) string {
	if tripleSet(orig) == tripleSet(got) {
		return "intact"
	}
	if len(got) == 0 {
		return "empty"
	}
	in := map[string]bool{}
	for _, t := range orig {
		in[t.String()] = true
	}
	for _, t := range got {
		if !in[t.String()] {
			ip, err := netip.ParseAddr(t.ip)
			switch {
			case t.client == "":
				return "no-client-id"
			case err != nil || !home.Contains(ip):
				return "outside-home-subnet"
			case t.state != 2:
				return "not-allocated"
			}
			return "foreign"
		}
	}
	return "subset"
}

// faults enumerates damaged versions of a file: name, yaml path class, bytes.
type fault struct {
	kind string
	path string
	data []byte
}

func enumerateFaults(c *wk.Ctx, r *rand.Rand, f []byte, each func(fault)) {
	// (1) every prefix: the crash points of the truncate-and-write in saveConfig
	for cut := 0; cut < len(f); cut++ {
		p := yamlPath(f, cut)
		kind := "trunc"
		if cut == 0 || f[cut-1] == '\n' {
			kind = "trunc-at-line-boundary"
		}
		each(fault{kind, p, f[:cut]})
	}
	// (2) single byte substitutions
	subs := []byte{0x00, ' ', '\n', ':', '-', '9', 'x', 0xff}
	nOff := len(f)
	offs := make([]int, 0, nOff)
	if c.Quick() {
		for i := 0; i < 250 && i < nOff; i++ {
			offs = append(offs, r.Intn(nOff))
		}
	} else {
		for i := 0; i < nOff; i++ {
			offs = append(offs, i)
		}
	}
	for _, o := range offs {
		for _, sb := range subs {
			if f[o] == sb {
				continue
			}
			d := append([]byte(nil), f...)
			d[o] = sb
			each(fault{"subst", yamlPath(f, o), d})
		}
	}
	// (3) deletion and duplication of every line
	lines := bytes.SplitAfter(f, []byte("\n"))
	off := 0
	for i, l := range lines {
		p := yamlPath(f, off)
		var del, dup []byte
		for j, x := range lines {
			if j != i {
				del = append(del, x...)
			}
			dup = append(dup, x...)
			if j == i {
				dup = append(dup, x...)
			}
		}
		each(fault{"line-deleted", p, del})
		each(fault{"line-duplicated", p, dup})
		off += len(l)
	}
	// (4) structured faults
	s := string(f)
	repl := func(kind, path, old, new string) {
		if strings.Contains(s, old) {
			each(fault{kind, path, []byte(strings.Replace(s, old, new, 1))})
		}
	}
	repl("state-0", "leases[].state", "  state: 2", "  state: 0")
	repl("state-1", "leases[].state", "  state: 2", "  state: 1")
	repl("state-3", "leases[].state", "  state: 2", "  state: 3")
	if i := strings.Index(s, "    ip: "); i >= 0 {
		j := i + strings.Index(s[i:], "\n")
		for _, ip := range []string{"192.168.0.0", "192.168.0.255", "192.168.0.15", "10.9.9.9", "8.8.8.8", "not-an-ip", ""} {
			each(fault{"ip-moved", "leases[].addr.ip", []byte(s[:i] + "    ip: " + ip + s[j:])})
		}
	}
	for _, blk := range []string{"net1:", "net2:", "leases:"} {
		if i := strings.Index(s, blk); i >= 0 {
			each(fault{"block-renamed", strings.TrimSuffix(blk, ":"), []byte(s[:i] + "xx" + s[i+2:])})
		}
	}
	if i, j := strings.Index(s, "net1:"), strings.Index(s, "net2:"); i >= 0 && j > i {
		each(fault{"block-removed", "net1", []byte(s[:i] + s[j:])})
		if k := strings.Index(s, "leases:"); k > j {
			each(fault{"block-removed", "net2", []byte(s[:j] + s[k:])})
			each(fault{"blocks-swapped", "net1/net2", []byte(s[:i] + s[j:k] + s[i:j] + s[k:])})
		}
	}
	if i := strings.Index(s, "- clientid:"); i >= 0 {
		// duplicate the first lease under another client id, empty its client id, remove its client id block
		j := strings.Index(s[i+1:], "\n- ")
		first := s[i:]
		if j >= 0 {
			first = s[i : i+1+j+1]
		}
		each(fault{"lease-duplicated-other-client", "leases[]", []byte(s[:i] + strings.Replace(first, "  - ", "  - 9", 1) + s[i:])})
		if k := strings.Index(first, "  state:"); k > 0 {
			each(fault{"clientid-removed", "leases[].clientid", []byte(s[:i] + "- " + strings.TrimLeft(first[k:], " ") + s[i+len(first):])})
			each(fault{"clientid-empty", "leases[].clientid", []byte(s[:i] + "- clientid: []\n" + first[k:] + s[i+len(first):])})
		}
	}
	each(fault{"empty-file", "top", nil})
	each(fault{"non-yaml", "top", []byte("\x00\x01{{{{ not yaml ]]]]\n\t- : :")})
	each(fault{"random-bytes", "top", func() []byte { b := make([]byte, 200); r.Read(b); return b }()})
}

// c18FullLAN leases addresses to 150..240 clients (long host names and client identifiers make the file large), restarts the
// handler from the file and checks that every binding is there, that renewals are acknowledged and that no bound address is
// offered to a newcomer.
func c18FullLAN(c *wk.Ctx, idx int64, nt dhcpNet, scratch string) {
	nic := nt.nic
	rec := mon.NewRecorder(8)
	s, err := mon.NewSession(rec, nic, 0, 0, 0)
	if err != nil {
		panic("HARNESS BUG: " + err.Error())
	}
	file := filepath.Join(scratch, fmt.Sprintf("dhcp-full-%d-%d.yaml", os.Getpid(), idx))
	os.Remove(file)
	defer os.Remove(file)
	cfg := dhcp4_spoofer.Config{Mode: dhcp4_spoofer.ModePrimaryServer, NetfilterIP: nt.netfilter, LeaseFilename: file}
	h, err := cfg.New(s)
	if err != nil {
		panic("HARNESS BUG: dhcp handler: " + err.Error())
	}
	defer func() {
		h.Close()
		s.Close()
		synctest.Wait()
	}()
	time.Sleep(3 * time.Second)
	r := c.Rand("c18full", idx)
	n := 150 + r.Intn(91)
	rx := newRx()
	bc := netip.MustParseAddr("255.255.255.255")
	type cli struct {
		mac refdec.MAC
		id  []byte
		ip  netip.Addr
	}
	exchange := func(hh *dhcp4_spoofer.Handler, cl *cli, q refdec.DHCPMsg, src netip.Addr) []refdec.DHCPMsg {
		copy(q.CHAddr[:], cl.mac[:])
		if cl.id != nil {
			q.Options = append(q.Options, refdec.DHCPOpt{Code: 61, Data: cl.id})
		}
		frame, err := s.Parse(rx.load(dhcpFrame(cl.mac, src, bc, q, 68, 67, bcastMAC)))
		if err != nil {
			panic("HARNESS BUG: " + err.Error())
		}
		hh.ProcessPacket(frame)
		rx.scribble()
		synctest.Wait()
		for len(s.C) > 0 {
			<-s.C
		}
		var out []refdec.DHCPMsg
		for _, f := range rec.Take() {
			dec := refdec.Decode(f.Data)
			if !dec.Err && dec.OffUDP != 0 && dec.DstPort == 68 {
				if rp, err := refdec.ParseDHCP(f.Data[dec.OffUDP+8:]); err == nil && rp.Op == 2 {
					out = append(out, rp)
				}
			}
		}
		return out
	}
	cs := func() map[string]any { return map[string]any{"index": idx, "clients": n, "net": nt.name} }
	var cls []*cli
	for k := 0; k < n; k++ {
		cl := &cli{mac: refdec.MAC{0x02, 0xc5, 0, 0, byte(k >> 8), byte(k)}}
		if k%2 == 0 {
			cl.id = append([]byte{0}, []byte(fmt.Sprintf("client-identifier-of-station-%04d-%s", k, strings.Repeat("x", r.Intn(40))))...)
		}
		xid := [4]byte{0xfa, byte(k >> 8), byte(k), 1}
		host := refdec.DHCPOpt{Code: 12, Data: []byte(fmt.Sprintf("station-%04d", k))}
		if k%5 == 3 {
			host.Data = []byte(fmt.Sprintf("%s-%d", dhcpHostNames[3+k/5%(len(dhcpHostNames)-3)], k))
		}
		off := exchange(h, cl, refdec.DHCPMsg{Op: 1, HType: 1, HLen: 6, XID: xid, Options: []refdec.DHCPOpt{{Code: 53, Data: []byte{1}}, host}}, ip4zero)
		if len(off) != 1 || off[0].Type() != refdec.DHCPOffer {
			break // pool exhausted: the clients so far are the population
		}
		ack := exchange(h, cl, refdec.DHCPMsg{Op: 1, HType: 1, HLen: 6, XID: xid, Options: []refdec.DHCPOpt{{Code: 53, Data: []byte{3}}, host,
			{Code: 54, Data: ip4b(nic.HostIP)}, {Code: 50, Data: ip4b(off[0].YI)}}}, ip4zero)
		if len(ack) != 1 || ack[0].Type() != refdec.DHCPAck {
			break
		}
		cl.ip = ack[0].YI
		cls = append(cls, cl)
	}
	if len(cls) < 100 {
		c.Inconclusive(fmt.Sprintf("full-lan: only %d clients got a lease", len(cls)))
		return
	}
	b, err := os.ReadFile(file)
	if err != nil {
		c.Viol("lease:restart:full-lan:no-file", err.Error(), cs())
		return
	}
	c.ObsMax("lease_file_bytes_max", int64(len(b)))
	h.Close()
	h2, err := cfg.New(s)
	if err != nil {
		c.Viol("lease:restart:construct-error", err.Error(), cs())
		return
	}
	defer h2.Close()
	h2.MinuteTicker(time.Now())
	b2, _ := os.ReadFile(file)
	tr, ok := parseLeases(b2)
	have := map[string]bool{}
	for _, t := range tr {
		have[fmt.Sprintf("%x=%v", t.client, t.ip)] = true
	}
	missing := 0
	first := ""
	for _, cl := range cls {
		id := string(cl.mac[:])
		if cl.id != nil {
			id = string(cl.id)
		}
		if k := fmt.Sprintf("%x=%v", id, cl.ip); !have[k] {
			if missing++; first == "" {
				first = k
			}
		}
	}
	if !ok || missing > 0 {
		d := cs()
		d["file_bytes"] = len(b)
		c.Viol("lease:restart:full-lan:bindings-lost", fmt.Sprintf("%d of %d acknowledged bindings are not in the lease file of the restarted handler (first: %s); the file had %d bytes before the restart, %d after", missing, len(cls), first, len(b), len(b2)), d)
		return
	}
	for k := 0; k < 12; k++ {
		cl := cls[r.Intn(len(cls))]
		rep := exchange(h2, cl, refdec.DHCPMsg{Op: 1, HType: 1, HLen: 6, XID: [4]byte{0xfb, byte(k), 0, 2}, CI: cl.ip, Options: []refdec.DHCPOpt{{Code: 53, Data: []byte{3}}}}, cl.ip)
		if len(rep) != 1 || rep[0].Type() != refdec.DHCPAck || rep[0].YI != cl.ip {
			c.Viol("lease:restart:renewal-not-acknowledged", fmt.Sprintf("after the restart of a full LAN the renewal of %v got %d replies", cl.ip, len(rep)), cs())
			return
		}
	}
	nc := &cli{mac: refdec.MAC{0x02, 0xc9, 0, 0, 0, 9}}
	for _, rp := range exchange(h2, nc, refdec.DHCPMsg{Op: 1, HType: 1, HLen: 6, XID: [4]byte{0xfc, 1, 2, 3}, Options: []refdec.DHCPOpt{{Code: 53, Data: []byte{1}}}}, ip4zero) {
		for _, cl := range cls {
			if rp.Type() == refdec.DHCPOffer && rp.YI == cl.ip {
				c.Viol("lease:restart:bound-address-offered", fmt.Sprintf("after the restart of a full LAN %v (bound) is offered to a new client", cl.ip), cs())
				return
			}
		}
	}
	c.Obs("full_lan_restarts_checked", 1)
	c.Obs("full_lan_bindings_checked", int64(len(cls)))
	c.Class("restart full lan")
}

func runC18(c *wk.Ctx) {
	scratch := os.Getenv("VERIF_SCRATCH")
	if scratch == "" {
		scratch = os.TempDir()
	}
	nets := dhcpNets()
	real := time.Now()
	// ---------------------------------------------------------------- restart part (in bubbles, sharded by history)
	nRestart := c.N(1_500, 60_000)
	for i := int64(0); i < nRestart; i++ {
		idx := i + 1
		if !c.Mine(idx) {
			continue
		}
		r := c.Rand("c18r", i)
		c.Begin(idx, "restart-history", nil)
		c.Eval()
		ops := c18History(r, 12+r.Intn(14))
		d := &dhcpRun{c: c, idx: idx, ops: ops, net: dhcpNetFor(nets, idx), mode: dhcp4_spoofer.Mode(1 + idx%3), real: real}
		if idx%2 == 0 {
			d.dns = netip.MustParseAddr("9.9.9.9")
		}
		d.restart = true
		runDHCPHistory(c, d)
	}
	// ---------------------------------------------------------------- a full LAN: every address of a /24 leased, then a restart
	nBig := c.N(3, 24)
	for k := int64(0); k < nBig; k++ {
		idx := 800_000_000 + k
		if !c.Mine(idx) {
			continue
		}
		c.Begin(idx, "restart-full-lan", nil)
		c.Eval()
		runBubble(c, idx, func() { c18FullLAN(c, idx, nets[1], scratch) })
	}
	// ---------------------------------------------------------------- damage part
	if c.Only >= 0 && c.Only < 900_000_000 {
		return // replay of one restart history
	}
	nHist := c.N(5, 60)
	var snaps []leaseSnap
	for hno := int64(0); hno < nHist; hno++ {
		r := c.Rand("c18h", hno)
		ops := c18History(r, 14)
		d := &dhcpRun{c: c, idx: 900_000_000 + hno, ops: ops, net: dhcpNetFor(nets, hno), mode: dhcp4_spoofer.ModePrimaryServer, real: real, dns: netip.MustParseAddr("9.9.9.9")}
		var last []byte
		d.afterAck = func(step int, file string, m *mon.DHCPMon) {
			if b, err := os.ReadFile(file); err == nil && !bytes.Equal(b, last) {
				last = b
				tr, ok := parseLeases(b)
				if !ok {
					c.Viol("lease:saved-file-unreadable", "the file written after an ACK is not YAML of the expected shape", map[string]any{"index": d.idx, "file": string(b)})
					return
				}
				snaps = append(snaps, leaseSnap{file: b, net: d.net, mode: d.mode, dns: d.dns, triples: tr, shadow: m.Leases()})
			}
		}
		runDHCPHistory(c, d)
	}
	// keep the snapshots with the most leases plus the first ones; all workers compute the same list
	if len(snaps) > int(c.N(6, 80)) {
		sort.SliceStable(snaps, func(i, j int) bool { return len(snaps[i].triples) > len(snaps[j].triples) })
		snaps = snaps[:c.N(6, 80)]
	}
	c.Obs("lease_file_snapshots", int64(len(snaps)))
	sess, err := mon.NewSession(mon.NewRecorder(1), mon.DefaultNIC(), 0, 0, 0)
	if err != nil {
		panic("HARNESS BUG: " + err.Error())
	}
	defer sess.Close()
	idx := int64(2_000_000_000)
	for sn, snap := range snaps {
		// each NIC needs its own session
		s, err := mon.NewSession(mon.NewRecorder(1), snap.net.nic, 0, 0, 0)
		if err != nil {
			panic("HARNESS BUG: " + err.Error())
		}
		r := c.Rand("c18f", int64(sn))
		// sanity: the undamaged file must load intact
		if got, oc := loadOutcome(c, snap, snap.file, scratch, s, nil); oc != "loaded" || classifyLoad(snap.triples, got, snap.net.nic.HomeLAN) != "intact" {
			c.Viol("lease:undamaged-not-intact", fmt.Sprintf("the file as saved loads as %s: %s (outcome %s)", classifyLoad(snap.triples, got, snap.net.nic.HomeLAN), tripleSet(got), oc),
				map[string]any{"file": string(snap.file)})
		}
		enumerateFaults(c, r, snap.file, func(f fault) {
			idx++
			if !c.Mine(idx) {
				return
			}
			c.Begin(idx, "dhcp4.New(damaged lease file)", f.data)
			c.Eval()
			cs := func() any {
				return map[string]any{"index": idx, "fault": f.kind, "yaml_path": f.path, "snapshot": sn, "original_file": string(snap.file), "damaged_file_hex": wk.Hex(f.data),
					"original_bindings": tripleSet(snap.triples)}
			}
			got, oc := loadOutcome(c, snap, f.data, scratch, s, cs)
			if oc == "panic" {
				return
			}
			class := "reject"
			if oc == "loaded" {
				class = classifyLoad(snap.triples, got, snap.net.nic.HomeLAN)
			}
			_, isYAML := parseLeases(f.data)
			c.Obs("outcome:"+class, 1)
			switch class {
			case "intact", "empty", "reject":
				if isYAML {
					c.Class(fmt.Sprintf("%s@%s:%s", f.kind, f.path, class))
				}
			default:
				m := cs().(map[string]any)
				m["loaded_bindings"] = tripleSet(got)
				c.Viol(fmt.Sprintf("lease:%s@%s:%s", f.kind, f.path, class),
					fmt.Sprintf("damaged file (%s at %s) loads as %s:\n original: %s\n loaded:   %s", f.kind, f.path, class, tripleSet(snap.triples), tripleSet(got)), m)
			}
			if c.WantSample() && class == "empty" && isYAML && f.kind != "trunc" {
				c.Sample(map[string]any{"fault": f.kind, "yaml_path": f.path, "outcome": class, "original_bindings": len(snap.triples)})
			}
		})
		go s.Close()
	}
}

// c18History builds a history that acknowledges several leases and ends some of them.
func c18History(r *rand.Rand, n int) []dop {
	var ops []dop
	for len(ops) < n {
		c := r.Intn(4)
		switch r.Intn(10) {
		case 0, 1, 2, 3, 4:
			ops = append(ops, dop{K: "disc", C: c}, dop{K: "sel", C: c})
		case 5:
			ops = append(ops, dop{K: "decline", C: c})
		case 6:
			ops = append(ops, dop{K: "release", C: c})
		case 7:
			ops = append(ops, dop{K: []string{"cap", "rel"}[r.Intn(2)], C: c})
		case 8:
			ops = append(ops, dop{K: "adv", D: []time.Duration{time.Minute, 2*time.Hour + time.Minute, 4*time.Hour + time.Minute}[r.Intn(3)]})
		default:
			switch r.Intn(4) {
			case 0:
				ops = append(ops, dop{K: "reboot", C: c})
			case 1:
				ops = append(ops, dop{K: "restart", P: r.Intn(2)}) // the server also restarts in the middle of the history
			default:
				ops = append(ops, dop{K: "renew", C: c})
			}
		}
	}
	return ops
}

// restartProbe is run at the end of a dhcp history when d.restart is set: a new handler is constructed from the saved file
// and must hold exactly the acknowledged bindings, keep acknowledging renewals and not offer those addresses to others.
func (d *dhcpRun) restartProbe(s *packet.Session, rec *mon.Recorder, file string, m *mon.DHCPMon, old *dhcp4_spoofer.Handler, cls []*dclient, cs func(int) map[string]any) {
	c := d.c
	shadow := m.Leases()
	b, err := os.ReadFile(file)
	if err != nil {
		return
	}
	tr, ok := parseLeases(b)
	if !ok {
		c.Viol("lease:saved-file-unreadable", "lease file is not YAML of the expected shape", cs(len(d.ops)))
		return
	}
	// exactness with two shadows: every binding that is certainly in force (generous shadow: not expired, not declined /
	// released / NAKed, client did not go back to DISCOVER or to another server) must be in the file, and the file must not
	// hold a binding outside the conservative shadow (ended only by expiry, DECLINE/RELEASE, a NAK for that address, re-ACK)
	held := m.HeldLeases()
	want, maxs, got := []string{}, []string{}, []string{}
	inFile := map[string]bool{}
	for _, t := range tr {
		k := fmt.Sprintf("%x=%v", t.client, t.ip)
		got = append(got, k)
		inFile[k] = true
	}
	for cl, ip := range held {
		want = append(want, fmt.Sprintf("%x=%v", cl, ip))
	}
	inMax := map[string]bool{}
	for cl, ip := range shadow {
		k := fmt.Sprintf("%x=%v", cl, ip)
		maxs = append(maxs, k)
		inMax[k] = true
	}
	sort.Strings(want)
	sort.Strings(got)
	sort.Strings(maxs)
	data := cs(len(d.ops))
	data["file"] = string(b)
	data["acknowledged_certain"] = want
	data["acknowledged_at_most"] = maxs
	data["file_bindings"] = got
	for _, k := range want {
		if !inFile[k] {
			c.Viol("lease:restart:file-differs:missing-in-file", fmt.Sprintf("binding %s is acknowledged and in force but not in the saved file\n in force: %v\n file:     %v", k, want, got), data)
			return
		}
	}
	for _, k := range got {
		if !inMax[k] {
			c.Viol("lease:restart:file-differs:extra-in-file", fmt.Sprintf("the saved file holds %s which is not an acknowledged binding any more\n acknowledged (at most): %v\n file: %v", k, maxs, got), data)
			return
		}
	}
	shadow = held // only bindings certainly in force are probed
	old.Close()
	h2, err := dhcp4_spoofer.Config{Mode: d.mode, NetfilterIP: d.net.netfilter, DNSServer: d.dns, LeaseFilename: file}.New(s)
	if err != nil {
		c.Viol("lease:restart:construct-error", err.Error(), data)
		return
	}
	defer h2.Close()
	h2.MinuteTicker(time.Now())
	if b2, err := os.ReadFile(file); err == nil {
		if tr2, ok := parseLeases(b2); !ok || tripleSet(tr2) != tripleSet(tr) {
			c.Viol("lease:restart:reloaded-differs", fmt.Sprintf("file rewritten by the new handler differs\n before: %s\n after:  %s", tripleSet(tr), tripleSet(tr2)), data)
			return
		}
	}
	// the restarted server then lives on for a while before the clients come back: whatever is still in force after that
	// time (by the lease times the ACKs promised) must still be renewed, the rest is not probed
	if age := []time.Duration{0, 0, time.Minute, 2*time.Hour + time.Minute}[d.idx%4]; age > 0 {
		time.Sleep(age)
		synctest.Wait()
		h2.MinuteTicker(time.Now())
		shadow = m.HeldLeases()
		c.Obs("restart_probes_after_ageing", 1)
	}
	rx := newRx()
	send := func(cl *dclient, q refdec.DHCPMsg, src netip.Addr) []refdec.DHCPMsg {
		m.Request(q, src, s.IsCaptured(net.HardwareAddr(cl.mac[:])))
		fb := rx.load(dhcpFrame(cl.mac, src, netip.MustParseAddr("255.255.255.255"), q, 68, 67, bcastMAC))
		frame, err := s.Parse(fb)
		if err != nil {
			panic("HARNESS BUG: " + err.Error())
		}
		h2.ProcessPacket(frame)
		rx.scribble()
		synctest.Wait()
		var out []refdec.DHCPMsg
		for _, f := range rec.Take() {
			dec := refdec.Decode(f.Data)
			if !dec.Err && dec.OffUDP != 0 && dec.DstPort == 68 {
				if rp, err := refdec.ParseDHCP(f.Data[dec.OffUDP+8:]); err == nil && rp.Op == 2 {
					out = append(out, rp)
				}
			}
		}
		return out
	}
	renewed := 0
	for _, cl := range cls {
		id := string(cl.mac[:])
		if cid := d.clientID(cl); len(cid) > 0 { // a zero length identifier: known by its hardware address
			id = string(cid)
		}
		ip, ok := shadow[id]
		if !ok {
			continue
		}
		// a client whose capture state changed since the ACK is (by design) refused and sent back to DISCOVER: only clients
		// whose address lies in the subnet selected by their present capture state are expected to be renewed
		lan := d.net.nic.HomeLAN
		if s.IsCaptured(net.HardwareAddr(cl.mac[:])) {
			lan = d.net.netfilter.Masked()
		} else if d.net.netfilter.Masked().Contains(ip) {
			continue // leased while captured, released from capture since
		}
		if !lan.Contains(ip) {
			continue
		}
		q := refdec.DHCPMsg{Op: 1, HType: 1, HLen: 6, XID: [4]byte{0xee, byte(renewed), 1, 2}, CI: ip}
		copy(q.CHAddr[:], cl.mac[:])
		q.Options = []refdec.DHCPOpt{{Code: 53, Data: []byte{3}}}
		if cid := d.clientID(cl); cid != nil {
			q.Options = append(q.Options, refdec.DHCPOpt{Code: 61, Data: cid})
		}
		reps := send(cl, q, ip)
		if len(reps) != 1 || reps[0].Type() != refdec.DHCPAck || reps[0].YI != ip {
			dd := cs(len(d.ops))
			dd["file"] = string(b)
			c.Viol("lease:restart:renewal-not-acknowledged", fmt.Sprintf("after the restart the renewal of %v by client %x got %d replies (type %d)", ip, id, len(reps), func() int {
				if len(reps) > 0 {
					return reps[0].Type()
				}
				return 0
			}()), dd)
			return
		}
		renewed++
	}
	// a new client must not be offered a bound address: a new network card that asks for nothing in particular, one that asks
	// for each bound address, and a second client identifier behind the network card of the bound client asking for it
	type probe struct {
		mac  refdec.MAC
		id   []byte
		want netip.Addr
		who  string
	}
	probes := []probe{{mac: refdec.MAC{0x02, 0xc9, 0, 0, 0, 9}, who: "a new client"}}
	var holders []string
	for cl := range shadow {
		holders = append(holders, cl)
	}
	sort.Strings(holders)
	for _, cl := range holders {
		probes = append(probes, probe{mac: refdec.MAC{0x02, 0xc9, 0, 0, 0, 10}, want: shadow[cl], who: "a new client asking for it"})
		for _, x := range cls {
			cid := d.clientID(x)
			if (len(cid) > 0 && string(cid) == cl) || (len(cid) == 0 && string(x.mac[:]) == cl) {
				probes = append(probes, probe{mac: x.mac, id: []byte{0, 'o', 't', 'h', 'e', 'r'}, want: shadow[cl], who: "another client identifier on the bound client's network card asking for it"})
				break
			}
		}
	}
	for k, pb := range probes {
		nc := &dclient{mac: pb.mac, id: pb.id}
		q := refdec.DHCPMsg{Op: 1, HType: 1, HLen: 6, XID: [4]byte{0xef, byte(k), 2, 3}}
		copy(q.CHAddr[:], nc.mac[:])
		q.Options = []refdec.DHCPOpt{{Code: 53, Data: []byte{1}}}
		if pb.id != nil {
			q.Options = append(q.Options, refdec.DHCPOpt{Code: 61, Data: pb.id})
		}
		if pb.want.IsValid() {
			q.Options = append(q.Options, refdec.DHCPOpt{Code: 50, Data: ip4b(pb.want)})
		}
		for _, rp := range send(nc, q, ip4zero) {
			for cl, ip := range shadow {
				if rp.Type() == refdec.DHCPOffer && rp.YI == ip {
					c.Viol("lease:restart:bound-address-offered", fmt.Sprintf("after the restart %v (bound to client %x) is offered to %s", ip, cl, pb.who), data)
					return
				}
			}
		}
		c.Obs("restart_offer_probes", 1)
	}
	c.Obs("restarts_checked", 1)
	c.Obs("renewals_after_restart", int64(renewed))
	if renewed > 0 {
		c.Class(fmt.Sprintf("restart bindings=%d net=%s", len(shadow), d.net.name))
	}
	_ = testing.Short
}
