package checks

import (
	"bytes"
	"errors"
	"fmt"
	"math/rand"
	"net"
	"net/netip"
	"sort"
	"strings"

	"github.com/irai/packet"

	"verif/harness/gen"
	"verif/harness/mon"
	"verif/harness/refdec"
	"verif/harness/wk"
)

func init() { register("C03", runC03) }

const canary = 0xc7

// carve returns a slice of length l and capacity c inside a canary-filled array, plus a function that verifies
// that nothing outside [0,c) was written.
func carve(l, c int) ([]byte, func() bool) {
	const g = 32
	big := make([]byte, g+c+g)
	for i := range big {
		big[i] = canary
	}
	return big[g : g+l : g+c], func() bool {
		for i := 0; i < g; i++ {
			if big[i] != canary || big[g+c+i] != canary {
				return false
			}
		}
		return true
	}
}

type c03 struct {
	c   *wk.Ctx
	s   *packet.Session
	idx int64
	n   int
}

func (t *c03) viol(key, detail string, cs map[string]any) {
	cs["index"] = t.idx
	t.c.Viol(key, detail, cs)
}

func lenB(n int) string {
	switch {
	case n == 0:
		return "0"
	case n < 32:
		return "<32"
	case n < 300:
		return "<300"
	case n < 1400:
		return "<1400"
	}
	return "mtu"
}

func macOf(r *rand.Rand) net.HardwareAddr {
	m := make(net.HardwareAddr, 6)
	r.Read(m)
	if r.Intn(8) == 0 {
		copy(m, []byte{0xff, 0xff, 0xff, 0xff, 0xff, 0xff})
	}
	return m
}

func payloadLen(r *rand.Rand, max int) int {
	switch r.Intn(6) {
	case 0:
		return 0
	case 1:
		return max
	case 2:
		return r.Intn(8)
	}
	return r.Intn(max + 1)
}

// finishEther completes the frame around an encoded layer-3 packet sitting in the Ethernet buffer in one of the three ways
// the package offers: SetPayload (in place), AppendPayload (in place; pads to the 60 byte Ethernet minimum) and AppendPayload
// of a payload built elsewhere (copied in; the foreign slice may have any spare capacity).
func finishEther(r *rand.Rand, ether packet.Ether, l3 []byte) (out packet.Ether, err error, emode int) {
	switch emode = r.Intn(4); emode {
	case 3:
		// the Ethernet view is reused: it already carries an earlier, shorter frame (a send loop that keeps `ether, err =
		// ether.AppendPayload(x)`, or a reply built on the view of a received frame) when the real payload is appended
		ext := append([]byte(nil), l3...)
		for i := range l3 {
			l3[i] = 0xee
		}
		if prev, e1 := ether.AppendPayload(gen.RandBytes(r, r.Intn(24))); e1 == nil {
			ether = prev
		}
		out, err = ether.AppendPayload(ext)
	case 0:
		out, err = ether.SetPayload(l3)
	case 1:
		out, err = ether.AppendPayload(l3)
	default:
		ext := make([]byte, len(l3), len(l3)+[]int{0, 1, 64, 3000}[r.Intn(4)])
		copy(ext, l3)
		for i := range l3 {
			l3[i] = 0xee // the copy must come from ext
		}
		out, err = ether.AppendPayload(ext)
	}
	return
}

// unpad checks the Ethernet level length rule of the chosen completion and returns the frame without padding.
func (t *c03) unpad(out packet.Ether, n, emode int, cs map[string]any) ([]byte, bool) {
	want := n
	if emode != 0 && n < 60 {
		want = 60
	}
	if len(out) != want {
		t.viol("encode:ether:length", fmt.Sprintf("frame has %d bytes, header+payload is %d (completion mode %d)", len(out), n, emode), cs)
		return nil, false
	}
	for _, b := range out[n:] {
		if b != 0 {
			t.viol("encode:ether:padding", "Ethernet padding is not zero", cs)
			return nil, false
		}
	}
	return out[:n], true
}

// udpChain builds Ethernet/IP/UDP exactly as the library's send paths do and checks every layer both ways.
func (t *c03) udpChain(r *rand.Rand) {
	c := t.c
	v6 := r.Intn(2) == 0
	src, dst := macOf(r), macOf(r)
	src[0] &^= 1 // a frame we build has a unicast source
	sp, dp := rw(r), rw(r)
	if r.Intn(2) == 0 {
		dp = gen.PortClasses[r.Intn(len(gen.PortClasses))].Port
		if r.Intn(2) == 0 { // both ports from the table: a resolver whose ephemeral port happens to be another service's port
			sp = gen.PortClasses[r.Intn(len(gen.PortClasses))].Port
		}
	}
	ttl := rb(r)
	e := gen.DefaultEnv()
	var sip, dip netip.Addr
	maxPl := 1500 - 20 - 8
	if v6 {
		sip, _ = e.IP6(r)
		dip, _ = e.IP6(r)
		maxPl = 1500 - 40 - 8
	} else {
		sip, _ = e.IP4(r)
		dip, _ = e.IP4(r)
	}
	pl := gen.RandBytes(r, payloadLen(r, maxPl))
	if len(pl) == 0 && r.Intn(2) == 0 {
		pl = nil // "nothing to send" is often the zero value of a []byte: a payload of length zero like any other
	}
	mode := r.Intn(2) // 0: AppendPayload at udp level, 1: SetPayload with payload written in place
	cs := map[string]any{"chain": "ether/ip/udp", "v6": v6, "srcmac": src.String(), "dstmac": dst.String(), "srcip": sip.String(), "dstip": dip.String(),
		"sport": sp, "dport": dp, "ttl": ttl, "payload_len": len(pl), "mode": mode}
	buf, intact := carve(packet.EthMaxSize, packet.EthMaxSize)
	var out packet.Ether
	var err error
	var emode, n3 int
	pi := c.Guard("C03", func() any { cs["index"] = t.idx; return cs }, func() {
		ether := packet.EncodeEther(packet.Ether(buf), map[bool]uint16{false: 0x0800, true: 0x86dd}[v6], src, dst)
		var l3pl []byte
		var ip4 packet.IP4
		var ip6 packet.IP6
		// EncodeIP6 and EncodeUDP (like EncodeEther) go by capacity ("change slice in case slice is less than ..."): a slice of any
		// length, zero included, with room behind it is encoded in place - e.g. the empty Payload() of a layer built a moment ago
		short := func(b []byte) []byte {
			if r.Intn(3) == 0 && len(b) > 0 {
				cs["short_input_slices"] = true
				return b[:r.Intn(min(len(b), 41))]
			}
			return b
		}
		if v6 {
			ip6 = packet.EncodeIP6(short(ether.Payload()), ttl, sip, dip)
			l3pl = ip6.Payload()
		} else {
			ip4 = packet.EncodeIP4(ether.Payload(), ttl, sip, dip) // (EncodeIP4 alone takes its room from the length, not the capacity)
			l3pl = ip4.Payload()
		}
		udp := packet.EncodeUDP(short(l3pl), sp, dp)
		if udp == nil {
			err = errors.New("EncodeUDP returned nil")
			return
		}
		if mode == 0 {
			if udp, err = udp.AppendPayload(pl); err != nil {
				return
			}
		} else {
			copy(udp[8:cap(udp)], pl)
			udp = udp.SetPayload(udp[8:8+len(pl)][:len(pl)])
		}
		if mode == 1 && len(pl)%3 == 0 { // every layer completed twice over the same bytes: the result must not change
			cs["completed_twice"] = true
			udp = udp[:8:cap(udp)].SetPayload(udp[8 : 8+len(pl)]) // UDP.SetPayload extends the header view it is called on
			if v6 {
				ip6.SetPayload(udp, 17)
			} else {
				ip4.SetPayload(udp, 17)
			}
		}
		if v6 {
			ip6 = ip6.SetPayload(udp, 17)
			n3 = len(ip6)
			out, err, emode = finishEther(r, ether, ip6)
		} else {
			ip4 = ip4.SetPayload(udp, 17)
			n3 = len(ip4)
			out, err, emode = finishEther(r, ether, ip4)
		}
	})
	cs["ether_completion"] = emode
	if pi != nil {
		return
	}
	if err != nil {
		t.viol("encode:udpchain:error", "payload that fits was rejected: "+err.Error(), cs)
		return
	}
	if !intact() {
		t.viol("encode:udpchain:canary", "encoder wrote outside the buffer", cs)
		return
	}
	cs["frame_hex"] = wk.Hex(out)
	// reference decoder
	d := refdec.Decode(out)
	if d.Err {
		t.viol("encode:udpchain:undecodable", "reference decoder rejects the built frame: "+d.ErrLayer, cs)
		return
	}
	wantID := refdec.UDPClass(sp, dp)
	okRef := d.PayloadID == wantID && bytes.Equal(d.SrcMAC[:], src) && bytes.Equal(d.DstMAC[:], dst) && d.SrcIP == sip && d.DstIP == dip && d.SrcPort == sp && d.DstPort == dp
	if !okRef {
		t.viol("encode:udpchain:fields(ref)", fmt.Sprintf("reference decoder reads %+v", d), cs)
		return
	}
	// length consistency at every layer
	bare, ok := t.unpad(out, 14+n3, emode, cs)
	if !ok {
		return
	}
	l3 := bare[14:]
	var udpb []byte
	if v6 {
		if int(l3[4])<<8|int(l3[5]) != len(l3)-40 || l3[6] != 17 || l3[7] != ttl {
			t.viol("encode:IP6.SetPayload:length", "IPv6 payload length / next header / hop limit wrong", cs)
			return
		}
		udpb = l3[40:]
	} else {
		if int(l3[2])<<8|int(l3[3]) != len(l3) || l3[9] != 17 || l3[8] != ttl || !refdec.Verify1071(l3[:20]) {
			t.viol("encode:IP4.SetPayload:length", "IPv4 total length / protocol / ttl / checksum wrong", cs)
			return
		}
		udpb = l3[20:]
	}
	if int(udpb[4])<<8|int(udpb[5]) != len(udpb) || !bytes.Equal(udpb[8:], pl) {
		t.viol("encode:UDP.payload:length", fmt.Sprintf("UDP length field %d, datagram has %d bytes; payload equal=%v", int(udpb[4])<<8|int(udpb[5]), len(udpb), bytes.Equal(udpb[8:], pl)), cs)
		return
	}
	// the library's own views and Parse
	var frame packet.Frame
	if pi := c.Guard("C03", func() any { return cs }, func() { frame, err = t.s.Parse(out) }); pi != nil {
		return
	}
	if err != nil {
		t.viol("encode:udpchain:parse-error", "Parse rejects the frame the encoders built: "+err.Error(), cs)
		return
	}
	if int(frame.PayloadID) != wantID {
		t.viol("encode:udpchain:classified", fmt.Sprintf("Parse classifies the frame as %v, encoded ports %d>%d are class %s", frame.PayloadID, sp, dp, refPayloadName(wantID)), cs)
		return
	}
	u := frame.UDP()
	if u == nil || u.SrcPort() != sp || u.DstPort() != dp || int(u.Len()) != 8+len(pl) || !bytes.Equal(u.Payload(), pl) ||
		frame.SrcAddr.IP != sip || frame.DstAddr.IP != dip || !bytes.Equal(frame.SrcAddr.MAC, src) || !bytes.Equal(frame.DstAddr.MAC, dst) {
		t.viol("encode:udpchain:fields(views)", "library views read back different values", cs)
		return
	}
	if wantID != refdec.PUDP && !bytes.Equal(frame.Payload(), pl) {
		t.viol("encode:udpchain:payload(view)", "Frame.Payload() differs from the encoded payload", cs)
		return
	}
	// every decoder of the layers the chain wrote: the Ethernet convenience views and the IP header views
	var got string
	if c.Guard("C03", func() any { return cs }, func() {
		e := packet.Ether(out)
		got = fmt.Sprintf("ether %x>%x %v>%v", []byte(e.Src()), []byte(e.Dst()), e.SrcIP(), e.DstIP())
		if v6 {
			i := frame.IP6()
			got += fmt.Sprintf(" ip6 v%d %v>%v hop=%d next=%d len=%d", i.Version(), i.Src(), i.Dst(), i.HopLimit(), i.NextHeader(), i.PayloadLen())
		} else {
			i := frame.IP4()
			got += fmt.Sprintf(" ip4 v%d %v>%v ttl=%d proto=%d len=%d ihl=%d", i.Version(), i.Src(), i.Dst(), i.TTL(), i.Protocol(), i.TotalLen(), i.IHL())
		}
	}) != nil {
		return
	}
	want := fmt.Sprintf("ether %x>%x %v>%v", []byte(src), []byte(dst), sip, dip)
	if v6 {
		want += fmt.Sprintf(" ip6 v6 %v>%v hop=%d next=17 len=%d", sip, dip, ttl, 8+len(pl))
	} else {
		want += fmt.Sprintf(" ip4 v4 %v>%v ttl=%d proto=17 len=%d ihl=20", sip, dip, ttl, 28+len(pl))
	}
	if got != want {
		t.viol("encode:udpchain:fields(header views)", fmt.Sprintf("the header views read back\n %s\nencoded was\n %s", got, want), cs)
		return
	}
	c.Obs("chains_read_back_through_every_header_view", 1)
	c.Class(fmt.Sprintf("udpchain v6=%v mode=%d ether=%d len=%s class=%s", v6, mode, emode, lenB(len(pl)), refPayloadName(wantID)))
	if len(out) > 14+n3 {
		c.Obs("padded_frames", 1)
	}
	if c.WantSample() && len(out) < 80 {
		c.Sample(cs)
	}
}

// capacity: AppendPayload with too little room must return ErrPayloadTooBig and not write outside.
func (t *c03) capacity(r *rand.Rand) {
	c := t.c
	layer := []string{"ip4", "ip6", "udp"}[r.Intn(3)]
	hdr := map[string]int{"ip4": 20, "ip6": 40, "udp": 8}[layer]
	room := r.Intn(64)
	pl := gen.RandBytes(r, room+1+r.Intn(40)) // exceeds the remaining capacity
	if r.Intn(3) == 0 {
		pl = gen.RandBytes(r, r.Intn(room+1)) // fits
	}
	fits := len(pl) <= room
	buf, intact := carve(hdr+room, hdr+room)
	cs := map[string]any{"layer": layer, "capacity_after_header": room, "payload_len": len(pl)}
	var err error
	var outLen int
	pi := c.Guard("C03", func() any { cs["index"] = t.idx; return cs }, func() {
		switch layer {
		case "ip4":
			p := packet.EncodeIP4(buf, 64, netip.MustParseAddr("10.0.0.1"), netip.MustParseAddr("10.0.0.2"))
			var o packet.IP4
			o, err = p.AppendPayload(pl, 17)
			outLen = len(o)
		case "ip6":
			p := packet.EncodeIP6(buf, 64, netip.MustParseAddr("fe80::1"), netip.MustParseAddr("fe80::2"))
			var o packet.IP6
			o, err = p.AppendPayload(pl, 17)
			outLen = len(o)
		default:
			p := packet.EncodeUDP(buf, 1, 2)
			var o packet.UDP
			o, err = p.AppendPayload(pl)
			outLen = len(o)
		}
	})
	if pi != nil {
		return
	}
	if !intact() {
		t.viol("capacity:"+layer+":canary", "AppendPayload wrote past the capacity", cs)
		return
	}
	if !fits {
		if !errors.Is(err, packet.ErrPayloadTooBig) {
			t.viol("capacity:"+layer+":no-error", fmt.Sprintf("payload exceeding the capacity by %d bytes: err=%v", len(pl)-room, err), cs)
			return
		}
	} else if err != nil || outLen != hdr+len(pl) {
		t.viol("capacity:"+layer+":fits-rejected", fmt.Sprintf("payload that fits: err=%v len=%d", err, outLen), cs)
		return
	}
	c.Class(fmt.Sprintf("capacity %s fits=%v", layer, fits))
}

func (t *c03) arp(r *rand.Rand) {
	c := t.c
	e := gen.DefaultEnv()
	op := rw(r)
	sm, tm := macOf(r), macOf(r)
	sip, _ := e.IP4(r)
	tip, _ := e.IP4(r)
	src, dst := macOf(r), macOf(r)
	src[0] &^= 1
	cs := map[string]any{"chain": "ether/arp", "op": op, "sha": sm.String(), "spa": sip.String(), "tha": tm.String(), "tpa": tip.String()}
	buf, intact := carve(packet.EthMaxSize, packet.EthMaxSize)
	var out packet.Ether
	pi := c.Guard("C03", func() any { cs["index"] = t.idx; return cs }, func() {
		ether := packet.EncodeEther(packet.Ether(buf), 0x0806, src, dst)
		a := packet.EncodeARP(ether.Payload(), op, packet.Addr{MAC: sm, IP: sip}, packet.Addr{MAC: tm, IP: tip})
		out, _ = ether.SetPayload(a)
	})
	if pi != nil {
		return
	}
	cs["frame_hex"] = wk.Hex(out)
	d := refdec.Decode(out)
	var a refdec.ARPPkt
	var err error
	if !d.Err {
		a, err = refdec.ParseARP(out[14:])
	}
	if d.Err || err != nil || !intact() || len(out) != 42 || d.PayloadID != refdec.PARP || a.HType != 1 || a.PType != 0x0800 || a.HLen != 6 || a.PLen != 4 || a.Op != op ||
		!bytes.Equal(a.SHA[:], sm) || !bytes.Equal(a.THA[:], tm) || a.SPA != sip || a.TPA != tip || !bytes.Equal(d.SrcMAC[:], src) || !bytes.Equal(d.DstMAC[:], dst) {
		t.viol("encode:ARP:fields(ref)", fmt.Sprintf("reference reads %+v (decode %+v)", a, d), cs)
		return
	}
	v := packet.ARP(out[14:])
	if v.IsValid() != nil || v.Operation() != op || !bytes.Equal(v.SrcMAC(), sm) || !bytes.Equal(v.DstMAC(), tm) || v.SrcIP() != sip || v.DstIP() != tip {
		t.viol("encode:ARP:fields(views)", "library ARP view reads back different values", cs)
		return
	}
	frame, perr := t.s.Parse(out)
	if perr != nil || frame.PayloadID != packet.PayloadARP {
		t.viol("encode:ARP:classified", fmt.Sprintf("Parse: %v %v", frame.PayloadID, perr), cs)
		return
	}
	c.Class("arp")
}

func (t *c03) echo(r *rand.Rand) {
	c := t.c
	typ, code, id, seq := rb(r), rb(r), rw(r), rw(r)
	data := gen.RandBytes(r, payloadLen(r, 1400))
	capExtra := r.Intn(3)
	buf, intact := carve(0, 8+len(data)+capExtra)
	cs := map[string]any{"encoder": "EncodeICMPEcho", "type": typ, "code": code, "id": id, "seq": seq, "data_len": len(data)}
	var p packet.ICMPEcho
	if pi := c.Guard("C03", func() any { cs["index"] = t.idx; return cs }, func() { p = packet.EncodeICMPEcho(buf, typ, code, id, seq, data) }); pi != nil {
		return
	}
	if p == nil || !intact() || len(p) != 8+len(data) || p[0] != typ || p[1] != code || uint16(p[4])<<8|uint16(p[5]) != id || uint16(p[6])<<8|uint16(p[7]) != seq || !bytes.Equal(p[8:], data) ||
		p.EchoID() != id || p.EchoSeq() != seq || p.Type() != typ || p.Code() != code || !bytes.Equal(p.EchoData(), data) {
		cs["out_hex"] = wk.Hex(p)
		t.viol("encode:ICMPEcho:fields", "echo message does not read back", cs)
		return
	}
	c.Class("icmpecho len=" + lenB(len(data)))
}

// dhcp: arbitrary option maps and parameter orders.
func (t *c03) dhcp(r *rand.Rand) {
	c := t.c
	e := gen.DefaultEnv()
	opts := packet.DHCP4Options{}
	total := 0
	nopt := r.Intn(12)
	for i := 0; i < nopt; i++ {
		code := byte(1 + r.Intn(254))
		if code == 53 {
			continue
		}
		l := []int{0, 1, 4, 8, r.Intn(40), r.Intn(255)}[r.Intn(6)]
		if total+l+2 > 700 {
			continue
		}
		total += l + 2
		opts[packet.DHCP4OptionCode(code)] = gen.RandBytes(r, l)
	}
	if r.Intn(2) == 0 {
		opts[packet.DHCP4OptionSubnetMask] = []byte{255, 255, 255, 0}
		opts[packet.DHCP4OptionRouter] = []byte{192, 168, 0, 1}
	}
	if r.Intn(3) == 0 {
		opts[packet.DHCP4OptionStaticRoute] = gen.RandBytes(r, 8)
	}
	want := map[byte][]byte{}
	for k, v := range opts {
		want[byte(k)] = append([]byte{}, v...)
	}
	var order []byte
	for i := r.Intn(10); i > 0; i-- {
		order = append(order, byte(1+r.Intn(254)))
	}
	if r.Intn(2) == 0 { // a client asking for the router before the mask, and repeated codes
		order = append(order, 3, 6, 1, 3)
	}
	orderCopy := append([]byte{}, order...)
	// the order slice as a client would deliver it: a sub-slice of a packet with spare capacity behind it
	orderArena := append(append([]byte{}, order...), 0xee, 0xee, 0xee, 0xee)
	orderArg := orderArena[:len(order)]
	mt := byte(1 + r.Intn(8))
	op := byte(1 + r.Intn(2))
	ch := macOf(r)
	ci, _ := e.IP4(r)
	yi, _ := e.IP4(r)
	xid := gen.RandBytes(r, 4)
	bc := r.Intn(2) == 0
	capB := 300 + r.Intn(1200)
	if capB < 240+total+40 {
		capB = 240 + total + 40
	}
	buf, intact := carve(capB, capB)
	r.Read(buf) // a reused buffer holds old data
	cs := map[string]any{"encoder": "EncodeDHCP4", "opcode": op, "msgtype": mt, "chaddr": ch.String(), "ciaddr": ci.String(), "yiaddr": yi.String(), "xid": wk.Hex(xid),
		"broadcast": bc, "options": fmt.Sprint(want), "order": fmt.Sprint(orderCopy), "cap": capB}
	var out packet.DHCP4
	if pi := c.Guard("C03", func() any { cs["index"] = t.idx; return cs }, func() {
		out = packet.EncodeDHCP4(buf, packet.DHCP4OpCode(op), packet.DHCP4MessageType(mt), ch, ci, yi, xid, bc, opts, orderArg)
	}); pi != nil {
		return
	}
	cs["out_hex"] = wk.Hex(out)
	if out == nil || !intact() {
		t.viol("encode:DHCP4:nil-or-canary", "EncodeDHCP4 returned nil or wrote outside the buffer", cs)
		return
	}
	if !bytes.Equal(orderArena[len(order):], []byte{0xee, 0xee, 0xee, 0xee}) {
		// not part of the property statement (the result is still correct): counted, not a violation (DESIGN Corrections)
		c.Obs("dhcp_order_slice_appended_in_place", 1)
	}
	m, err := refdec.ParseDHCP(out)
	if err != nil {
		t.viol("encode:DHCP4:undecodable:"+strings.ReplaceAll(strings.TrimPrefix(err.Error(), "refdec: dhcp "), " ", "-"), "reference decoder: "+err.Error(), cs)
		return
	}
	if len(out) < 300 {
		t.viol("encode:DHCP4:min-size", fmt.Sprintf("message is %d bytes, BOOTP minimum is 300", len(out)), cs)
		return
	}
	for _, b := range out[len(out)-m.Trailer:] {
		if b != 0 {
			t.viol("encode:DHCP4:padding", "bytes after the End option are not zero", cs)
			return
		}
	}
	wantFlags := uint16(0)
	if bc {
		wantFlags = 0x8000
	}
	if m.Op != op || m.HType != 1 || m.HLen != 6 || !bytes.Equal(m.XID[:], xid) || m.CI != ci || m.YI != yi || !bytes.Equal(m.CHAddr[:6], ch) || m.Flags != wantFlags ||
		m.Hops != 0 || m.Secs != 0 || m.SI != netip.AddrFrom4([4]byte{}) || m.GI != netip.AddrFrom4([4]byte{}) || !bytes.Equal(m.CHAddr[6:], make([]byte, 10)) ||
		!bytes.Equal(m.SName[:], make([]byte, 64)) || !bytes.Equal(m.File[:], make([]byte, 128)) {
		t.viol("encode:DHCP4:fixed-fields", fmt.Sprintf("fixed fields read back as %+v", m), cs)
		return
	}
	// option multiset = input + message type
	want[53] = []byte{mt}
	got := map[byte][]byte{}
	for _, o := range m.Options {
		if _, dup := got[o.Code]; dup {
			t.viol("encode:DHCP4:duplicate-option", fmt.Sprintf("option %d encoded twice", o.Code), cs)
			return
		}
		got[o.Code] = o.Data
	}
	if len(got) != len(want) {
		t.viol("encode:DHCP4:option-set", fmt.Sprintf("decoded %d options, supplied %d", len(got), len(want)), cs)
		return
	}
	for k, v := range want {
		if !bytes.Equal(got[k], v) {
			t.viol("encode:DHCP4:option-value", fmt.Sprintf("option %d decodes to % x, supplied % x", k, got[k], v), cs)
			return
		}
	}
	if mi, ri := m.OptIndex(1), m.OptIndex(3); mi >= 0 && ri >= 0 && mi > ri {
		t.viol("encode:DHCP4:mask-after-router", fmt.Sprintf("subnet mask at position %d, router at %d (RFC 2132 3.3: mask first); requested order %v", mi, ri, orderCopy), cs)
		return
	}
	// the library's own decoder
	v := packet.DHCP4(out)
	if v.IsValid() != nil {
		t.viol("encode:DHCP4:view-invalid", fmt.Sprint(v.IsValid()), cs)
		return
	}
	po := v.ParseOptions()
	for k, val := range want {
		got, present := po[packet.DHCP4OptionCode(k)]
		if !present {
			// an option with an empty value (Rapid Commit, or any code the caller mapped to an empty slice) is on the wire
			// as "code, 0": it is an option like any other and the decoder must list it
			t.viol("encode:DHCP4:option-missing(view)", fmt.Sprintf("option %d (value % x, %d bytes) was supplied and is on the wire, ParseOptions() does not list it", k, val, len(val)), cs)
			return
		}
		if !bytes.Equal(got, val) {
			t.viol("encode:DHCP4:option-value(view)", fmt.Sprintf("ParseOptions()[%d] = % x, supplied % x", k, got, val), cs)
			return
		}
		if len(val) == 0 {
			c.Obs("dhcp_empty_options_round_trips", 1)
		}
	}
	for k := range po {
		if _, ok := want[byte(k)]; !ok && k != 53 {
			t.viol("encode:DHCP4:option-extra(view)", fmt.Sprintf("ParseOptions() lists option %d which was not supplied (supplied: %d options)", k, len(want)), cs)
			return
		}
	}
	if !bytes.Equal(v.XId(), xid) || v.CIAddr() != ci || v.YIAddr() != yi || !bytes.Equal(v.CHAddr(), ch) || v.Broadcast() != bc {
		t.viol("encode:DHCP4:fields(view)", "library view reads back different values", cs)
		return
	}
	// the BOOTP legacy fields: what the setters write the getters read back, and nothing around them moves
	sn := []byte(exactLabel(r, []int{0, 1, 10, 63, 64}[r.Intn(5)]))
	fl := []byte(exactLabel(r, []int{0, 1, 17, 127, 128}[r.Intn(5)]))
	before := append([]byte(nil), out...)
	if pi := c.Guard("C03", func() any { cs["index"] = t.idx; return cs }, func() { v.SetSName(sn); v.SetFile(fl) }); pi != nil {
		return
	}
	if !bytes.Equal(v.SName(), sn) || !bytes.Equal(v.File(), fl) {
		t.viol("encode:DHCP4:sname-file", fmt.Sprintf("SetSName(%d bytes) / SetFile(%d bytes) read back as %q / %q", len(sn), len(fl), v.SName(), v.File()), cs)
		return
	}
	if !bytes.Equal(out[:44], before[:44]) || !bytes.Equal(out[236:], before[236:]) {
		t.viol("encode:DHCP4:sname-file", "SetSName / SetFile changed bytes outside the two fields", cs)
		return
	}
	c.Obs("dhcp_legacy_fields_round_trips", 1)
	keys := make([]int, 0, len(want))
	for k := range want {
		keys = append(keys, int(k))
	}
	sort.Ints(keys)
	c.Class(fmt.Sprintf("dhcp nopts=%d order=%d maskrouter=%v", len(want)/4*4, len(orderCopy)/4*4, m.OptIndex(1) >= 0 && m.OptIndex(3) >= 0))
}

// exactLabel returns n letters.
func exactLabel(r *rand.Rand, n int) string {
	b := make([]byte, n)
	for i := range b {
		b[i] = byte('a' + r.Intn(26))
	}
	return string(b)
}

func wireName(name string) []byte {
	var b []byte
	for _, l := range strings.Split(name, ".") {
		if l == "" {
			continue
		}
		b = append(b, byte(len(l)))
		b = append(b, l...)
	}
	return append(b, 0)
}

func (t *c03) dnsQuery(r *rand.Rand) {
	c := t.c
	nl := 1 + r.Intn(6)
	var labels []string
	for i := 0; i < nl; i++ {
		l := make([]byte, 1+r.Intn(20))
		for k := range l {
			l[k] = "abcdefghijklmnopqrstuvwxyz0123456789-_"[r.Intn(38)]
		}
		labels = append(labels, string(l))
	}
	name := strings.Join(labels, ".")
	if r.Intn(4) == 0 {
		// names at and just below the RFC 1035 limit (253 characters = 255 octets on the wire), built from labels of up to 63
		total := []int{253, 253, 252, 251, 250, 64 + r.Intn(190)}[r.Intn(6)]
		labels = labels[:0]
		for left := total; left > 0; {
			n := 1 + r.Intn(63)
			if n > left {
				n = left
			}
			if left-n == 1 { // a lone dot cannot end the name
				if n > 1 {
					n--
				} else {
					n = 2
				}
			}
			l := make([]byte, n)
			for k := range l {
				l[k] = "abcdefghijklmnopqrstuvwxyz0123456789"[r.Intn(36)]
			}
			labels = append(labels, string(l))
			left -= n + 1
		}
		name = strings.Join(labels, ".")
		nl = len(labels)
		c.Obs("dns_names_near_limit", 1)
	}
	id, flags, qt := rw(r), rw(r)&0x7fff, rw(r)
	cs := map[string]any{"encoder": "EncodeDNSQuery", "name": name, "name_len": len(name), "id": id, "flags": flags, "qtype": qt}
	var p packet.DNS
	if pi := c.Guard("C03", func() any { cs["index"] = t.idx; return cs }, func() { p = packet.EncodeDNSQuery(id, flags, wireName(name), qt) }); pi != nil {
		return
	}
	cs["out_hex"] = wk.Hex(p)
	m, err := refdec.ParseDNS(p)
	if err != nil || m.ID != id || m.Flags != flags || len(m.Q) != 1 || m.Q[0].Name != name || m.Q[0].Type != qt || m.Q[0].Class != 1 || len(m.An)+len(m.Ns)+len(m.Ar) != 0 {
		t.viol("encode:DNSQuery:fields(ref)", fmt.Sprintf("reference reads %+v err=%v", m, err), cs)
		return
	}
	q, off, err := packet.DecodeQuestion(p, 12, make([]byte, 0, 64))
	if err != nil || string(q.Name) != name || q.Type != qt || q.Class != 1 || off != len(p) || p.TransactionID() != id || p.QDCount() != 1 {
		t.viol("encode:DNSQuery:fields(views)", fmt.Sprintf("DecodeQuestion: %q type=%d class=%d off=%d/%d err=%v", q.Name, q.Type, q.Class, off, len(p), err), cs)
		return
	}
	// every header view against the flags word that was encoded (RFC 1035 4.1.1: QR(1) Opcode(4) AA TC RD | RA Z(3) RCODE(4))
	gotH := fmt.Sprintf("qr=%v opcode=%d aa=%v tc=%v rd=%v ra=%v z=%d rcode=%d counts=%d/%d/%d/%d", p.QR(), p.OpCode(), p.AA(), p.TC(), p.RD(), p.RA(), p.Z(), p.ResponseCode(), p.QDCount(), p.ANCount(), p.NSCount(), p.ARCount())
	wantH := fmt.Sprintf("qr=%v opcode=%d aa=%v tc=%v rd=%v ra=%v z=%d rcode=%d counts=1/0/0/0", flags&0x8000 != 0, flags>>11&15, flags&0x400 != 0, flags&0x200 != 0, flags&0x100 != 0, flags&0x80 != 0, flags>>4&7, flags&15)
	if gotH != wantH {
		t.viol("encode:DNSQuery:fields(header views)", fmt.Sprintf("the header views read %s, encoded was %s", gotH, wantH), cs)
		return
	}
	c.Class(fmt.Sprintf("dnsquery labels=%d len~%d", min(nl, 8), len(name)/32*32))
	if len(name) == 253 {
		c.Obs("dns_names_of_253", 1)
	}
}

func (t *c03) ndp(r *rand.Rand) {
	c := t.c
	e := gen.DefaultEnv()
	tgt, _ := e.IP6(r)
	mac := macOf(r)
	rt, so, ov := r.Intn(2) == 0, r.Intn(2) == 0, r.Intn(2) == 0
	cs := map[string]any{"encoder": "ICMP6NeighborAdvertisementMarshal", "target": tgt.String(), "mac": mac.String(), "router": rt, "solicited": so, "override": ov}
	var na, ns []byte
	if pi := c.Guard("C03", func() any { cs["index"] = t.idx; return cs }, func() {
		na = packet.ICMP6NeighborAdvertisementMarshal(rt, so, ov, packet.Addr{MAC: mac, IP: tgt})
		ns, _ = packet.ICMP6NeighborSolicitationMarshal(tgt, mac)
	}); pi != nil {
		return
	}
	cs["na_hex"], cs["ns_hex"] = wk.Hex(na), wk.Hex(ns)
	chkOpts := func(which string, msg []byte, wantType byte) bool {
		if len(msg) < 24 || !bytes.Equal(msg[8:24], tgt.AsSlice()) {
			t.viol("encode:"+which+":target", "target address not at offset 8", cs)
			return false
		}
		opts, err := refdec.SplitOptions(msg[24:])
		if err != nil || len(opts) != 1 || opts[0].Len != 1 || !bytes.Equal(opts[0].Body, mac) {
			t.viol("encode:"+which+":options", fmt.Sprintf("options do not sum to the message length or carry another address: %+v %v", opts, err), cs)
			return false
		}
		if opts[0].Type != wantType {
			t.viol("encode:"+which+":option-type", fmt.Sprintf("link-layer address option has type %d, RFC 4861 says %d", opts[0].Type, wantType), cs)
			return false
		}
		return true
	}
	if na[0] != 136 || na[4]&0x80 != 0 != rt || na[4]&0x40 != 0 != so || na[4]&0x20 != 0 != ov {
		t.viol("encode:NA:flags", "type/flags wrong", cs)
		return
	}
	if !chkOpts("NA", na, refdec.OptTLLA) {
		return
	}
	v := packet.ICMP6NeighborAdvertisement(na)
	if v.IsValid() != nil || v.Router() != rt || v.Solicited() != so || v.Override() != ov || v.TargetAddress() != tgt || !bytes.Equal(v.TargetLLA(), mac) {
		t.viol("encode:NA:fields(views)", "library view reads back different values", cs)
		return
	}
	if ns[0] != 135 {
		t.viol("encode:NS:type", "type wrong", cs)
		return
	}
	if !chkOpts("NS", ns, refdec.OptSLLA) {
		return
	}
	w := packet.ICMP6NeighborSolicitation(ns)
	if w.IsValid() != nil || w.TargetAddress() != tgt || !bytes.Equal(w.SourceLLA(), mac) {
		t.viol("encode:NS:fields(views)", "library view reads back different values", cs)
		return
	}
	c.Class("ndp na/ns")
}

// setPayloadChain: Ether.SetPayload / AppendPayload with a raw payload, and IP4/IP6 AppendPayload inside a frame.
func (t *c03) rawChain(r *rand.Rand) {
	c := t.c
	e := gen.DefaultEnv()
	src, dst := macOf(r), macOf(r)
	src[0] &^= 1
	v6 := r.Intn(2) == 0
	proto := []byte{1, 58, 2, 47, 50}[r.Intn(5)]
	ttl := rb(r)
	pl := gen.RandBytes(r, payloadLen(r, 1400))
	if (proto == 1 || proto == 58) && len(pl) < 8 {
		pl = gen.RandBytes(r, 8) // an ICMP message has at least its 8 byte header
	}
	var sip, dip netip.Addr
	if v6 {
		sip, _ = e.IP6(r)
		dip, _ = e.IP6(r)
	} else {
		sip, _ = e.IP4(r)
		dip, _ = e.IP4(r)
	}
	cs := map[string]any{"chain": "ether/ip AppendPayload", "v6": v6, "proto": proto, "payload_len": len(pl)}
	buf, intact := carve(packet.EthMaxSize, packet.EthMaxSize)
	var out packet.Ether
	var err error
	var emode int
	if pi := c.Guard("C03", func() any { cs["index"] = t.idx; return cs }, func() {
		ether := packet.EncodeEther(packet.Ether(buf), map[bool]uint16{false: 0x0800, true: 0x86dd}[v6], src, dst)
		if v6 {
			ip := packet.EncodeIP6(ether.Payload(), ttl, sip, dip)
			if ip, err = ip.AppendPayload(pl, proto); err == nil {
				out, err, emode = finishEther(r, ether, ip)
			}
		} else {
			ip := packet.EncodeIP4(ether.Payload(), ttl, sip, dip)
			if ip, err = ip.AppendPayload(pl, proto); err == nil {
				out, err, emode = finishEther(r, ether, ip)
			}
		}
	}); pi != nil {
		return
	}
	cs["ether_completion"] = emode
	cs["frame_hex"] = wk.Hex(out)
	if err != nil || !intact() {
		t.viol("encode:rawchain:error", fmt.Sprintf("err=%v canary intact=%v", err, intact()), cs)
		return
	}
	d := refdec.Decode(out)
	hl := 20
	if v6 {
		hl = 40
	}
	padded := out
	if out, ok := t.unpad(out, 14+hl+len(pl), emode, cs); !ok {
		return
	} else if len(out) < len(padded) {
		c.Obs("padded_frames", 1)
	}
	out = out[:14+hl+len(pl)]
	if d.Err || d.Proto != int(proto) || d.SrcIP != sip || d.DstIP != dip || !bytes.Equal(out[14+hl:], pl) {
		t.viol("encode:rawchain:fields(ref)", fmt.Sprintf("reference reads %+v", d), cs)
		return
	}
	if !v6 && !refdec.Verify1071(out[14:34]) {
		t.viol("encode:rawchain:ip4-checksum", "IPv4 header checksum does not verify", cs)
		return
	}
	if v6 && len(padded) > len(out) {
		// an IPv6 packet shorter than 46 bytes (no real upper layer protocol is that short) followed by Ethernet padding: the
		// IP6 view demands PayloadLen+40 == len and rejects it; same don't-care zone as in C02 (DESIGN Corrections)
		c.Obs("padded_ip6_dontcare", 1)
	} else if v6 {
		v := packet.IP6(padded[14:])
		if v.IsValid() != nil || v.NextHeader() != proto || v.HopLimit() != ttl || !bytes.Equal(v.Payload(), pl) {
			t.viol("encode:rawchain:fields(views)", "IP6 view reads back different values", cs)
			return
		}
	} else {
		v := packet.IP4(padded[14:])
		if v.IsValid() != nil || v.Protocol() != proto || v.TTL() != int(ttl) || !bytes.Equal(v.Payload(), pl) || v.Src() != sip || v.Dst() != dip {
			t.viol("encode:rawchain:fields(views)", "IP4 view reads back different values", cs)
			return
		}
	}
	c.Class(fmt.Sprintf("rawchain v6=%v proto=%d ether=%d len=%s", v6, proto, emode, lenB(len(pl))))
}

// robustness: inputs outside the documented preconditions; panics are observations, not violations.
func (t *c03) robustness(r *rand.Rand) {
	c := t.c
	defer func() {
		if rec := recover(); rec != nil {
			pi := wk.Capture(rec)
			c.Obs("robustness_panic:"+pi.Frame, 1)
		}
	}()
	switch r.Intn(4) {
	case 0:
		buf, _ := carve(0, r.Intn(14))
		packet.EncodeEther(buf, 0x0800, macOf(r), macOf(r))
	case 1:
		buf, _ := carve(0, r.Intn(28))
		packet.EncodeARP(buf, 1, packet.Addr{MAC: macOf(r), IP: netip.MustParseAddr("1.2.3.4")}, packet.Addr{MAC: macOf(r), IP: netip.MustParseAddr("1.2.3.5")})
	case 2:
		buf, _ := carve(r.Intn(300), 300)
		opts := packet.DHCP4Options{12: gen.RandBytes(r, 300)}
		packet.EncodeDHCP4(buf, 1, 1, macOf(r), netip.Addr{}, netip.Addr{}, []byte{1, 2, 3, 4}, false, opts, nil)
	default:
		buf, _ := carve(14, 14+r.Intn(40))
		packet.Ether(buf).AppendPayload(gen.RandBytes(r, r.Intn(80)))
	}
	c.Obs("robustness_cases", 1)
}

func runC03(c *wk.Ctx) {
	if c.Shard == 0 {
		if err := refdec.SelfTest(); err != nil {
			fmt.Println("SELFTEST FAILED:", err)
			panic("SELFTEST FAILED")
		}
	}
	s, err := mon.NewSession(mon.NewRecorder(1), mon.DefaultNIC(), 0, 0, 0)
	if err != nil {
		panic("HARNESS BUG: " + err.Error())
	}
	t := &c03{c: c, s: s}
	n := c.N(150_000, 8_000_000)
	for i := int64(0); i < n; i++ {
		t.idx = i + 1
		if !c.Mine(t.idx) {
			continue
		}
		if t.n++; t.n%2000 == 0 { // per worker: the session's tables must stay small (the MAC table is searched linearly)
			go t.s.Close()
			t.s, _ = mon.NewSession(mon.NewRecorder(1), mon.DefaultNIC(), 0, 0, 0)
		}
		r := c.Rand("c03", i)
		c.Begin(t.idx, "encoders", nil)
		c.Eval()
		switch i % 10 {
		case 0, 1, 2:
			t.udpChain(r)
		case 3:
			t.capacity(r)
		case 4:
			t.arp(r)
		case 5:
			t.echo(r)
		case 6:
			t.dhcp(r)
		case 7:
			t.dnsQuery(r)
		case 8:
			t.ndp(r)
		default:
			if i%50 == 9 {
				t.robustness(r)
			} else {
				t.rawChain(r)
			}
		}
	}
	// IPv4 header checksum over every value of the low 16 destination bits (blocks of 256): the one's complement sum passes
	// through every carry situation, including the double carry that only a few headers in 65536 produce
	nb := c.N(4, 64) * 256
	for b := int64(0); b < nb; b++ {
		t.idx = 9_000_000_000 + b
		if !c.Mine(t.idx) {
			continue
		}
		c.Begin(t.idx, "ip4-checksum-sweep", nil)
		c.Eval()
		t.checksumBlock(b)
	}
}

func (t *c03) checksumBlock(b int64) {
	c := t.c
	r := c.Rand("c03sum", b/256)
	ttl := rb(r)
	src := netip.AddrFrom4([4]byte{192, 168, rb(r), rb(r)})
	pl := gen.RandBytes(r, 8+r.Intn(64))
	proto := []byte{17, 1, 2}[r.Intn(3)]
	buf := make([]byte, 20+len(pl))
	for lo := 0; lo < 256; lo++ {
		dst := netip.AddrFrom4([4]byte{192, 168, byte(b % 256), byte(lo)})
		cs := map[string]any{"index": t.idx, "chain": "ip4 header checksum sweep", "src": src.String(), "dst": dst.String(), "ttl": ttl, "proto": proto, "payload_len": len(pl)}
		var ip packet.IP4
		var err error
		if pi := c.Guard("C03", func() any { return cs }, func() {
			for i := range buf {
				buf[i] = 0
			}
			ip = packet.EncodeIP4(buf, ttl, src, dst)
			if lo%2 == 0 {
				ip, err = ip.AppendPayload(pl, proto)
			} else {
				copy(buf[20:], pl)
				ip = ip.SetPayload(buf[20:20+len(pl)], proto)
			}
			if lo%3 == 0 { // the header is completed a second time (buffer reused, payload rewritten): same result expected
				cs["completed_twice"] = true
				ip = packet.IP4(buf[:20:len(buf)]).SetPayload(buf[20:20+len(pl)], proto)
			}
		}); pi != nil {
			return
		}
		if err != nil || len(ip) != 20+len(pl) {
			t.viol("encode:ip4sweep:error", fmt.Sprintf("err=%v len=%d", err, len(ip)), cs)
			return
		}
		if !refdec.Verify1071(ip[:20]) {
			cs["header_hex"] = wk.Hex(ip[:20])
			t.viol("encode:ip4-header-checksum", "IPv4 header checksum written by the encoder does not verify (RFC 1071)", cs)
			return
		}
		c.Obs("ip4_headers_checksummed", 1)
	}
	c.Class("ip4 checksum sweep")
}
