package checks

import (
	"fmt"
	"os"
	"strings"
	"testing"
	"testing/synctest"

	"verif/harness/mon"
	"verif/harness/wk"
)

var registry = map[string]func(*wk.Ctx){}

func register(prop string, f func(*wk.Ctx)) { registry[prop] = f }

// TestWorker is the single entry point the driver runs (VERIF_PROP selects the workload).
func TestWorker(t *testing.T) {
	if os.Getenv("VERIF_PROP") == "" {
		t.Skip("run through /verif/check")
	}
	theT = t
	c := wk.New()
	f := registry[c.Prop]
	if f == nil {
		fmt.Fprintln(os.Stderr, "HARNESS BUG: unknown property workload", c.Prop)
		os.Exit(4)
	}
	stderr := os.Stderr
	_ = stderr
	mon.Quiet()
	f(c)
	c.Finish()
}

// runBubble runs f in a testing/synctest bubble on its own goroutine (a race report or failure inside the bubble makes
// synctest.Test call FailNow, which must not end the worker). A panic escaping f - in particular the bubble's
// "deadlock: main bubble goroutine has exited but blocked goroutines remain" - is reported under C09.
func runBubble(c *wk.Ctx, idx int64, f func()) {
	done := make(chan any, 1)
	go func() {
		defer func() { done <- recover() }()
		synctest.Test(theT, func(t *testing.T) { f() })
	}()
	if rec := <-done; rec != nil {
		pi := wk.Capture(rec)
		if strings.Contains(pi.Value, "HARNESS BUG") {
			panic(rec)
		}
		c.ViolP("C09", "bubble:"+strings.SplitN(pi.Value, ":", 2)[0], pi.Value, map[string]any{"index": idx})
	}
}
