package checks

import (
	"fmt"
	"net/netip"
	"os"
	"strings"
	"testing"
	"testing/synctest"

	"github.com/irai/packet"
	"github.com/irai/packet/fastlog"
	"github.com/irai/packet/handlers/arp_spoofer"
	"github.com/irai/packet/handlers/dhcp4_spoofer"
	"github.com/irai/packet/handlers/dns_naming"
	"github.com/irai/packet/handlers/icmp_spoofer"

	"verif/harness/mon"
	"verif/harness/refdec"
	"verif/harness/wk"
)

var registry = map[string]func(*wk.Ctx){}

func register(prop string, f func(*wk.Ctx)) { registry[prop] = f }

// TestWorker is the single entry point the driver runs (VERIF_PROP selects the workload).
func TestWorker(t *testing.T) {
	if os.Getenv("VERIF_PROP") == "" {
		t.Skip("run through /verif/check")
	}
	theT = t
	c := wk.New()
	f := registry[c.Prop]
	if f == nil {
		fmt.Fprintln(os.Stderr, "HARNESS BUG: unknown property workload", c.Prop)
		os.Exit(4)
	}
	stderr := os.Stderr
	_ = stderr
	mon.Quiet()
	f(c)
	c.Finish()
}

// runBubble runs f in a testing/synctest bubble on its own goroutine (a race report or failure inside the bubble makes
// synctest.Test call FailNow, which must not end the worker). A panic escaping f - in particular the bubble's
// "deadlock: main bubble goroutine has exited but blocked goroutines remain" - is reported under C09.
func runBubble(c *wk.Ctx, idx int64, f func()) {
	// every third bubble runs with all library loggers at debug level: the library has code that only runs then
	setLogLevels(idx%3 == 2)
	done := make(chan any, 1)
	go func() {
		defer func() { done <- recover() }()
		synctest.Test(theT, func(t *testing.T) { f() })
	}()
	if rec := <-done; rec != nil {
		pi := wk.Capture(rec)
		if strings.Contains(pi.Value, "HARNESS BUG") {
			panic(rec)
		}
		c.ViolP("C09", "bubble:"+strings.SplitN(pi.Value, ":", 2)[0], pi.Value, map[string]any{"index": idx})
	}
}

// rxBuf models the read loop's single receive buffer (buf := make([]byte, EthMaxSize); n, _ := ReadFrom(buf); Parse(buf[:n]); ...):
// every frame a workload delivers is copied into it before Parse, and when the step is over the buffer is overwritten, as the
// next ReadFrom would do. Whatever the library keeps from a packet must not live in this buffer.
type rxBuf struct {
	b []byte
	n int
}

func newRx() *rxBuf { return &rxBuf{b: make([]byte, packet.EthMaxSize)} }

// load copies a frame into the buffer and returns the slice to parse; the rest of the buffer keeps the previous frame's bytes.
func (r *rxBuf) load(f []byte) []byte {
	if len(f) > len(r.b) {
		return append([]byte(nil), f...) // larger than any frame the read loop could receive: delivered as it is
	}
	return r.b[:copy(r.b, f)]
}

// scribble overwrites the whole buffer: alternately with a byte pattern and with a frame of some other station that the
// caller read but never handed to Parse (a well-formed IPv4/UDP packet from 192.168.0.222: whoever looks behind the end of
// the next, shorter frame finds a plausible packet there, not garbage).
func (r *rxBuf) scribble() {
	for i := range r.b {
		r.b[i] = 0xa5
	}
	if r.n++; r.n%2 == 0 {
		copy(r.b, ghostFrame)
	}
}

var ghostFrame = refdec.Ether(refdec.MAC{0x02, 0x55, 0x55, 0x55, 0x55, 0x55}, refdec.MAC{0x02, 0xee, 0xee, 0xee, 0xee, 0xee}, 0x0800, 0,
	refdec.IP4(refdec.IP4Hdr{TTL: 64, Proto: 17, Src: netip.MustParseAddr("192.168.0.222"), Dst: netip.MustParseAddr("192.168.0.129")}, refdec.UDP(40003, 40004, []byte("ghost of another station's packet"))))

// setLogLevels switches every logger of the library between its default (info) and debug level. Debug level makes the library
// render packets and tables into log lines (String()/FastLog of the views) and takes branches that are dead otherwise.
func setLogLevels(debug bool) {
	lv := fastlog.LevelInfo
	if debug {
		lv = fastlog.LevelDebug
	}
	for _, l := range []*fastlog.Logger{packet.Logger, arp_spoofer.Logger, dhcp4_spoofer.Logger, dns_naming.Logger, dns_naming.LoggerMDNS, icmp_spoofer.Logger4, icmp_spoofer.Logger6} {
		l.SetLevel(lv)
	}
	// the naming handlers have a switch of their own in front of their debug output (a plain variable: it is only ever changed
	// here, while no library goroutine that could read it is running a handler)
	dns_naming.Debug = debug
}
