package checks

import (
	"fmt"
	"os"
	"testing"

	"verif/harness/mon"
	"verif/harness/wk"
)

var registry = map[string]func(*wk.Ctx){}

func register(prop string, f func(*wk.Ctx)) { registry[prop] = f }

// TestWorker is the single entry point the driver runs (VERIF_PROP selects the workload).
func TestWorker(t *testing.T) {
	if os.Getenv("VERIF_PROP") == "" {
		t.Skip("run through /verif/check")
	}
	theT = t
	c := wk.New()
	f := registry[c.Prop]
	if f == nil {
		fmt.Fprintln(os.Stderr, "HARNESS BUG: unknown property workload", c.Prop)
		os.Exit(4)
	}
	stderr := os.Stderr
	_ = stderr
	mon.Quiet()
	f(c)
	c.Finish()
}
