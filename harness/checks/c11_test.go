package checks

import (
	"bytes"
	"fmt"
	"math/rand"
	"net"
	"net/netip"
	"os"
	"path/filepath"
	"sort"
	"strings"
	"testing/synctest"
	"time"

	"github.com/irai/packet"
	"github.com/irai/packet/handlers/dhcp4_spoofer"

	"verif/harness/mon"
	"verif/harness/refdec"
	"verif/harness/wk"
)

// One workload ("dhcp"), two monitors: C11 (no double / reserved allocation) and C12 (segregation and transaction conformance).
func init() {
	register("C11", runDHCP)
	register("C12", runDHCP)
	register("dhcp", runDHCP)
}

type dhcpNet struct {
	name      string
	nic       mon.NIC
	netfilter netip.Prefix
}

func dhcpNets() []dhcpNet {
	mk := func(name, lan, host, nf string) dhcpNet {
		n := mon.DefaultNIC()
		n.HomeLAN = netip.MustParsePrefix(lan)
		n.HostIP = netip.MustParseAddr(host)
		n.RouterIP = netip.MustParseAddr("192.168.0.1")
		return dhcpNet{name: name, nic: n, netfilter: netip.MustParsePrefix(nf)}
	}
	return []dhcpNet{
		mk("home/28+nf/29", "192.168.0.0/28", "192.168.0.9", "192.168.0.9/29"),
		mk("home/24+nf/25", "192.168.0.0/24", "192.168.0.129", "192.168.0.129/25"),
		mk("home/28+nf/30", "192.168.0.0/28", "192.168.0.13", "192.168.0.13/30"),
		// netfilter subnet with the same network address as the home LAN (they differ only in the prefix length)
		mk("home/24+nf/25low", "192.168.0.0/24", "192.168.0.5", "192.168.0.5/25"),
	}
}

// gateway is the router the captured subnet announces: the address part of Config.NetfilterIP.
func (n dhcpNet) gateway() netip.Addr { return n.netfilter.Addr() }

// otherGateway is the same network with a netfilter gateway that is not the host's LAN address (a second address of the host:
// NetfilterIP host+1 on the same prefix), the configuration Config.NetfilterIP exists for. One history in seven runs there.
func (n dhcpNet) otherGateway() dhcpNet {
	n.netfilter = netip.PrefixFrom(n.nic.HostIP.Next(), n.netfilter.Bits())
	n.name += "+gw"
	return n
}

func dhcpNetFor(nets []dhcpNet, idx int64) dhcpNet {
	n := nets[int(idx)%len(nets)]
	if idx%7 == 3 {
		n = n.otherGateway()
	}
	return n
}

var dhcpClients = []refdec.MAC{{0x02, 0xc1, 0, 0, 0, 1}, {0x02, 0xc2, 0, 0, 0, 2}, {0x02, 0xc3, 0, 0, 0, 3}}
var bystander = refdec.MAC{0x02, 0xdd, 0, 0, 0, 9}

type dop struct {
	K string // disc discrep sel selother renew reboot decline release cap rel adv foreign learn crowd inform restart
	C int    // client
	P int    // parameter choice
	D time.Duration
}

func (o dop) String() string {
	switch o.K {
	case "adv":
		if o.P == 1 {
			return "adv-no-tick(" + o.D.String() + ")"
		}
		return "adv(" + o.D.String() + ")"
	case "learn":
		return fmt.Sprintf("learn(%d)", o.P)
	}
	return fmt.Sprintf("%s(c%d,p%d)", o.K, o.C, o.P)
}

type dclient struct {
	mac      refdec.MAC
	useID    bool
	id       []byte // explicit client identifier (option 61), overrides useID
	xid      [4]byte
	xidN     byte
	offered  netip.Addr
	acked    netip.Addr
	captured bool
}

type dhcpRun struct {
	c      *wk.Ctx
	idx    int64
	base   int64 // offset of the case index when the workload runs as a sub-stream of another property's check (C07)
	ops    []dop
	net    dhcpNet
	mode   dhcp4_spoofer.Mode
	dns    netip.Addr
	attack bool
	real   time.Time
	viol   bool
	sawAck bool
	restart  bool   // C18: at the end construct a new handler from the saved file and probe it
	keepFile string // if set, the lease file is copied here after the history (C18)
	afterAck func(step int, file string, m *mon.DHCPMon)
}

func (d *dhcpRun) clientID(cl *dclient) []byte {
	if cl.id != nil {
		return cl.id
	}
	if cl.useID {
		return append([]byte{1}, cl.mac[:]...)
	}
	return nil
}

// dhcpHostNames: what clients put into the host name option (12). The name is the one piece of free text the server keeps
// (host table, lease file): names with characters that mean something to a formatter, to YAML or to a terminal are ordinary
// input here. "" stands for no option at all.
var dhcpHostNames = []string{"", "", "", "laptop", "tv-100%hd", "%s%d%v%n", "a: b", "# not a comment", "'single'", "\"double\"", "back\\slash", "two\nlines", "tab\there",
	"null", "~", "- item", "{a: 1}", "[x]", "caf\u00e9", " leading and trailing ", "yes", "0x1f", "!!binary x", "&anchor *alias", "|", ">", "@at", "`tick`",
	strings.Repeat("long-name.", 20), "\x00nul\x00", "\xff\xfe"}

func (d *dhcpRun) hostName(cl *dclient, k int) string {
	return dhcpHostNames[(int(cl.mac[5])*7+int(d.idx)+k/16)%len(dhcpHostNames)]
}

// pickAddr returns the address a parameter choice stands for.
func (d *dhcpRun) pickAddr(p int, me *dclient, cls []*dclient, captured bool) netip.Addr {
	lan := d.net.nic.HomeLAN
	if captured {
		lan = d.net.netfilter.Masked()
	}
	// the other client: prefer one that holds what the parameter asks for (its offer for 2, its lease for 3)
	var other *dclient
	for k := range cls {
		x := cls[(k+int(d.idx))%len(cls)]
		if x == me {
			continue
		}
		if other == nil || (p == 2 && x.offered.IsValid() && !other.offered.IsValid()) || (p == 3 && x.acked.IsValid() && !other.acked.IsValid()) {
			other = x
		}
	}
	switch p {
	case 1: // some address in the subnet (host part 2..)
		a := lan.Addr().Next().Next()
		for i := 0; i < int(d.idx%5); i++ {
			a = a.Next()
		}
		return a
	case 2:
		return other.offered
	case 3:
		return other.acked
	case 4:
		if captured && d.idx%2 == 1 {
			return d.net.gateway() // the captured subnet's router (the host address itself in most configurations)
		}
		return d.net.nic.HostIP
	case 5:
		return d.net.nic.RouterIP
	case 6:
		return lan.Addr()
	case 7:
		a := lan.Addr().As4()
		bits := lan.Bits()
		for i := bits; i < 32; i++ {
			a[i/8] |= 0x80 >> (i % 8)
		}
		return netip.AddrFrom4(a)
	case 8:
		return netip.MustParseAddr("8.8.8.8")
	case 9:
		return me.acked
	case 10:
		return me.offered
	}
	return netip.Addr{}
}

func ip4b(a netip.Addr) []byte { x := a.As4(); return x[:] }

func dhcpFrame(mac refdec.MAC, src, dst netip.Addr, m refdec.DHCPMsg, sp, dp uint16, dmac refdec.MAC) []byte {
	return refdec.Ether(dmac, mac, 0x0800, 0, refdec.IP4(refdec.IP4Hdr{TTL: 64, Proto: 17, Src: src, Dst: dst}, refdec.UDP(sp, dp, m.Bytes())))
}

func (d *dhcpRun) history() {
	c := d.c
	if d.attack {
		// package level nextAttack was initialised with the real clock: move the bubble clock past it before anything is scheduled
		time.Sleep(time.Until(d.real) + 48*time.Hour)
	}
	nic := d.net.nic
	rec := mon.NewRecorder(8)
	s, err := mon.NewSession(rec, nic, 0, 0, 0)
	if err != nil {
		panic("HARNESS BUG: " + err.Error())
	}
	scratch := os.Getenv("VERIF_SCRATCH")
	if scratch == "" {
		scratch = os.TempDir()
	}
	file := filepath.Join(scratch, fmt.Sprintf("dhcp-%d-%d.yaml", os.Getpid(), d.idx))
	os.Remove(file)
	defer os.Remove(file)
	h, err := dhcp4_spoofer.Config{Mode: d.mode, NetfilterIP: d.net.netfilter, DNSServer: d.dns, LeaseFilename: file}.New(s)
	if err != nil {
		panic("HARNESS BUG: dhcp handler: " + err.Error())
	}
	defer func() {
		h.Close()
		s.Close()
		synctest.Wait()
	}()
	dns := d.dns
	if !dns.IsValid() {
		dns = nic.RouterIP
	}
	m := mon.NewDHCPMon(mon.DHCPCfg{Home: nic.HomeLAN, Netfilter: d.net.netfilter.Masked(), HostIP: nic.HostIP, Gateway: d.net.gateway(), RouterIP: nic.RouterIP, DNS: dns,
		FamilyDNS: netip.MustParseAddr("1.1.1.3"), Lease: 4 * time.Hour}, time.Now)
	cls := []*dclient{{mac: dhcpClients[0]}, {mac: dhcpClients[1], useID: true}, {mac: dhcpClients[2], useID: d.idx%2 == 0}}
	if d.idx%5 == 2 {
		// a client that sends a client identifier option of length zero (shorter than RFC 2132 allows, seen from embedded
		// stacks): whatever the server keys it by, it is one client and its lease is a lease like any other
		cls[2].id = []byte{}
	}
	if d.idx%3 == 0 {
		// a second DHCP client behind the same network card as client 1 (a virtual machine or container bridged without its
		// own MAC, a boot loader and the installed system): same chaddr, another client identifier - a different client
		cls = append(cls, &dclient{mac: dhcpClients[1], id: []byte{0, 'v', 'm', '-', 'b'}})
	}
	if d.idx%7 == 3 { // (7: the net goes by idx%4, the mode by idx/3%3)
		// client 0's device seen under a second identity: once without a client identifier (keyed by its hardware address) and
		// once as 01+MAC (another operating system on the same machine) - two clients by RFC 2131 4.2
		cls = append(cls, &dclient{mac: dhcpClients[0], id: append([]byte{1}, dhcpClients[0][:]...)})
		c.Obs("histories_with_one_device_under_two_identities", 1)
	}
	time.Sleep(3 * time.Second)
	synctest.Wait()
	rec.Take()
	cs := func(step int) map[string]any {
		var ops []string
		for i, o := range d.ops {
			if i > step {
				break
			}
			ops = append(ops, o.String())
		}
		return map[string]any{"index": d.base + d.idx, "history": ops, "failing_step": step, "net": d.net.name, "mode": int(d.mode), "dns_configured": d.dns.IsValid()}
	}
	tracked := func(a netip.Addr) (refdec.MAC, bool) {
		if host := s.FindIP(a); host != nil {
			return toMAC(host.MACEntry.MAC), true
		}
		return refdec.MAC{}, false
	}
	bc := netip.MustParseAddr("255.255.255.255")
	rx := newRx()
	restarted := false
	// capture generation per client: counts the changes of its capture state as the session reports it (Capture/Release calls,
	// the flag lost with a purged MAC entry, a new session after a process restart); the C18 renewal rule below only speaks about
	// clients whose state did not change since the ACK
	capGen := map[*dclient]int{}
	capLast := map[*dclient]bool{}
	ackGen := map[*dclient]int{}
	seeCaps := func() {
		for _, x := range cls {
			if now := s.IsCaptured(net.HardwareAddr(x.mac[:])); now != capLast[x] {
				capLast[x] = now
				capGen[x]++
			}
		}
	}
	for step, o := range d.ops {
		seeCaps()
		cl := cls[(o.C%len(cls)+len(cls))%len(cls)] // -1: the client added last
		// "the client's capture state at that moment" is what the session reports: the flag lives in the MAC entry and is
		// dropped with it when the MAC's last host is re-bound or purged (DESIGN Corrections)
		cl.captured = s.IsCaptured(net.HardwareAddr(cl.mac[:]))
		var frameB []byte
		var foreignYI netip.Addr
		mustAck, ackedNow := "", false
		var req *refdec.DHCPMsg
		var srcIP netip.Addr = ip4zero
		newMsg := func(typ byte) *refdec.DHCPMsg {
			q := &refdec.DHCPMsg{Op: 1, HType: 1, HLen: 6, XID: cl.xid}
			copy(q.CHAddr[:], cl.mac[:])
			q.Options = append(q.Options, refdec.DHCPOpt{Code: 53, Data: []byte{typ}})
			if id := d.clientID(cl); id != nil {
				q.Options = append(q.Options, refdec.DHCPOpt{Code: 61, Data: id})
			}
			if (step+int(d.idx))%5 == 1 {
				// a network-booting client: the BOOTP server name and boot file fields of its request are in use, here to their
				// last byte (no terminating NUL fits). Whatever the server answers is its own message, not an echo of these
				for k := range q.SName {
					q.SName[k] = 's'
				}
				for k := range q.File {
					q.File[k] = "pxelinux/"[k%9]
				}
				c.Obs("requests_with_full_sname_and_file_fields", 1)
			}
			if hn := d.hostName(cl, step); hn != "" {
				q.Options = append(q.Options, refdec.DHCPOpt{Code: 12, Data: []byte(hn)})
				c.Obs("messages_with_a_host_name_option", 1)
			}
			// parameter request list: absent, empty, the usual ones, and lists that name the router without the mask, the mask
			// without the router, neither, or options the server never sends (the reply must be well-formed whatever is asked)
			prls := [][]byte{nil, {3, 1, 6, 51}, nil, {1, 3, 6, 15}, {}, {3, 6}, {6, 3}, {3}, {1}, {15, 6}, {51, 58, 59, 3}, {6, 15, 119, 252}, {3, 3, 1, 1}}
			if prl := prls[(o.P+step*7+int(d.idx))%len(prls)]; prl != nil {
				q.Options = append(q.Options, refdec.DHCPOpt{Code: 55, Data: prl})
			}
			return q
		}
		freshXID := func() {
			cl.xidN++
			cl.xid = [4]byte{byte(o.C + 1), cl.xidN, byte(d.idx), 0x77}
		}
		switch o.K {
		case "disc":
			freshXID()
			req = newMsg(refdec.DHCPDiscover)
			if a := d.pickAddr(o.P, cl, cls, cl.captured); a.IsValid() {
				req.Options = append(req.Options, refdec.DHCPOpt{Code: 50, Data: ip4b(a)})
			}
			cl.offered = netip.Addr{}
		case "discrep":
			req = newMsg(refdec.DHCPDiscover)
		case "sel":
			req = newMsg(refdec.DHCPRequest)
			a := cl.offered
			if o.P != 0 {
				a = d.pickAddr(o.P, cl, cls, cl.captured)
			}
			if !a.IsValid() {
				a = d.pickAddr(1, cl, cls, cl.captured)
			}
			req.Options = append(req.Options, refdec.DHCPOpt{Code: 54, Data: ip4b(nic.HostIP)}, refdec.DHCPOpt{Code: 50, Data: ip4b(a)})
		case "selother":
			req = newMsg(refdec.DHCPRequest)
			if cl.acked.IsValid() && (step+int(d.idx))%3 == 0 {
				// the other server is named, the address is not: no requested address option, ciaddr carries the address the
				// client has (a client re-using its address with the server it selected). Still not ours to acknowledge
				req.Options = append(req.Options, refdec.DHCPOpt{Code: 54, Data: ip4b(nic.RouterIP)})
				req.CI, srcIP = cl.acked, cl.acked
				c.Obs("requests_to_another_server_naming_the_address_in_ciaddr", 1)
			} else {
				req.Options = append(req.Options, refdec.DHCPOpt{Code: 54, Data: ip4b(nic.RouterIP)}, refdec.DHCPOpt{Code: 50, Data: ip4b(d.pickAddr(1, cl, cls, false))})
			}
		case "renew", "reboot":
			freshXID()
			req = newMsg(refdec.DHCPRequest)
			a := cl.acked
			if o.P != 0 {
				a = d.pickAddr(o.P, cl, cls, cl.captured)
			}
			if !a.IsValid() {
				a = d.pickAddr(1, cl, cls, cl.captured)
			}
			if o.K == "renew" {
				req.CI = a
				srcIP = a
				if a != cl.acked && cl.acked.IsValid() && (step+int(d.idx))%2 == 0 {
					// the datagram comes from the address the client really has while ciaddr names another one: it is ciaddr
					// that says which lease is being renewed (RFC 2131 4.3.2)
					srcIP = cl.acked
					c.Obs("renewals_sent_from_another_address_than_ciaddr", 1)
				}
			} else {
				req.Options = append(req.Options, refdec.DHCPOpt{Code: 50, Data: ip4b(a)})
			}
		case "decline":
			req = newMsg(refdec.DHCPDecline)
			a := cl.acked
			if !a.IsValid() {
				a = cl.offered
			}
			if !a.IsValid() {
				a = d.pickAddr(1, cl, cls, cl.captured)
			}
			req.Options = append(req.Options, refdec.DHCPOpt{Code: 54, Data: ip4b(nic.HostIP)})
			switch o.P {
			case 1: // a DECLINE that does not say which address: it names no binding and must end none
				c.Obs("malformed_declines", 1)
			case 2: // requested address option of the wrong length
				req.Options = append(req.Options, refdec.DHCPOpt{Code: 50, Data: ip4b(a)[:3]})
				c.Obs("malformed_declines", 1)
			case 3: // declines an address that is somebody else's
				if x := d.pickAddr(3, cl, cls, cl.captured); x.IsValid() {
					a = x
				}
				req.Options = append(req.Options, refdec.DHCPOpt{Code: 50, Data: ip4b(a)})
				c.Obs("malformed_declines", 1)
			default:
				req.Options = append(req.Options, refdec.DHCPOpt{Code: 50, Data: ip4b(a)})
				cl.acked, cl.offered = netip.Addr{}, netip.Addr{}
			}
		case "release":
			req = newMsg(refdec.DHCPRelease)
			a := cl.acked
			if !a.IsValid() {
				a = d.pickAddr(1, cl, cls, cl.captured)
			}
			req.CI = a
			srcIP = a
			req.Options = append(req.Options, refdec.DHCPOpt{Code: 54, Data: ip4b(nic.HostIP)})
			cl.acked = netip.Addr{}
		case "inform":
			req = newMsg(refdec.DHCPInform)
			req.CI = d.pickAddr(1, cl, cls, cl.captured)
			srcIP = req.CI
		case "cap":
			s.Capture(net.HardwareAddr(cl.mac[:]))
			cl.captured = s.IsCaptured(net.HardwareAddr(cl.mac[:]))
			c.Obs("capture_toggles", 1)
		case "rel":
			s.Release(net.HardwareAddr(cl.mac[:]))
			cl.captured = false
			c.Obs("capture_toggles", 1)
		case "adv":
			time.Sleep(o.D)
			synctest.Wait()
			if o.P != 1 { // P == 1: time passes, the application's next MinuteTicker call has not come yet
				h.MinuteTicker(time.Now())
			} else {
				c.Obs("time_passing_without_tick", 1)
			}
		case "restart":
			// the server goes down and comes back from its lease file: handler only (P even) or the whole process, i.e. a new
			// session with an empty host table and no capture flags (P odd). Offers are forgotten, acknowledged leases are not.
			h.Close()
			routerMoved := false
			if o.P == 3 && (step+int(d.idx))%2 == 0 {
				// ... and meanwhile the router was replaced: the new one sits on an address out of the pool, one that a client
				// holds a lease for if there is such a lease. The changed gateway resets the lease table (by design, like any
				// change of the subnet configuration); the address is the router's now and must not be handed out.
				for _, x := range cls {
					if x.acked.IsValid() && nic.HomeLAN.Contains(x.acked) && x.acked != nic.HostIP {
						nic.RouterIP, routerMoved = x.acked, true
						break
					}
				}
			}
			if o.P%2 == 1 {
				s.Close()
				synctest.Wait()
				rec = mon.NewRecorder(8)
				if s, err = mon.NewSession(rec, nic, 0, 0, 0); err != nil {
					panic("HARNESS BUG: " + err.Error())
				}
				for _, x := range cls {
					capGen[x]++ // the new process starts without capture flags (and loads every lease accordingly)
					capLast[x] = false
				}
			}
			if o.P >= 2 {
				// ... and comes back with another DNS server in its configuration
				d.dns = []netip.Addr{netip.MustParseAddr("9.9.9.9"), netip.MustParseAddr("8.8.4.4"), {}}[(o.P+step)%3]
				dns = d.dns
				if !dns.IsValid() {
					dns = nic.RouterIP
				}
				if dns != m.Cfg.DNS {
					m.Forget() // a changed subnet configuration resets the lease table by design
					for _, x := range cls {
						x.offered, x.acked = netip.Addr{}, netip.Addr{}
					}
				}
				m.Cfg.DNS = dns
				c.Obs("restarts_with_new_dns", 1)
			}
			if routerMoved {
				if !d.dns.IsValid() {
					dns = nic.RouterIP
					m.Cfg.DNS = dns
				}
				m.Cfg.RouterIP = nic.RouterIP
				m.Forget()
				for _, x := range cls {
					x.offered, x.acked = netip.Addr{}, netip.Addr{}
				}
				c.Obs("restarts_with_router_on_a_leased_address", 1)
			}
			if h, err = (dhcp4_spoofer.Config{Mode: d.mode, NetfilterIP: d.net.netfilter, DNSServer: d.dns, LeaseFilename: file}).New(s); err != nil {
				c.ViolP("C18", "lease:restart:construct-error", err.Error(), cs(step))
				d.viol = true
				return
			}
			time.Sleep(3 * time.Second)
			synctest.Wait()
			rec.Take()
			c.Obs("midhistory_restarts", 1)
			restarted = true
		case "foreign":
			// another server's OFFER to the client, seen on port 68
			q := refdec.DHCPMsg{Op: 2, HType: 1, HLen: 6, XID: cl.xid, YI: d.pickAddr(1, cl, cls, false)}
			foreignYI = q.YI
			copy(q.CHAddr[:], cl.mac[:])
			q.Options = []refdec.DHCPOpt{{Code: 53, Data: []byte{2}}, {Code: 54, Data: ip4b(nic.RouterIP)}, {Code: 51, Data: []byte{0, 0, 14, 16}}}
			frameB = dhcpFrame(toMAC(nic.RouterMAC), nic.RouterIP, bc, q, 67, 68, bcastMAC)
		case "crowd":
			// other stations (static configuration) show up on almost every address of a small subnet: the pool is exhausted
			// but for its lowest 0..2 free addresses, and every search of the pool runs into its end
			lan := d.net.nic.HomeLAN
			if o.P%2 == 1 {
				lan = d.net.netfilter.Masked()
			}
			if lan.Bits() >= 28 {
				var free []netip.Addr
				for a := lan.Addr().Next(); lan.Contains(a.Next()); a = a.Next() {
					taken := a == nic.HostIP || a == d.net.gateway() || a == nic.RouterIP || s.FindIP(a) != nil
					for _, x := range cls {
						taken = taken || a == x.acked || a == x.offered
					}
					if !taken {
						free = append(free, a)
					}
				}
				for k, a := range free {
					if k < o.P/2%3 {
						continue
					}
					b4 := a.As4()
					st := refdec.MAC{0x02, 0xdd, 1, 0, 0, b4[3]}
					fb := refdec.Ether(toMAC(nic.HostMAC), st, 0x0800, 0, refdec.IP4(refdec.IP4Hdr{TTL: 64, Proto: 17, Src: a, Dst: nic.HostIP}, refdec.UDP(40001, 40002, nil)))
					if frame, err := s.Parse(rx.load(fb)); err == nil {
						s.Notify(frame)
					}
					rx.scribble()
				}
				c.Obs("dhcp_pools_crowded", 1)
			}
		case "learn":
			a := d.pickAddr(1, cl, cls, o.P%2 == 1)
			frameB = refdec.Ether(toMAC(nic.HostMAC), bystander, 0x0800, 0, refdec.IP4(refdec.IP4Hdr{TTL: 64, Proto: 17, Src: a, Dst: nic.HostIP}, refdec.UDP(40001, 40002, nil)))
		}
		if req != nil {
			dst := bc
			if o.K == "renew" || o.K == "release" {
				dst = nic.HostIP
				if o.K == "renew" && (step+int(d.idx))%3 == 0 {
					// REBINDING: the same request, broadcast because the client got no answer to its unicast renewals
					dst = bc
					c.Obs("rebinding_requests", 1)
				}
			}
			frameB = dhcpFrame(cl.mac, srcIP, dst, *req, 68, 67, bcastMAC)
			if restarted && (o.K == "renew" || o.K == "reboot") {
				a := req.CI
				if o.K == "reboot" {
					a, _ = req.OptIP4(50)
				}
				if holder, capt, ok := m.HeldInfo(a); ok && holder == req.ClientID() && capt == cl.captured && ackGen[cl] == capGen[cl] {
					mustAck = fmt.Sprintf("%v by client %x", a, holder)
				}
			}
			m.Request(*req, srcIP, cl.captured)
		}
		if c.Only >= 0 {
			fmt.Fprintf(os.Stderr, "step %d %s client=%x captured=%v(session says %v) offered=%v acked=%v", step, o, cl.mac[:], cl.captured, s.IsCaptured(net.HardwareAddr(cl.mac[:])), cl.offered, cl.acked)
			if req != nil {
				rip, _ := req.OptIP4(50)
				sid, _ := req.OptIP4(54)
				fmt.Fprintf(os.Stderr, " | request type=%d xid=%x ciaddr=%v reqip=%v serverid=%v src=%v", req.Type(), req.XID, req.CI, rip, sid, srcIP)
			}
			fmt.Fprintln(os.Stderr)
		}
		if frameB != nil {
			pi := c.Guard("C08", func() any { return cs(step) }, func() {
				frame, err := s.Parse(rx.load(frameB))
				if err != nil {
					panic("HARNESS BUG: generated frame rejected by Parse: " + err.Error())
				}
				if frame.PayloadID == packet.PayloadDHCP4 {
					h.ProcessPacket(frame)
				}
				s.Notify(frame)
			})
			if pi != nil {
				d.viol = true
				return
			}
			rx.scribble() // the next ReadFrom overwrites the receive buffer
		}
		synctest.Wait()
		for len(s.C) > 0 {
			<-s.C
		}
		frames := rec.Take()
		replies := 0
		for _, f := range frames {
			dec := refdec.Decode(f.Data)
			path := "dhcp-client-side"
			isReply := false
			var rep refdec.DHCPMsg
			if !dec.Err && dec.OffUDP != 0 && dec.DstPort == 68 {
				if r, err := refdec.ParseDHCP(f.Data[dec.OffUDP+8:]); err == nil && r.Op == 2 {
					isReply, rep, path = true, r, "dhcp-reply"
				}
			}
			if dec.PayloadID == refdec.PARP {
				path = "session-probe"
			}
			txObserve(c, nic, path, []mon.TxFrame{f}, func() any { return cs(step) })
			if o.K == "foreign" && foreignYI.IsValid() && !dec.Err && dec.OffUDP != 0 && dec.DstPort == 67 {
				// the DECLINE this host forges towards the other server in answer to its OFFER: it must name what it declines
				if dm, err := refdec.ParseDHCP(f.Data[dec.OffUDP+8:]); err == nil && dm.Op == 1 && dm.Type() == refdec.DHCPDecline {
					rq, _ := dm.OptIP4(50)
					sid, _ := dm.OptIP4(54)
					if rq != foreignYI || sid != nic.RouterIP || !bytes.Equal(dm.CHAddr[:6], cl.mac[:]) || dm.XID != cl.xid {
						c.ViolP("C07", "dhcp:forged-decline-fields", fmt.Sprintf("forged DECLINE for the foreign OFFER of %v to %x (xid %x, server %v): requested address %v, server identifier %v, chaddr %x, xid %x",
							foreignYI, cl.mac[:], cl.xid[:], nic.RouterIP, rq, sid, dm.CHAddr[:6], dm.XID[:]), cs(step))
						d.viol = true
					}
					c.Obs("forged_declines_checked", 1)
				}
			}
			if !isReply || req == nil {
				continue
			}
			replies++
			// where the reply goes: broadcast, or unicast to the client's hardware address and to an address the transaction
			// names (the request's source address / ciaddr, or the address being handed out) - never anywhere else
			{
				bcIP := netip.MustParseAddr("255.255.255.255")
				okMAC := dec.DstMAC == bcastMAC || dec.DstMAC == cl.mac
				okIP := dec.DstIP == bcIP || (srcIP.IsValid() && !srcIP.IsUnspecified() && dec.DstIP == srcIP) || (req.CI.IsValid() && !req.CI.IsUnspecified() && dec.DstIP == req.CI) ||
					(rep.YI.IsValid() && !rep.YI.IsUnspecified() && dec.DstIP == rep.YI)
				if !okMAC || !okIP || (dec.DstMAC == bcastMAC) != (dec.DstIP == bcIP) {
					for _, pr := range []string{"C07", "C12"} {
						c.ViolP(pr, "dhcp:reply-destination", fmt.Sprintf("reply type %d to the %s of client %x (source %v, ciaddr %v) is addressed to %x / %v", rep.Type(), o.K, cl.mac[:], srcIP, req.CI, dec.DstMAC[:], dec.DstIP), cs(step))
					}
					d.viol = true
				}
			}
			if c.Only >= 0 {
				lt, _ := rep.Opt(51)
				fmt.Fprintf(os.Stderr, "   reply type=%d yiaddr=%v xid=%x opts: mask=%v router=%v dns=%v sid=%v lease=%v\n", rep.Type(), rep.YI, rep.XID, first(rep.Opt(1)), first(rep.Opt(3)), first(rep.Opt(6)), first(rep.Opt(54)), lt)
			}
			for _, fd := range m.Reply(rep, tracked) {
				c.ViolP(fd.Prop, fd.Key, fd.Detail+"\n reply: "+wk.Hex(f.Data[dec.OffUDP+8:]), cs(step))
				d.viol = true
			}
			switch rep.Type() {
			case refdec.DHCPOffer:
				cl.offered = rep.YI
			case refdec.DHCPAck:
				cl.acked = rep.YI
				ackedNow = true
				ackGen[cl] = capGen[cl]
				d.sawAck = true
				if d.afterAck != nil {
					d.afterAck(step, file, m)
				}
			case refdec.DHCPNak:
				cl.acked = netip.Addr{}
			}
		}
		seeCaps()
		if req != nil && replies == 0 {
			m.SilentStep()
		}
		// C18: a server that came back from its lease file keeps acknowledging the renewals of bindings that are in force
		// (same client, same address, client still in the capture state it was acknowledged under)
		if mustAck != "" && !ackedNow {
			c.ViolP("C18", "lease:restart:renewal-refused", fmt.Sprintf("after a restart the %s of %s, acknowledged and in force, was answered with %d replies and no ACK", o.K, mustAck, replies), cs(step))
			d.viol = true
		}
		if req != nil && replies > 1 {
			c.ViolP("C12", "dhcp:multiple-replies", fmt.Sprintf("%d replies to one request", replies), cs(step))
		}
		if d.viol {
			break
		}
	}
	if d.restart && !d.viol {
		d.restartProbe(s, rec, file, m, h, cls, cs)
	}
	if d.net.gateway() != nic.HostIP {
		c.Obs("histories_with_a_netfilter_gateway_other_than_the_host_address", 1)
	}
	c.Obs("dhcp_acks", int64(m.Acks))
	c.Obs("dhcp_offers", int64(m.Offers))
	c.Obs("dhcp_naks", int64(m.Naks))
	c.Obs("dhcp_silent", int64(m.Silent))
	c.Obs("dhcp_expiries", int64(m.Expiries))
	if d.keepFile != "" {
		if b, err := os.ReadFile(file); err == nil {
			os.WriteFile(d.keepFile, b, 0o644)
		}
	}
}

var dhcpAlphabet = func() []dop {
	var a []dop
	for c := 0; c < 2; c++ {
		a = append(a, dop{K: "disc", C: c, P: 0}, dop{K: "disc", C: c, P: 2}, dop{K: "sel", C: c, P: 0}, dop{K: "sel", C: c, P: 3}, dop{K: "renew", C: c, P: 0}, dop{K: "reboot", C: c, P: 0})
	}
	return append(a, dop{K: "cap", C: 0}, dop{K: "adv", D: 4*time.Hour + time.Minute}, dop{K: "restart", P: 1})
}()

func randDop(r *rand.Rand) dop {
	c := r.Intn(4) // client 3 exists in every third history (else it stands for client 0)
	switch k := r.Intn(26); {
	case k >= 24:
		return dop{K: "restart", P: r.Intn(4)}
	case k < 5:
		return dop{K: "disc", C: c, P: []int{0, 0, 1, 2, 2, 3, 3, 4, 5, 6, 7, 8, 9}[r.Intn(13)]}
	case k < 6:
		return dop{K: "discrep", C: c, P: r.Intn(2)}
	case k < 10:
		return dop{K: "sel", C: c, P: []int{0, 0, 0, 1, 2, 3, 9}[r.Intn(7)]}
	case k < 11:
		return dop{K: "selother", C: c, P: r.Intn(2)}
	case k < 13:
		return dop{K: "renew", C: c, P: []int{0, 0, 1, 3, 8}[r.Intn(5)]}
	case k < 15:
		return dop{K: "reboot", C: c, P: []int{0, 0, 1, 3, 5, 8}[r.Intn(6)]}
	case k < 16:
		return dop{K: "decline", C: c, P: []int{0, 0, 0, 1, 2, 3}[r.Intn(6)]}
	case k < 17:
		return dop{K: "release", C: c}
	case k < 19:
		return dop{K: []string{"cap", "rel"}[r.Intn(2)], C: c}
	case k < 21:
		return dop{K: "adv", P: []int{0, 0, 1}[r.Intn(3)], D: []time.Duration{5 * time.Second, time.Minute, 2*time.Hour + time.Minute, 4*time.Hour + time.Minute}[r.Intn(4)]}
	case k < 22:
		return dop{K: "foreign", C: c}
	case k < 23:
		if r.Intn(3) == 0 {
			return dop{K: "crowd", C: c, P: r.Intn(6)}
		}
		return dop{K: "learn", C: c, P: r.Intn(2)}
	}
	return dop{K: "inform", C: c}
}

func dhcpShape(ops []dop) string {
	cnt := map[string]int{}
	for _, o := range ops {
		cnt[o.K]++
	}
	ks := []string{}
	for k, n := range cnt {
		if n > 2 {
			n = 2
		}
		ks = append(ks, fmt.Sprintf("%s%d", k, n))
	}
	sort.Strings(ks)
	return strings.Join(ks, ",")
}

func runDHCPHistory(c *wk.Ctx, d *dhcpRun) {
	runBubble(c, d.idx, func() { d.history() })
}

func runDHCP(c *wk.Ctx) {
	if c.Shard == 0 {
		if err := refdec.SelfTest(); err != nil {
			fmt.Println("SELFTEST FAILED:", err)
			panic("SELFTEST FAILED")
		}
	}
	nets := dhcpNets()
	modes := []dhcp4_spoofer.Mode{dhcp4_spoofer.ModePrimaryServer, dhcp4_spoofer.ModeSecondaryServer, dhcp4_spoofer.ModeSecondaryServerNice}
	real := time.Now()
	depth := int(c.N(3, 5))
	nExh := int64(1)
	for i := 0; i < depth; i++ {
		nExh *= int64(len(dhcpAlphabet))
	}
	// as a sub-stream of C07 (every frame the DHCP server sends goes through the transmit rules) the case indexes are moved
	// out of the way of that check's own
	base := int64(0)
	if c.Prop == "C07" {
		base = 3_000_000_000
	}
	run := func(idx int64, ops []dop, kind string, r *rand.Rand) {
		c.Begin(base+idx, "dhcp-history", nil)
		c.Eval()
		d := &dhcpRun{c: c, idx: idx, base: base, ops: ops, net: dhcpNetFor(nets, idx), mode: modes[int(idx/3)%len(modes)], real: real}
		if idx%2 == 0 {
			d.dns = netip.MustParseAddr("9.9.9.9")
		}
		d.attack = idx%16 == 5
		runDHCPHistory(c, d)
		if d.sawAck && !d.viol {
			c.Class(kind + ":" + dhcpShape(ops) + ":" + d.net.name)
		}
		if c.WantSample() && d.sawAck && len(ops) <= 8 {
			var os []string
			for _, o := range ops {
				os = append(os, o.String())
			}
			c.Sample(map[string]any{"history": os, "net": d.net.name, "mode": int(d.mode)})
		}
	}
	for i := int64(0); i < nExh; i++ {
		idx := i + 1
		if !c.Mine(base + idx) {
			continue
		}
		ops := make([]dop, depth)
		v := i
		for k := depth - 1; k >= 0; k-- {
			ops[k] = dhcpAlphabet[v%int64(len(dhcpAlphabet))]
			v /= int64(len(dhcpAlphabet))
		}
		run(idx, ops, "exhaustive", nil)
	}
	c.ObsMax("exhaustive_depth", int64(depth))
	nRand := c.N(5_000, 300_000)
	for i := int64(0); i < nRand; i++ {
		idx := 1_000_000_000 + i
		if !c.Mine(base + idx) {
			continue
		}
		r := c.Rand("dhcp", i)
		ops := make([]dop, 30)
		var prefix []dop
		if r.Intn(4) == 0 {
			// a scripted beginning that brings the server into a state random walks rarely reach, then a random continuation
			cl := r.Intn(3)
			ack := []dop{{K: "disc", C: cl}, {K: "sel", C: cl}}
			age := dop{K: "adv", D: 2*time.Hour + time.Minute}
			switch r.Intn(7) {
			case 6:
				// client 0 holds a lease, the rest of the pool fills up with other stations, then the last client (on some
				// histories client 0's device under its other identity) asks while the pool is exhausted, twice, and selects
				prefix = []dop{{K: "disc", C: 0}, {K: "sel", C: 0}, {K: "crowd", C: 0, P: 0}, {K: "disc", C: -1}, {K: "disc", C: -1}, {K: "sel", C: -1}, {K: "reboot", C: 0}, {K: "renew", C: 0}}
			case 4:
				// two clients are offered the same address (an offer reserves nothing), one takes it, goes back to DISCOVER,
				// the other takes it on its old offer, the first asks for it again
				o2 := (cl + 1) % 3
				prefix = []dop{{K: "disc", C: o2}, {K: "disc", C: cl, P: 2}, {K: "sel", C: cl}, {K: "disc", C: cl, P: 2}, {K: "sel", C: o2}, {K: "sel", C: cl}}
			case 5:
				// an address that had earlier holders whose leases ran out, then a new holder who releases it and asks for it again
				o2 := (cl + 1) % 3
				prefix = []dop{{K: "disc", C: cl, P: 1}, {K: "sel", C: cl}, age, age, {K: "disc", C: o2, P: 1}, {K: "sel", C: o2}, {K: "release", C: o2}, {K: "reboot", C: o2, P: 1}, {K: "renew", C: o2, P: 1}}
			case 0: // lease renewed late in its life, server restarted, clock moved beyond the original expiry
				prefix = append(ack, age, dop{K: "renew", C: cl}, dop{K: "restart", P: r.Intn(4)}, age)
			case 1: // two clients with acknowledged leases
				prefix = append(ack, dop{K: "disc", C: (cl + 1) % 3}, dop{K: "sel", C: (cl + 1) % 3})
			case 2: // lease, then the client is captured (its subnet changes under it)
				prefix = append(ack, dop{K: "cap", C: cl}, dop{K: "renew", C: cl})
			default: // lease, long silence (the session forgets the host), renewed, restart
				prefix = append(ack, age, dop{K: "reboot", C: cl}, age, dop{K: "restart", P: 1})
			}
		}
		for k := range ops {
			if k < len(prefix) {
				ops[k] = prefix[k]
				continue
			}
			ops[k] = randDop(r)
			// keep transactions going: a DISCOVER is usually followed by the matching selecting REQUEST, an ACK by a renewal
			if k > 0 && r.Intn(10) < 6 {
				switch prev := ops[k-1]; prev.K {
				case "disc", "discrep":
					ops[k] = dop{K: "sel", C: prev.C, P: 0}
				case "sel":
					if prev.P == 0 && r.Intn(2) == 0 {
						ops[k] = dop{K: []string{"renew", "reboot"}[r.Intn(2)], C: prev.C, P: 0}
					}
				}
			}
		}
		run(idx, ops, "random", r)
	}
}

func first(b []byte, ok bool) []byte { return b }
