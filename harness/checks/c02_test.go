package checks

import (
	"bytes"
	"fmt"
	"math/rand"
	"net/netip"
	"unsafe"

	"github.com/irai/packet"

	"verif/harness/gen"
	"verif/harness/mon"
	"verif/harness/refdec"
	"verif/harness/wk"
)

func init() { register("C02", runC02) }

type c02State struct {
	c    *wk.Ctx
	s    *packet.Session
	n    int
	idx  int64
	env  gen.Env
	rx   *rxBuf
}

func (st *c02State) session() *packet.Session {
	if st.s == nil || st.n >= 2000 {
		if st.s != nil {
			go st.s.Close()
		}
		s, err := mon.NewSession(mon.NewRecorder(1), mon.DefaultNIC(), 0, 0, 0)
		if err != nil {
			panic("HARNESS BUG: " + err.Error())
		}
		st.s, st.n = s, 0
	}
	st.n++
	return st.s
}

func offOf(base, b []byte) int {
	if b == nil {
		return 0
	}
	if len(b) == 0 {
		return -2
	}
	return int(uintptr(unsafe.Pointer(unsafe.SliceData(b))) - uintptr(unsafe.Pointer(unsafe.SliceData(base))))
}

// compareParse is the C02 differential for one frame.
func (st *c02State) compareParse(f gen.Frame) {
	c := st.c
	st.idx++
	if !c.Mine(st.idx) {
		return
	}
	c.Begin(st.idx, "Parse", f.B)
	c.Eval()
	// every second frame is parsed out of the read loop's receive buffer (spare capacity = what earlier, longer frames left
	// there), the others out of a slice of exactly their length
	in := append(make([]byte, 0, len(f.B)), f.B...)
	if st.idx%2 == 0 && len(f.B) <= packet.EthMaxSize {
		if st.rx == nil {
			st.rx = newRx()
		}
		in = st.rx.load(f.B)
	}
	cs := func() any {
		return map[string]any{"index": st.idx, "input_hex": wk.Hex(f.B), "kind": f.Kind, "mutation": f.Mut, "parsed_from_receive_buffer": cap(in) > len(in)}
	}
	ref := refdec.Decode(in)
	var frame packet.Frame
	var err error
	s := st.session()
	if pi := c.Guard("C01", cs, func() { frame, err = s.Parse(in) }); pi != nil {
		return // C01's business
	}
	cls := fmt.Sprintf("%s|%s|pad=%v|mut=%s|referr=%v(%s)", f.Kind, lenBucket(len(f.B)), f.Pad > 0, f.Mut, ref.Err, ref.ErrLayer)
	viol := func(field, detail string) {
		c.Viol("diff:parse:"+field, fmt.Sprintf("%s (frame kind %s, reference: %+v)", detail, f.Kind, ref), cs())
	}
	if ref.DontCare {
		c.Obs("dontcare_zone", 1)
	} else if (err != nil) != ref.Err {
		layer := ref.ErrLayer
		if layer == "" {
			layer = "spurious:" + refPayloadName(ref.PayloadID)
		}
		viol("error:"+layer, fmt.Sprintf("Parse error=%v but the reference decoder says error=%v", err, ref.Err))
		return
	}
	if err != nil || ref.Err {
		c.Class(cls)
		return
	}
	bad := false
	chk := func(ok bool, field, detail string) {
		if !ok && !bad {
			bad = true
			viol(field, detail)
		}
	}
	pi := c.Guard("C01", cs, func() {
		chk(int(frame.PayloadID) == ref.PayloadID, "payloadid:"+refPayloadName(ref.PayloadID), fmt.Sprintf("PayloadID=%v want %s", frame.PayloadID, refPayloadName(ref.PayloadID)))
		chk(bytes.Equal(frame.SrcAddr.MAC, ref.SrcMAC[:]) && bytes.Equal(frame.DstAddr.MAC, ref.DstMAC[:]), "mac", "src/dst MAC differ")
		if ref.SrcIP.IsValid() {
			chk(frame.SrcAddr.IP == ref.SrcIP && frame.DstAddr.IP == ref.DstIP, "ip", fmt.Sprintf("src/dst IP %v/%v want %v/%v", frame.SrcAddr.IP, frame.DstAddr.IP, ref.SrcIP, ref.DstIP))
		} else {
			chk(!frame.SrcAddr.IP.IsValid() && !frame.DstAddr.IP.IsValid(), "ip", "IP set on a frame without IP layer")
		}
		chk(frame.SrcAddr.Port == ref.SrcPort && frame.DstAddr.Port == ref.DstPort, "port", fmt.Sprintf("ports %d/%d want %d/%d", frame.SrcAddr.Port, frame.DstAddr.Port, ref.SrcPort, ref.DstPort))
		chk(offOf(in, frame.IP4()) == ref.OffIP4, "off:ip4", fmt.Sprintf("IP4() at %d want %d", offOf(in, frame.IP4()), ref.OffIP4))
		chk(offOf(in, frame.IP6()) == ref.OffIP6, "off:ip6", fmt.Sprintf("IP6() at %d want %d", offOf(in, frame.IP6()), ref.OffIP6))
		chk(offOf(in, frame.UDP()) == ref.OffUDP, "off:udp", fmt.Sprintf("UDP() at %d want %d", offOf(in, frame.UDP()), ref.OffUDP))
		chk(offOf(in, frame.TCP()) == ref.OffTCP, "off:tcp", fmt.Sprintf("TCP() at %d want %d", offOf(in, frame.TCP()), ref.OffTCP))
		chk(frame.HasIP() == (ref.OffIP4 != 0 || ref.OffIP6 != 0), "hasip", "HasIP")
		p := frame.Payload()
		po := offOf(in, p)
		if po == -2 { // empty payload: position = end of the packet
			po = ref.End
			chk(ref.PayloadOK(ref.End), "off:payload", fmt.Sprintf("Payload() empty but reference payload starts at %v, packet ends at %d of %d", ref.OffPayload, ref.End, len(in)))
		} else {
			chk(ref.PayloadOK(po), "off:payload:"+refPayloadName(ref.PayloadID), fmt.Sprintf("Payload() at %d want one of %v", po, ref.OffPayload))
			chk(po+len(p) == ref.End, "payload-end", fmt.Sprintf("Payload() ends at %d, the packet ends at %d (frame has %d bytes)", po+len(p), ref.End, len(in)))
		}
		if ref.End < len(in) {
			c.Obs("frames_with_link_padding", 1)
		}
	})
	if pi == nil && !bad {
		c.Class(cls)
		if c.WantSample() && len(in) < 90 && ref.PayloadID > refdec.PIP6 {
			c.Sample(map[string]any{"frame_hex": wk.Hex(in), "kind": f.Kind, "payloadID": frame.PayloadID.String(), "payload_off": offOf(in, frame.Payload())})
		}
	}
}

var refNames = []string{"?", "Ether", "8023", "ARP", "IP4", "IP6", "ICMP4", "ICMP6", "UDP", "TCP", "DHCP4", "DHCP6", "DNS", "MDNS", "SSL", "NTP", "SSDP", "WSDP", "NBNS", "Plex",
	"Ubiquiti", "LLMNR", "IGMP", "Pause", "RRCP", "LLDP", "80211r", "IEEE1905", "Sonos", "880a"}

func refPayloadName(id int) string {
	if id >= 0 && id < len(refNames) {
		return refNames[id]
	}
	return fmt.Sprint(id)
}

func runC02(c *wk.Ctx) {
	if c.Shard == 0 {
		if err := refdec.SelfTest(); err != nil {
			fmt.Println("SELFTEST FAILED:", err)
			panic("SELFTEST FAILED")
		}
	}
	st := &c02State{c: c, env: gen.DefaultEnv()}
	// (A1) cross product of UDP port classes in both families, every source class
	for rep := int64(0); rep < c.N(2, 40); rep++ {
		for si := range gen.PortClasses {
			for di := range gen.PortClasses {
				for fam := 0; fam < 2; fam++ {
					r := c.Rand("c02ports", rep*10000+int64(si*100+di*2+fam))
					st.compareParse(portFrame(r, st.env, si, di, fam == 1))
				}
			}
		}
	}
	// (A2) structural frames x mutations
	n := c.N(200_000, 10_000_000)
	for i := int64(0); i < n; i++ {
		r := c.Rand("c02s", i)
		f := gen.Structural(r, st.env)
		st.compareParse(gen.Mutate(r, f, gen.Mutations[i%int64(len(gen.Mutations))]))
	}
	// (A3) truncation at every offset
	n3 := c.N(800, 40_000)
	for i := int64(0); i < n3; i++ {
		r := c.Rand("c02t", i)
		f := gen.Structural(r, st.env)
		if len(f.B) > 300 {
			continue
		}
		for cut := 0; cut <= len(f.B); cut++ {
			g := f
			g.B = f.B[:cut]
			g.Mut = "truncate@every"
			st.compareParse(g)
		}
	}
	// (B) getter tables
	nb := c.N(8_000, 400_000)
	for i := int64(0); i < nb; i++ {
		st.idx++
		if !c.Mine(st.idx) {
			continue
		}
		r := c.Rand("c02g", i)
		c.Begin(st.idx, "getters", nil)
		c02Getters(c, r, st.env, st.idx)
	}
}

func portFrame(r *rand.Rand, e gen.Env, si, di int, v6 bool) gen.Frame {
	sp, dp := gen.PortClasses[si].Port, gen.PortClasses[di].Port
	if gen.PortClasses[si].Name == "other" {
		sp = 40001
	}
	if gen.PortClasses[di].Name == "other" {
		dp = 40002
	}
	payload := gen.RandBytes(r, []int{0, 1, 20, 300}[r.Intn(4)])
	mac := e.Clients[r.Intn(len(e.Clients))]
	f := gen.Frame{SrcMAC: mac, SrcKind: "client", L4: "udp"}
	if v6 {
		src, _ := e.IP6(r)
		dst, _ := e.IP6(r)
		f.B = refdec.Ether(e.HostMAC, mac, 0x86dd, 0, refdec.IP6(refdec.IP6Hdr{Next: 17, Hop: 64, Src: src, Dst: dst, PayloadLen: -1}, refdec.UDP(sp, dp, payload)))
		f.Kind = fmt.Sprintf("ports:ip6/udp(%s>%s)", gen.PortClasses[si].Name, gen.PortClasses[di].Name)
	} else {
		f.B = refdec.Ether(e.HostMAC, mac, 0x0800, 0, refdec.IP4(refdec.IP4Hdr{TTL: 64, Proto: 17, Src: e.LANIP(r), Dst: e.RouterIP}, refdec.UDP(sp, dp, payload)))
		f.Kind = fmt.Sprintf("ports:ip4/udp(%s>%s)", gen.PortClasses[si].Name, gen.PortClasses[di].Name)
	}
	if r.Intn(3) == 0 && !v6 {
		f.Pad = 1 + r.Intn(10)
		f.B = append(f.B, make([]byte, f.Pad)...)
	}
	return f
}

// getter comparison helper
type gcmp struct {
	c    *wk.Ctx
	view string
	in   []byte
	idx  int64
	n    int
}

func (g *gcmp) eq(getter string, got, want any) {
	g.n++
	ok := false
	switch w := want.(type) {
	case []byte:
		gb, _ := got.([]byte)
		ok = bytes.Equal(gb, w)
	default:
		ok = got == want
	}
	if !ok {
		g.c.Viol("diff:"+g.view+"."+getter, fmt.Sprintf("%s.%s() = %v, value at the RFC position is %v", g.view, getter, got, want),
			map[string]any{"index": g.idx, "view": g.view, "input_hex": wk.Hex(g.in)})
	}
}

func rb(r *rand.Rand) uint8 { return []uint8{0, 1, 0x7f, 0x80, 0xff, uint8(r.Intn(256))}[r.Intn(6)] }
func rw(r *rand.Rand) uint16 {
	return []uint16{0, 1, 0x00ff, 0xff00, 0x8000, 0xffff, uint16(r.Intn(65536))}[r.Intn(7)]
}
func rd(r *rand.Rand) uint32 {
	return []uint32{0, 1, 0xffffffff, 0x80000000, r.Uint32()}[r.Intn(5)]
}

func c02Getters(c *wk.Ctx, r *rand.Rand, e gen.Env, idx int64) {
	c.Eval()
	which := int(idx % 15)
	g := &gcmp{c: c, idx: idx}
	defer func() {
		if rec := recover(); rec != nil {
			pi := wk.Capture(rec)
			c.ViolP("C01", pi.Key(), pi.Value+"\n"+pi.Stack, map[string]any{"index": idx, "view": g.view, "input_hex": wk.Hex(g.in)})
			return
		}
		c.Class(fmt.Sprintf("getters:%s", g.view))
		c.Obs("getter_comparisons", int64(g.n))
		c.Obs("getters_compared:"+g.view, int64(g.n))
	}()
	a4 := func() netip.Addr { a, _ := e.IP4(r); return a }
	a6 := func() netip.Addr { a, _ := e.IP6(r); return a }
	var mac refdec.MAC
	r.Read(mac[:])
	switch which {
	case 0: // IPv4
		h := refdec.IP4Hdr{TOS: rb(r), ID: rw(r), Flags: uint8(r.Intn(8)), FragOff: rw(r) & 0x1fff, TTL: rb(r), Proto: rb(r), Src: a4(), Dst: a4(), Options: make([]byte, 4*r.Intn(11))}
		r.Read(h.Options)
		pl := gen.RandBytes(r, r.Intn(60))
		b := refdec.IP4(h, pl)
		pad := r.Intn(3) * 7
		b = append(b, make([]byte, pad)...) // bytes after TotalLen must not be part of Payload()
		g.view, g.in = "IP4", b
		p := packet.IP4(b)
		if err := p.IsValid(); err != nil {
			g.eq("IsValid", err.Error(), "nil")
			return
		}
		g.eq("IHL", p.IHL(), 20+len(h.Options))
		g.eq("Version", p.Version(), 4)
		g.eq("Protocol", p.Protocol(), h.Proto)
		g.eq("TOS", p.TOS(), int(h.TOS))
		g.eq("ID", p.ID(), int(h.ID))
		g.eq("Flags", p.Flags(), h.Flags<<5)
		g.eq("FlagDontFragment", p.FlagDontFragment(), h.Flags&2 != 0)
		g.eq("FlagMoreFragments", p.FlagMoreFragments(), h.Flags&1 != 0)
		g.eq("Fragment", p.Fragment(), h.FragOff)
		g.eq("TTL", p.TTL(), int(h.TTL))
		g.eq("Checksum", p.Checksum(), int(b[10])<<8|int(b[11]))
		g.eq("Src", p.Src(), h.Src)
		g.eq("Dst", p.Dst(), h.Dst)
		g.eq("TotalLen", p.TotalLen(), len(b)-pad)
		g.eq("Payload", p.Payload(), pl)
	case 1: // IPv6
		h := refdec.IP6Hdr{Class: rb(r), Flow: rd(r) & 0xfffff, Next: rb(r), Hop: rb(r), Src: a6(), Dst: a6(), PayloadLen: -1}
		pl := gen.RandBytes(r, r.Intn(60))
		b := refdec.IP6(h, pl)
		g.view, g.in = "IP6", b
		p := packet.IP6(b)
		if err := p.IsValid(); err != nil {
			g.eq("IsValid", err.Error(), "nil")
			return
		}
		g.eq("Version", p.Version(), 6)
		g.eq("TrafficClass", p.TrafficClass(), int(h.Class))
		g.eq("FlowLabel", p.FlowLabel(), int(h.Flow))
		g.eq("PayloadLen", p.PayloadLen(), uint16(len(pl)))
		g.eq("NextHeader", p.NextHeader(), h.Next)
		g.eq("HopLimit", p.HopLimit(), h.Hop)
		g.eq("Src", p.Src(), h.Src)
		g.eq("Dst", p.Dst(), h.Dst)
		g.eq("HeaderLen", p.HeaderLen(), 40)
		g.eq("Payload", p.Payload(), pl)
	case 2: // UDP
		sp, dp := rw(r), rw(r)
		pl := gen.RandBytes(r, r.Intn(60))
		b := refdec.UDP(sp, dp, pl)
		b[6], b[7] = rb(r), rb(r)
		g.view, g.in = "UDP", b
		p := packet.UDP(b)
		g.eq("SrcPort", p.SrcPort(), sp)
		g.eq("DstPort", p.DstPort(), dp)
		g.eq("Len", p.Len(), uint16(8+len(pl)))
		g.eq("Checksum", p.Checksum(), uint16(b[6])<<8|uint16(b[7]))
		g.eq("HeaderLen", p.HeaderLen(), 8)
		g.eq("Payload", p.Payload(), pl)
	case 3: // TCP
		h := refdec.TCPHdr{Src: rw(r), Dst: rw(r), Seq: rd(r), Ack: rd(r), Flags: uint16(r.Intn(4096)), Window: rw(r), Csum: rw(r), Urgent: rw(r), Options: make([]byte, 4*r.Intn(11))}
		r.Read(h.Options)
		pl := gen.RandBytes(r, r.Intn(60))
		b := refdec.TCP(h, pl)
		g.view, g.in = "TCP", b
		p := packet.TCP(b)
		if err := p.IsValid(); err != nil {
			g.eq("IsValid", err.Error(), "nil")
			return
		}
		g.eq("SrcPort", p.SrcPort(), h.Src)
		g.eq("DstPort", p.DstPort(), h.Dst)
		g.eq("Seq", p.Seq(), h.Seq)
		g.eq("Ack", p.Ack(), h.Ack)
		g.eq("HeaderLen", p.HeaderLen(), 20+len(h.Options))
		g.eq("NS", p.NS(), h.Flags&0x100 != 0)
		g.eq("CWR", p.CWR(), h.Flags&0x80 != 0)
		g.eq("ECE", p.ECE(), h.Flags&0x40 != 0)
		g.eq("URG", p.URG(), h.Flags&0x20 != 0)
		g.eq("ACK", p.ACK(), h.Flags&0x10 != 0)
		g.eq("PSH", p.PSH(), h.Flags&0x08 != 0)
		g.eq("RST", p.RST(), h.Flags&0x04 != 0)
		g.eq("SYN", p.SYN(), h.Flags&0x02 != 0)
		g.eq("FIN", p.FIN(), h.Flags&0x01 != 0)
		g.eq("Window", p.Window(), h.Window)
		g.eq("Checksum", p.Checksum(), h.Csum)
		g.eq("Urgent", p.Urgent(), h.Urgent)
		g.eq("Payload", p.Payload(), pl)
	case 4: // ARP
		a := refdec.ARPPkt{HType: 1, PType: 0x0800, HLen: 6, PLen: 4, Op: rw(r), SPA: a4(), TPA: a4()}
		r.Read(a.SHA[:])
		r.Read(a.THA[:])
		b := refdec.ARP(a)
		g.view, g.in = "ARP", b
		p := packet.ARP(b)
		if err := p.IsValid(); err != nil {
			g.eq("IsValid", err.Error(), "nil")
			return
		}
		g.eq("HType", p.HType(), uint16(1))
		g.eq("Proto", p.Proto(), uint16(0x0800))
		g.eq("HLen", p.HLen(), uint8(6))
		g.eq("PLen", p.PLen(), uint8(4))
		g.eq("Operation", p.Operation(), a.Op)
		g.eq("SrcMAC", []byte(p.SrcMAC()), a.SHA[:])
		g.eq("SrcIP", p.SrcIP(), a.SPA)
		g.eq("DstMAC", []byte(p.DstMAC()), a.THA[:])
		g.eq("DstIP", p.DstIP(), a.TPA)
	case 5: // ICMP + echo
		id, seq := rw(r), rw(r)
		data := gen.RandBytes(r, r.Intn(40))
		eb := refdec.EchoBody(id, seq, data)
		var rest [4]byte
		copy(rest[:], eb)
		typ, code := rb(r), rb(r)
		b := refdec.ICMP4(typ, code, rest, data)
		g.view, g.in = "ICMP", b
		p := packet.ICMP(b)
		g.eq("Type", p.Type(), typ)
		g.eq("Code", p.Code(), code)
		g.eq("Checksum", p.Checksum(), uint16(b[2])<<8|uint16(b[3]))
		g.eq("RestOfHeader", p.RestOfHeader(), rest[:])
		g.eq("Payload", append([]byte{}, p.Payload()...), append([]byte{}, data...))
		g.view = "ICMPEcho"
		q := packet.ICMPEcho(b)
		g.eq("Type", q.Type(), typ)
		g.eq("Code", q.Code(), code)
		g.eq("EchoID", q.EchoID(), id)
		g.eq("EchoSeq", q.EchoSeq(), seq)
		g.eq("EchoData", append([]byte{}, q.EchoData()...), append([]byte{}, data...))
	case 6: // DHCP fixed fields and options
		m := gen.DHCP(r, e, gen.DHCPKinds[r.Intn(11)], mac)
		m.Hops, m.Secs, m.Flags = rb(r), rw(r), rw(r)
		m.SI, m.GI, m.YI, m.CI = a4(), a4(), a4(), a4()
		copy(m.SName[:], "server-name")
		copy(m.File[:], "boot/file.img")
		// unique option codes so that the map is comparable
		seen := map[byte]bool{}
		var opts []refdec.DHCPOpt
		for _, o := range m.Options {
			if o.Code != 0 && !seen[o.Code] {
				seen[o.Code] = true
				opts = append(opts, o)
			}
		}
		m.Options = opts
		b := m.Bytes()
		g.view, g.in = "DHCP4", b
		p := packet.DHCP4(b)
		if err := p.IsValid(); err != nil {
			g.eq("IsValid", err.Error(), "nil")
			return
		}
		g.eq("OpCode", byte(p.OpCode()), m.Op)
		g.eq("HType", p.HType(), m.HType)
		g.eq("HLen", p.HLen(), m.HLen)
		g.eq("Hops", p.Hops(), m.Hops)
		g.eq("XId", p.XId(), m.XID[:])
		g.eq("Secs", p.Secs(), m.Secs)
		g.eq("Flags", p.Flags(), m.Flags)
		g.eq("Broadcast", p.Broadcast(), m.Flags&0x8000 != 0)
		g.eq("CIAddr", p.CIAddr(), m.CI)
		g.eq("YIAddr", p.YIAddr(), m.YI)
		g.eq("SIAddr", p.SIAddr(), m.SI)
		g.eq("GIAddr", p.GIAddr(), m.GI)
		g.eq("CHAddr", []byte(p.CHAddr()), m.CHAddr[:6])
		g.eq("SName", p.SName(), []byte("server-name"))
		g.eq("File", p.File(), []byte("boot/file.img"))
		g.eq("Cookie", p.Cookie(), []byte{99, 130, 83, 99})
		g.eq("Options", p.Options(), b[240:])
		po := p.ParseOptions()
		g.eq("ParseOptions.len", len(po), len(opts))
		for _, o := range opts {
			g.eq(fmt.Sprintf("ParseOptions[%d]", o.Code), append([]byte{}, po[packet.DHCP4OptionCode(o.Code)]...), append([]byte{}, o.Data...))
		}
	case 7: // DNS header
		b := gen.DNS(r, e, gen.DNSKinds[r.Intn(len(gen.DNSKinds))])
		b[2], b[3] = rb(r), rb(r)
		g.view, g.in = "DNS", b
		p := packet.DNS(b)
		g.eq("TransactionID", p.TransactionID(), uint16(b[0])<<8|uint16(b[1]))
		g.eq("QR", p.QR(), b[2]&0x80 != 0)
		g.eq("OpCode", p.OpCode(), int(b[2]>>3)&15)
		g.eq("AA", p.AA(), b[2]&4 != 0)
		g.eq("TC", p.TC(), b[2]&2 != 0)
		g.eq("RD", p.RD(), b[2]&1 != 0)
		g.eq("RA", p.RA(), b[3]&0x80 != 0)
		g.eq("Z", p.Z(), b[3]>>4&7)
		g.eq("ResponseCode", p.ResponseCode(), int(b[3]&15))
		g.eq("QDCount", p.QDCount(), uint16(b[4])<<8|uint16(b[5]))
		g.eq("ANCount", p.ANCount(), uint16(b[6])<<8|uint16(b[7]))
		g.eq("NSCount", p.NSCount(), uint16(b[8])<<8|uint16(b[9]))
		g.eq("ARCount", p.ARCount(), uint16(b[10])<<8|uint16(b[11]))
	case 8: // RA
		ra := refdec.RA{HopLimit: rb(r), Flags: rb(r), Lifetime: rw(r), Reachable: rd(r), Retrans: rd(r), Opts: gen.RAOpts(r, mac)}
		b := refdec.ICMP6(a6(), a6(), 134, rb(r), ra.Body())
		g.view, g.in = "ICMP6RouterAdvertisement", b
		p := packet.ICMP6RouterAdvertisement(b)
		g.eq("Type", p.Type(), uint8(134))
		g.eq("Code", p.Code(), b[1])
		g.eq("Checksum", p.Checksum(), int(b[2])<<8|int(b[3]))
		g.eq("CurrentHopLimit", p.CurrentHopLimit(), ra.HopLimit)
		g.eq("ManagedConfiguration", p.ManagedConfiguration(), ra.Flags&0x80 != 0)
		g.eq("OtherConfiguration", p.OtherConfiguration(), ra.Flags&0x40 != 0)
		g.eq("HomeAgent", p.HomeAgent(), ra.Flags&0x20 != 0)
		g.eq("Preference", p.Preference(), ra.Flags>>3&3)
		g.eq("ProxyFlag", p.ProxyFlag(), ra.Flags&0x04 != 0)
		g.eq("Flags", p.Flags(), ra.Flags)
		g.eq("Lifetime", p.Lifetime(), ra.Lifetime)
		g.eq("ReachableTime", p.ReachableTime(), ra.Reachable)
		g.eq("RetransmitTimer", p.RetransmitTimer(), ra.Retrans)
	case 9: // NA / NS
		tgt := a6()
		rt, so, ov := r.Intn(2) == 0, r.Intn(2) == 0, r.Intn(2) == 0
		b := refdec.ICMP6(a6(), a6(), 136, 0, refdec.NABody(rt, so, ov, tgt, refdec.OptLLA(refdec.OptTLLA, mac)))
		g.view, g.in = "ICMP6NeighborAdvertisement", b
		p := packet.ICMP6NeighborAdvertisement(b)
		g.eq("Type", p.Type(), uint8(136))
		g.eq("Router", p.Router(), rt)
		g.eq("Solicited", p.Solicited(), so)
		g.eq("Override", p.Override(), ov)
		g.eq("TargetAddress", p.TargetAddress(), tgt)
		g.eq("TargetLLA", []byte(p.TargetLLA()), mac[:])
		b2 := refdec.ICMP6(a6(), a6(), 135, 0, refdec.NSBody(tgt, refdec.OptLLA(refdec.OptSLLA, mac)))
		g.view, g.in = "ICMP6NeighborSolicitation", b2
		q := packet.ICMP6NeighborSolicitation(b2)
		g.eq("Type", q.Type(), uint8(135))
		g.eq("TargetAddress", q.TargetAddress(), tgt)
		g.eq("SourceLLA", []byte(q.SourceLLA()), mac[:])
	case 10: // RS / Redirect
		b := refdec.ICMP6(a6(), a6(), 133, 0, refdec.RSBody(refdec.OptLLA(refdec.OptSLLA, mac)))
		g.view, g.in = "ICMP6RouterSolicitation", b
		p := packet.ICMP6RouterSolicitation(b)
		if err := p.IsValid(); err != nil {
			g.eq("IsValid", err.Error(), "nil")
			return
		}
		g.eq("Type", p.Type(), uint8(133))
		g.eq("SourceLLA", []byte(p.SourceLLA()), mac[:])
		if o, err := p.Options(); err != nil {
			g.eq("Options", err.Error(), "nil")
		} else {
			g.eq("Options.SourceLLA", []byte(o.SourceLLA.MAC), mac[:])
		}
		tgt, dst := a6(), a6()
		b2 := refdec.ICMP6(a6(), a6(), 137, 0, refdec.RedirectBody(tgt, dst, refdec.OptLLA(refdec.OptTLLA, mac)))
		g.view, g.in = "ICMP6Redirect", b2
		q := packet.ICMP6Redirect(b2)
		g.eq("Type", q.Type(), uint8(137))
		g.eq("TargetAddress", []byte(q.TargetAddress()), tgt.AsSlice())
		g.eq("DstAddress", []byte(q.DstAddress()), dst.AsSlice())
		g.eq("TargetLinkLayerAddr", []byte(q.TargetLinkLayerAddr()), mac[:])
	case 11: // Ether
		et := []uint16{0x0800, 0x86dd, 0x0806, 0x8100, 0x88a8, 0x88cc, rw(r) | 0x0600}[r.Intn(7)]
		var dm refdec.MAC
		r.Read(dm[:])
		pl := gen.RandBytes(r, 1+r.Intn(40))
		b := refdec.Ether(dm, mac, et, 0, pl)
		g.view, g.in = "Ether", b
		p := packet.Ether(b)
		hl := refdec.EtherHeaderLen(et)
		if err := p.IsValid(); err != nil {
			if len(b) >= hl {
				g.eq("IsValid", err.Error(), "nil")
			}
			return
		}
		g.eq("Dst", []byte(p.Dst()), dm[:])
		g.eq("Src", []byte(p.Src()), mac[:])
		g.eq("EtherType", p.EtherType(), et)
		g.eq("HeaderLen", p.HeaderLen(), hl)
		if len(b) > hl {
			g.eq("Payload", p.Payload(), b[hl:])
		}
		// SrcIP/DstIP convenience getters
		src, dst := a4(), a4()
		b4 := refdec.Ether(dm, mac, 0x0800, 0, refdec.IP4(refdec.IP4Hdr{TTL: 1, Proto: 17, Src: src, Dst: dst}, nil))
		g.in = b4
		g.eq("SrcIP(v4)", packet.Ether(b4).SrcIP(), src)
		g.eq("DstIP(v4)", packet.Ether(b4).DstIP(), dst)
		s6, d6 := a6(), a6()
		b6 := refdec.Ether(dm, mac, 0x86dd, 0, refdec.IP6(refdec.IP6Hdr{Next: 59, Src: s6, Dst: d6, PayloadLen: -1}, nil))
		g.in = b6
		g.eq("SrcIP(v6)", packet.Ether(b6).SrcIP(), s6)
		g.eq("DstIP(v6)", packet.Ether(b6).DstIP(), d6)
	case 12: // LLDP, IEEE1905, pause, RRCP
		cid := gen.RandBytes(r, 1+r.Intn(20))
		pid := gen.RandBytes(r, 1+r.Intn(20))
		var b []byte
		tlv := func(t int, v []byte) { b = append(append(b, byte(t<<1), byte(len(v))), v...) }
		tlv(1, cid)
		tlv(2, pid)
		tlv(3, []byte{0, 120})
		name := []byte("switch-" + fmt.Sprint(r.Intn(100)))
		tlv(5, name)
		tlv(0, nil)
		g.view, g.in = "LLDP", b
		p := packet.LLDP(b)
		g.eq("ChassisID", p.ChassisID(), cid)
		g.eq("PortID", p.PortID(), pid)
		g.eq("GetPDU(5)", p.GetPDU(5), name)
		g.eq("GetPDU(3)", p.GetPDU(3), []byte{0, 120})
		x := gen.RandBytes(r, 8+r.Intn(30))
		g.view, g.in = "IEEE1905", x
		q := packet.IEEE1905(x)
		g.eq("Version", q.Version(), x[0])
		g.eq("Reserved", q.Reserved(), x[1])
		g.eq("Type", q.Type(), uint16(x[2])<<8|uint16(x[3]))
		g.eq("ID", q.ID(), uint16(x[4])<<8|uint16(x[5]))
		g.eq("FragmentID", q.FragmentID(), x[6])
		g.eq("Flags", q.Flags(), x[7])
		g.eq("TLV", q.TLV(), x[8:])
		y := gen.Pause(r)
		g.view, g.in = "EthernetPause", y
		g.eq("Opcode", packet.EthernetPause(y).Opcode(), uint16(y[0])<<8|uint16(y[1]))
		g.eq("Duration", packet.EthernetPause(y).Duration(), uint16(y[2])<<8|uint16(y[3]))
		z := gen.RRCP(r)
		g.view, g.in = "RRCP", z
		g.eq("Protocol", packet.RRCP(z).Protocol(), z[0])
		g.eq("Reply", packet.RRCP(z).Reply(), z[1]&0x80 != 0)
		g.eq("OpCode", packet.RRCP(z).OpCode(), z[1]&0x7f)
		g.eq("AuthKey", packet.RRCP(z).AuthKey(), uint16(z[2])<<8|uint16(z[3]))
		g.eq("RegisterAddr", packet.RRCP(z).RegisterAddr(), uint16(z[4])<<8|uint16(z[5]))
		g.eq("RegisterData", packet.RRCP(z).RegisterData(), uint16(z[6])<<8|uint16(z[7]))
	case 13: // LLC / SNAP
		b := append([]byte{rb(r), rb(r), 0x03}, gen.RandBytes(r, 5+r.Intn(20))...)
		g.view, g.in = "LLC", b
		p := packet.LLC(b)
		g.eq("DSAP", p.DSAP(), b[0])
		g.eq("SSAP", p.SSAP(), b[1])
		g.eq("Control", p.Control(), b[2])
		g.eq("Payload(U-format)", p.Payload(), b[3:])
		s := append([]byte{0xaa, 0xaa, 0x03, rb(r), rb(r), rb(r), rb(r), rb(r)}, gen.RandBytes(r, 1+r.Intn(20))...)
		g.view, g.in = "SNAP", s
		q := packet.SNAP(s)
		g.eq("OrganisationID", q.OrganisationID(), s[3:6])
		g.eq("EtherType", q.EtherType(), uint16(s[6])<<8|uint16(s[7]))
		g.eq("Payload", q.Payload(), s[8:])
	case 14: // ICMP4Redirect: the layout the view documents (RFC 1256 style table after the 8 byte header)
		n, size := r.Intn(6), []int{4, 10}[r.Intn(2)]
		b := []byte{137, rb(r), rb(r), rb(r), byte(n), byte(size), rb(r), rb(r)} // 137: the type the view's IsValid demands
		var want [][]byte
		for i := 0; i < n; i++ {
			entry := gen.RandBytes(r, size*4)
			b = append(b, entry...)
			if size == 4 {
				want = append(want, entry[:4])
			} else {
				want = append(want, entry[:16])
			}
		}
		g.view, g.in = "ICMP4Redirect", b
		p := packet.ICMP4Redirect(b)
		if err := p.IsValid(); err != nil {
			g.eq("IsValid", err.Error(), "nil")
			return
		}
		g.eq("Type", p.Type(), b[0])
		g.eq("Code", p.Code(), b[1])
		g.eq("Checksum", p.Checksum(), uint16(b[2])<<8|uint16(b[3]))
		g.eq("NumAddrs", p.NumAddrs(), uint8(n))
		g.eq("AddrSize", p.AddrSize(), uint8(size))
		g.eq("Lifetime", p.Lifetime(), uint16(b[6])<<8|uint16(b[7]))
		got := p.Addrs()
		g.eq("len(Addrs)", len(got), n)
		for i := 0; i < n && i < len(got); i++ {
			g.eq(fmt.Sprintf("Addrs[%d]", min(i, 1)), []byte(got[i]), want[i])
		}
		// hop-by-hop extension header (RFC 8200 4.3): next header, length in 8 octet units not counting the first 8, options
		units := r.Intn(4)
		hb := append([]byte{rb(r), byte(units)}, gen.RandBytes(r, 6+8*units+r.Intn(9))...)
		g.view, g.in = "HopByHopExtensionHeader", hb
		h := packet.HopByHopExtensionHeader(hb)
		if !h.IsValid() {
			// the view asks for two more bytes than the header has (len >= Len()+2): conservative, nothing states otherwise
			if len(hb) >= 8+8*units+2 {
				g.eq("IsValid", false, true)
			}
			return
		}
		g.eq("NextHeader", h.NextHeader(), hb[0])
		g.eq("Len", h.Len(), 8+8*units)
		g.eq("Data", h.Data(), hb[2:8+8*units])
	}
}
