package checks

import (
	"fmt"
	"math/rand"
	"net"
	"net/netip"
	"os"
	"runtime"
	"sort"
	"strings"
	"sync"
	"sync/atomic"
	"syscall"
	"testing/synctest"
	"time"

	"github.com/anishathalye/porcupine"

	"github.com/irai/packet"
	"github.com/irai/packet/fastlog"
	"github.com/irai/packet/handlers/arp_spoofer"
	"github.com/irai/packet/handlers/dhcp4_spoofer"
	"github.com/irai/packet/handlers/dns_naming"
	"github.com/irai/packet/handlers/icmp_spoofer"

	"verif/harness/gen"
	"verif/harness/mon"
	"verif/harness/refdec"
	"verif/harness/wk"
)

func init() { register("C09", runC09) }

var c09MACs = []refdec.MAC{{0x02, 0xe1, 0, 0, 0, 1}, {0x02, 0xe2, 0, 0, 0, 2}, {0x02, 0xe3, 0, 0, 0, 3}, {0x02, 0xe4, 0, 0, 0, 4}, {0x02, 0xe5, 0, 0, 0, 5}, {0x02, 0xe6, 0, 0, 0, 6}}

// register MACs never send frames: their MAC entry is created by Capture / SetDHCPv4IPOffer and never purged,
// so Capture/Release/IsCaptured and the offer accessors behave as registers (porcupine history check)
var c09RegMACs = []net.HardwareAddr{{0x02, 0xf1, 0, 0, 0, 1}, {0x02, 0xf2, 0, 0, 0, 2}}

func c09IPs() []netip.Addr {
	var out []netip.Addr
	for i := 0; i < 6; i++ {
		out = append(out, netip.AddrFrom4([4]byte{192, 168, 0, byte(60 + i)}))
	}
	for i := 0; i < 3; i++ {
		out = append(out, netip.AddrFrom16([16]byte{0xfe, 0x80, 15: byte(0x60 + i)}))
		out = append(out, netip.AddrFrom16([16]byte{0x20, 0x01, 0x0d, 0xb8, 15: byte(0x60 + i)}))
	}
	return out
}

// c09Frame builds one frame of the traffic mix.
func c09Frame(r *rand.Rand, e gen.Env) []byte { return c09FrameD(r, e, nil) }

func c09FrameD(r *rand.Rand, e gen.Env, dh *c09DHCP) []byte {
	mac := c09MACs[r.Intn(len(c09MACs))]
	ips := c09IPs()
	switch k := r.Intn(20); {
	case k < 7:
		return buildFrame("f4", mac, ips[r.Intn(6)])
	case k < 9:
		return buildFrame("arp", mac, ips[r.Intn(6)])
	case k < 12:
		return buildFrame("f6", mac, ips[6+r.Intn(6)])
	case k < 14:
		if dh != nil && r.Intn(3) != 0 {
			return dh.frame(r, e, mac)
		}
		kind := []string{"discover", "request-selecting", "request-reboot", "request-renew", "offer", "decline", "release", "request-selecting"}[r.Intn(8)]
		m := gen.DHCP(r, e, kind, mac)
		sp, dp := uint16(68), uint16(67)
		if m.Op == 2 {
			sp, dp = 67, 68
			if r.Intn(2) == 0 {
				dp = 67 // a server's message on the server port (what a relay agent receives)
			}
		}
		return dhcpFrame(mac, ip4zero, netip.MustParseAddr("255.255.255.255"), m, sp, dp, bcastMAC)
	case k < 16:
		j := r.Intn(2)
		return raFrame(j, refdec.RA{HopLimit: 64, Flags: 0x40, Lifetime: 1800, Opts: gen.RAOpts(r, c14Routers[j].mac)})
	case k < 18:
		m := refdec.NewDNSMsg(uint16(r.Intn(64)), 0x8400)
		a := ips[r.Intn(6)]
		m.An = []refdec.DNSRR{{Name: fmt.Sprintf("host%d.local", r.Intn(4)), Type: refdec.TypeA, Class: 1, TTL: 120, Addr: a}}
		b := (&refdec.DNSBuilder{}).Build(m)
		return refdec.Ether(bcastMAC, mac, 0x0800, 0, refdec.IP4(refdec.IP4Hdr{TTL: 255, Proto: 17, Src: ips[r.Intn(6)], Dst: netip.MustParseAddr("224.0.0.251")}, refdec.UDP(5353, 5353, b)))
	case k < 19:
		// ARP request for the router from a (possibly hunted) host
		return refdec.Ether(bcastMAC, mac, 0x0806, 0, refdec.ARP(refdec.ARPPkt{HType: 1, PType: 0x0800, HLen: 6, PLen: 4, Op: 1, SHA: mac, SPA: ips[r.Intn(6)], TPA: e.RouterIP}))
	}
	return handlerFrame(r, e, []int{2, 3, 7, 8}[r.Intn(4)]).B
}

type regEvent struct {
	kind  string // capture release iscaptured setoffer getoffer
	mac   int
	arg   int
	out   int
	call  int64
	ret   int64
	proc  int
}

// c09DHCP is the harness side DHCP client state of the stress run: real handshakes (DISCOVER -> OFFER -> REQUEST -> ACK)
// so that leases exist, followed by renewals, DECLINEs and RELEASEs of exactly those leases.
type c09DHCP struct {
	mu     sync.Mutex
	xid    map[refdec.MAC][4]byte
	acked  map[refdec.MAC]netip.Addr
	follow chan []byte
	nAck   int64
}

func (d *c09DHCP) frame(r *rand.Rand, e gen.Env, mac refdec.MAC) []byte {
	d.mu.Lock()
	defer d.mu.Unlock()
	m := refdec.DHCPMsg{Op: 1, HType: 1, HLen: 6}
	copy(m.CHAddr[:], mac[:])
	src, dst := ip4zero, netip.MustParseAddr("255.255.255.255")
	a, has := d.acked[mac]
	k := r.Intn(8)
	if has && k > 2 {
		k = 0 // a client that holds a lease mostly renews it
	}
	switch {
	case has && k == 0: // renew
		m.XID = [4]byte{mac[1], byte(r.Intn(256)), 3, 1}
		m.CI, src, dst = a, a, e.HostIP
		m.Options = []refdec.DHCPOpt{{Code: 53, Data: []byte{3}}}
	case has && k == 1: // decline
		m.XID = d.xid[mac]
		m.Options = []refdec.DHCPOpt{{Code: 53, Data: []byte{4}}, {Code: 54, Data: ip4b(e.HostIP)}, {Code: 50, Data: ip4b(a)}}
		delete(d.acked, mac)
	case has && k == 2: // release
		m.XID = d.xid[mac]
		m.CI, src, dst = a, a, e.HostIP
		m.Options = []refdec.DHCPOpt{{Code: 53, Data: []byte{7}}, {Code: 54, Data: ip4b(e.HostIP)}}
		delete(d.acked, mac)
	default: // discover
		x := [4]byte{mac[1], byte(r.Intn(256)), byte(r.Intn(256)), 0x09}
		d.xid[mac] = x
		m.XID = x
		m.Options = []refdec.DHCPOpt{{Code: 53, Data: []byte{1}}, {Code: 12, Data: []byte("c09")}}
	}
	return dhcpFrame(mac, src, dst, m, 68, 67, bcastMAC)
}

// observe looks at a frame the stack sent: an OFFER is answered with the matching selecting REQUEST, an ACK is remembered.
func (d *c09DHCP) observe(e gen.Env, f []byte) {
	dec := refdec.Decode(f)
	if dec.Err || dec.OffUDP == 0 || dec.DstPort != 68 {
		return
	}
	rp, err := refdec.ParseDHCP(f[dec.OffUDP+8:])
	if err != nil || rp.Op != 2 {
		return
	}
	mac := rp.CHMAC()
	d.mu.Lock()
	defer d.mu.Unlock()
	switch rp.Type() {
	case refdec.DHCPOffer:
		q := refdec.DHCPMsg{Op: 1, HType: 1, HLen: 6, XID: rp.XID}
		copy(q.CHAddr[:], mac[:])
		q.Options = []refdec.DHCPOpt{{Code: 53, Data: []byte{3}}, {Code: 54, Data: ip4b(e.HostIP)}, {Code: 50, Data: ip4b(rp.YI)}}
		select {
		case d.follow <- dhcpFrame(mac, ip4zero, netip.MustParseAddr("255.255.255.255"), q, 68, 67, bcastMAC):
		default:
		}
	case refdec.DHCPAck:
		d.acked[mac] = rp.YI
		d.nAck++
	}
	// (a NAK does not clear the entry: the random DHCP frames of the traffic mix draw NAKs all the time while the lease
	// stays; hunting a stale address is harmless)
}

type c09Run struct {
	stats         atomic.Bool
	recordHistory bool
	regDone       atomic.Bool
	wmu           sync.Mutex
	workers       []*c09Worker
	dh      *c09DHCP
	c       *wk.Ctx
	idx     int64
	r       *rand.Rand
	st      *stack
	gate    sync.RWMutex
	stop    atomic.Bool
	inOp    atomic.Int64
	clock   atomic.Int64
	yieldV  map[string]int // point -> 0 none, 1 gosched, 2 sleep
	hits    sync.Map       // point -> *atomic.Int64
	overlap sync.Map       // point -> *atomic.Int64
	hmu     sync.Mutex
	history []regEvent
	pairs   sync.Map
}

func (cr *c09Run) counter(m *sync.Map, k string) *atomic.Int64 {
	v, _ := m.LoadOrStore(k, new(atomic.Int64))
	return v.(*atomic.Int64)
}

// Harness synchronisation hides races: every atomic operation on a shared variable and every shared mutex orders the
// goroutines that touch it, and the race detector only reports accesses that are unordered. The statistics that need shared
// atomics (yield point hits, overlap of operations) are therefore collected only during the first two seconds of a run
// (cr.stats); after that an operation touches nothing shared except the barrier gate (whose readers are not ordered with each
// other) and a progress counter owned by its own goroutine. The register history for porcupine (a shared clock and a mutex) is
// recorded in every third run only.
func (cr *c09Run) yield(point string) {
	if cr.stats.Load() {
		cr.counter(&cr.hits, point).Add(1)
		if cr.inOp.Load() > 1 {
			cr.counter(&cr.overlap, point).Add(1)
		}
	}
	switch cr.yieldV[point] {
	case 1:
		runtime.Gosched()
	case 2:
		time.Sleep(time.Duration(50+rand.Intn(450)) * time.Microsecond)
	}
}

// c09Worker is the per goroutine side of the harness: its progress counter is written by that goroutine only.
type c09Worker struct {
	cr   *c09Run
	prog atomic.Int64
	// plain counters owned by the goroutine, read after it has ended
	huntsKnown, huntsOther int64
	// values the API returned earlier and documents as copies: read again later, while the packet loop goes on
	router     icmp_spoofer.Router
	haveRouter bool
	used       int64
}

func (cr *c09Run) worker() *c09Worker {
	w := &c09Worker{cr: cr}
	cr.wmu.Lock()
	cr.workers = append(cr.workers, w)
	cr.wmu.Unlock()
	return w
}

func (cr *c09Run) progress() int64 {
	cr.wmu.Lock()
	defer cr.wmu.Unlock()
	var n int64
	for _, w := range cr.workers {
		n += w.prog.Load()
	}
	return n
}

// op runs one gated harness operation.
func (w *c09Worker) op(name string, f func()) {
	cr := w.cr
	cr.gate.RLock()
	if cr.stats.Load() {
		cr.inOp.Add(1)
		f()
		cr.inOp.Add(-1)
	} else {
		f()
	}
	cr.gate.RUnlock()
	w.prog.Add(1)
}

func (cr *c09Run) record(ev regEvent, f func() int) {
	if !cr.recordHistory {
		f()
		return
	}
	if cr.regDone.Load() {
		return // the history is long enough: the registers (two MACs nobody else touches) are left alone from here on
	}
	ev.call = cr.clock.Add(1)
	ev.out = f()
	ev.ret = cr.clock.Add(1)
	cr.hmu.Lock()
	cr.history = append(cr.history, ev)
	if len(cr.history) >= 12000 {
		cr.regDone.Store(true) // operations in flight still complete and are recorded: the history stays closed
	}
	cr.hmu.Unlock()
}

func (cr *c09Run) apiWorker(proc int, seed int64, nOps int, wg *sync.WaitGroup) {
	defer wg.Done()
	r := rand.New(rand.NewSource(seed))
	s, st := cr.st.s, cr.st
	w := cr.worker()
	ips := c09IPs()
	// the API goroutines work for the whole run (nOps is only a safety cap): calls that all end within the first second
	// would leave the packet loop alone for the rest of it
	for i := 0; i < nOps && !cr.stop.Load(); i++ {
		if i%64 == 63 {
			time.Sleep(time.Duration(100+r.Intn(400)) * time.Microsecond)
		}
		mac := hw(c09MACs[r.Intn(len(c09MACs))])
		ip := ips[r.Intn(len(ips))]
		reg := r.Intn(len(c09RegMACs))
		k := r.Intn(24)
		if proc == 0 && i%2 == 0 {
			k = 17 // the first API goroutine spends half of its calls on the handlers' hunt entry points for leased addresses
		}
		switch k {
		case 0, 1:
			w.op("FindIP", func() {
				if h := s.FindIP(ip); h != nil {
					// the API contract: row lock to read the fields of a Host obtained from FindIP
					h.MACEntry.Row.RLock()
					_ = h.Online
					_ = h.LastSeen
					_ = h.MDNSName.Name
					_ = h.MACEntry.Online
					_ = h.MACEntry.IP4
					_ = len(h.MACEntry.HostList)
					h.MACEntry.Row.RUnlock()
				}
			})
		case 2:
			w.op("GetHosts", func() {
				for _, h := range s.GetHosts() {
					h.MACEntry.Row.RLock()
					_ = h.Online
					_ = h.Addr.IP
					h.MACEntry.Row.RUnlock()
				}
			})
		case 3:
			w.op("IPAddrs", func() { s.IPAddrs(mac) })
		case 4:
			w.op("FindByMAC", func() { s.FindByMAC(mac) })
		case 5:
			w.op("FindMACEntry", func() {
				if e := s.FindMACEntry(mac); e != nil {
					e.Row.RLock()
					_ = e.Online
					_ = e.IP4
					e.Row.RUnlock()
				}
			})
		case 6:
			w.op("PrintTable", func() { s.PrintTable() })
		case 7, 8:
			// capture toggles are kept rarer than the other calls: a DHCP handshake needs the client's subnet to stay put for
			// a few milliseconds, and without acknowledged leases half of the DHCP handler is never exercised
			switch {
			case r.Intn(12) != 0:
				w.op("IsCaptured", func() { s.IsCaptured(mac) })
			case k == 7:
				w.op("Capture", func() { s.Capture(mac) })
			default:
				w.op("Release", func() { s.Release(mac) })
			}
		case 9:
			w.op("IsCaptured", func() { s.IsCaptured(mac) })
		case 10:
			w.op("SetDHCPv4IPOffer", func() { s.SetDHCPv4IPOffer(mac, ips[r.Intn(6)], packet.NameEntry{Name: "n"}) })
		case 11:
			w.op("DHCPv4IPOffer", func() { s.DHCPv4IPOffer(mac) })
		case 12:
			w.op("arp.StartHunt", func() { st.arp.StartHunt(packet.Addr{MAC: mac, IP: ips[r.Intn(6)]}) })
		case 13:
			w.op("arp.StopHunt", func() { st.arp.StopHunt(packet.Addr{MAC: mac, IP: ips[r.Intn(6)]}) })
		case 14:
			w.op("arp.IsHunting", func() { st.arp.IsHunting(ips[r.Intn(6)]) })
		case 15:
			w.op("icmp6.StartHunt", func() { st.icmp6.StartHunt(packet.Addr{MAC: mac, IP: ips[6+2*r.Intn(3)]}) })
		case 16:
			w.op("icmp6.StopHunt", func() { st.icmp6.StopHunt(packet.Addr{MAC: mac, IP: ips[6+2*r.Intn(3)]}) })
		case 17:
			if r.Intn(2) == 0 || proc == 0 {
				// the DHCP handler's hunt entry points, for the address the MAC was offered / leased
				w.op("dhcp.StartHunt/StopHunt", func() {
					// every client the harness side DHCP state knows a lease for, then the MAC drawn above
					var as []packet.Addr
					cr.dh.mu.Lock()
					for m, x := range cr.dh.acked {
						as = append(as, packet.Addr{MAC: hw(m), IP: x})
					}
					cr.dh.mu.Unlock()
					a := packet.Addr{MAC: mac, IP: s.DHCPv4IPOffer(mac)}
					if !a.IP.IsValid() {
						a.IP = ips[r.Intn(6)]
					}
					w.huntsKnown += int64(len(as))
					w.huntsOther++
					for _, a := range append(as, a) {
						if r.Intn(4) != 0 {
							st.dhcp.StartHunt(a)
						} else {
							st.dhcp.StopHunt(a)
						}
					}
				})
				break
			}
			if r.Intn(40) != 0 {
				// (the ticker is a once-a-minute call: run at API speed it expires every pending offer before the client's
				// REQUEST arrives and no lease is ever acknowledged)
				w.op("dhcp.PrintTable", func() { st.dhcp.PrintTable() })
				break
			}
			w.op("dhcp.MinuteTicker", func() {
				// a clock beyond the lease time wipes every lease: rare, or no lease ever lives long enough to be raced on
				off := []time.Duration{0, time.Minute, time.Hour, 3 * time.Hour}[r.Intn(4)]
				if r.Intn(200) == 0 {
					off = 5 * time.Hour
				}
				st.dhcp.MinuteTicker(time.Now().Add(off))
			})
		case 18:
			w.op("handler.PrintTable", func() {
				switch r.Intn(3) {
				case 0:
					st.arp.PrintTable()
				case 1:
					st.icmp6.PrintTable()
				default:
					st.dhcp.PrintTable()
				}
			})
		case 19:
			w.op("icmp6.FindRouter", func() {
				// FindRouter returns "a copy with the lock held": the caller reads every part of it without a lock, now and later
				if w.haveRouter {
					w.used += int64(len(fmt.Sprintf("%+v", w.router)))
				}
				w.router, w.haveRouter = st.icmp6.FindRouter(c14Routers[r.Intn(2)].ip), true
				w.used += int64(len(fmt.Sprintf("%+v", w.router)))
			})
		case 20: // register operations for the porcupine history
			w.op("reg.Capture", func() {
				cr.record(regEvent{kind: "capture", mac: reg, proc: proc}, func() int { s.Capture(c09RegMACs[reg]); return 0 })
			})
		case 21:
			w.op("reg.Release", func() {
				cr.record(regEvent{kind: "release", mac: reg, proc: proc}, func() int { s.Release(c09RegMACs[reg]); return 0 })
			})
		case 22:
			w.op("reg.IsCaptured", func() {
				cr.record(regEvent{kind: "iscaptured", mac: reg, proc: proc}, func() int {
					if s.IsCaptured(c09RegMACs[reg]) {
						return 1
					}
					return 0
				})
			})
		default:
			if r.Intn(2) == 0 {
				v := 1 + r.Intn(200)
				w.op("reg.SetOffer", func() {
					cr.record(regEvent{kind: "setoffer", mac: reg, arg: v, proc: proc}, func() int {
						s.SetDHCPv4IPOffer(c09RegMACs[reg], netip.AddrFrom4([4]byte{192, 168, 0, byte(v)}), packet.NameEntry{})
						return 0
					})
				})
			} else {
				w.op("reg.GetOffer", func() {
					cr.record(regEvent{kind: "getoffer", mac: reg, proc: proc}, func() int {
						a := s.DHCPv4IPOffer(c09RegMACs[reg])
						if !a.IsValid() {
							return 0
						}
						return int(a.As4()[3])
					})
				})
			}
		}
	}
}

type regState struct{ captured, offer int }

func (cr *c09Run) checkHistory() (string, int) {
	model := porcupine.Model{
		Partition: func(h []porcupine.Operation) [][]porcupine.Operation {
			parts := map[int][]porcupine.Operation{}
			for _, o := range h {
				e := o.Input.(regEvent)
				k := e.mac * 2
				if e.kind == "setoffer" || e.kind == "getoffer" {
					k++
				}
				parts[k] = append(parts[k], o)
			}
			var out [][]porcupine.Operation
			for _, p := range parts {
				out = append(out, p)
			}
			return out
		},
		Init: func() any { return 0 },
		Step: func(st, in, out any) (bool, any) {
			e := in.(regEvent)
			switch e.kind {
			case "capture":
				return true, 1
			case "release":
				return true, 0
			case "setoffer":
				return true, e.arg
			default: // iscaptured, getoffer
				return out.(int) == st.(int), st
			}
		},
	}
	var ops []porcupine.Operation
	for _, e := range cr.history {
		ops = append(ops, porcupine.Operation{ClientId: e.proc, Input: e, Call: e.call, Output: e.out, Return: e.ret})
	}
	if len(ops) == 0 {
		return "empty", 0
	}
	// the whole history is checked (partitioned per MAC and register); a time-out is inconclusive, never a verdict
	res := porcupine.CheckOperationsTimeout(model, ops, 60*time.Second)
	switch res {
	case porcupine.Ok:
		return "ok", len(ops)
	case porcupine.Illegal:
		return "illegal", len(ops)
	}
	return "unknown", len(ops)
}

func (cr *c09Run) run() {
	c := cr.c
	r := cr.r
	scratch := os.Getenv("VERIF_SCRATCH")
	if scratch == "" {
		scratch = os.TempDir()
	}
	procs := []int{2, 4, 16}[r.Intn(3)]
	old := runtime.GOMAXPROCS(procs)
	defer runtime.GOMAXPROCS(old)
	e := gen.DefaultEnv()
	// the library's own logging orders goroutines too (fastlog hands its line buffers around through a sync.Pool, which the
	// race detector treats as synchronisation): half of the runs are silent (error level), a quarter at info, a quarter at debug
	// level (where the rendering of hosts and tables runs concurrently with everything else)
	lv := []fastlog.LogLevel{fastlog.LevelDebug, fastlog.LevelError, fastlog.LevelInfo, fastlog.LevelError}[cr.idx%4]
	for _, l := range []*fastlog.Logger{packet.Logger, arp_spoofer.Logger, dhcp4_spoofer.Logger, dns_naming.Logger, dns_naming.LoggerMDNS, icmp_spoofer.Logger4, icmp_spoofer.Logger6} {
		l.SetLevel(lv)
	}
	dns_naming.Debug = lv == fastlog.LevelDebug // plain variable: set before any goroutine of this run exists
	cr.st = newStack(scratch, mon.DefaultNIC())
	cr.st.rec.Sharded()
	cr.recordHistory = cr.idx%3 == 0
	cr.dh = &c09DHCP{xid: map[refdec.MAC][4]byte{}, acked: map[refdec.MAC]netip.Addr{}, follow: make(chan []byte, 64)}
	st := cr.st
	s := st.s
	points := []string{"findOrCreate:upgrade", "purge:before-offline", "purge:before-delete", "notify:before-offline", "Notify:before-lookup", "Close:between", "arp:spoofLoop:before-send", "icmp6:spoofLoop:before-send"}
	cr.yieldV = map[string]int{}
	for _, p := range points {
		cr.yieldV[p] = r.Intn(3)
	}
	yf := cr.yield
	packet.VerifYield.Store(&yf)
	defer packet.VerifYield.Store(nil)
	nAPI := 8 + r.Intn(7)
	nFrames := int(c.N(120_000, 600_000))
	nPurges := 1 << 30 // until the run ends
	nOps := 1 << 30
	var wg sync.WaitGroup
	// drainer
	drained := new(atomic.Int64)
	wg.Add(1)
	go func() {
		defer wg.Done()
		for range s.C {
			drained.Add(1)
		}
	}()
	// packet loop: ReadFrom -> Parse -> handler -> Notify
	handled := new(atomic.Int64)
	wg.Add(1)
	go func() {
		defer wg.Done()
		w := cr.worker()
		buf := make([]byte, packet.EthMaxSize)
		for {
			n, _, err := s.ReadFrom(buf)
			if err != nil {
				return
			}
			w.op("packet-loop", func() {
				frame, err := s.Parse(buf[:n])
				if err != nil {
					return
				}
				if frame.PayloadID == packet.PayloadMDNS {
					v4, _, _ := st.dns.ProcessMDNS(frame)
					if frame.Host != nil && len(v4) > 0 {
						frame.Host.UpdateMDNSName(v4[0].NameEntry)
					}
				} else {
					st.dispatch(frame)
				}
				s.Notify(frame)
				handled.Add(1)
			})
		}
	}()
	// the wire: a goroutine of its own collects what the stack transmits and plays the DHCP clients
	wireDone := make(chan struct{})
	go func() {
		defer close(wireDone)
		for !cr.stop.Load() {
			for _, f := range st.rec.TakeShards() {
				cr.dh.observe(e, f.Data)
			}
			time.Sleep(300 * time.Microsecond)
		}
	}()
	defer func() { <-wireDone }()
	// feeder
	feedSeed := r.Int63()
	wg.Add(1)
	go func() {
		defer wg.Done()
		fr := rand.New(rand.NewSource(feedSeed))
		for i := 0; i < nFrames && !cr.stop.Load(); i++ {
			var b []byte
			select {
			case b = <-cr.dh.follow:
			default:
				b = c09FrameD(fr, e, cr.dh)
			}
			if !st.rec.FeedWait(b) {
				return
			}
		}
	}()
	// purge goroutine: hosts continuously age, die and are re-created under the loop
	purges := new(atomic.Int64)
	wg.Add(1)
	go func() {
		defer wg.Done()
		w := cr.worker()
		offs := []time.Duration{0, 6 * time.Minute, 62 * time.Minute}
		for i := 0; i < nPurges && !cr.stop.Load(); i++ {
			w.op("VerifPurge", func() { s.VerifPurge(time.Now().Add(offs[i%3])) })
			purges.Add(1)
			time.Sleep(200 * time.Microsecond)
		}
	}()
	apiSeed := r.Int63()
	for p := 0; p < nAPI; p++ {
		wg.Add(1)
		go cr.apiWorker(p, apiSeed+int64(p), nOps, &wg)
	}
	// barriers + deadlock monitor
	t0 := time.Now()
	cr.stats.Store(true)
	barriers, skipped := 0, 0
	lastProg, lastChange := int64(-1), time.Now()
	deadline := time.Now().Add(time.Duration(c.N(14, 40)) * time.Second)
	for time.Now().Before(deadline) {
		time.Sleep(150 * time.Millisecond)
		if cr.stats.Load() && time.Since(t0) > 2*time.Second {
			cr.stats.Store(false) // from here on the harness keeps out of the race detector's way
		}
		if p := cr.progress(); p != lastProg {
			lastProg, lastChange = p, time.Now()
		} else if time.Since(lastChange) > 25*time.Second {
			cr.stalled("no harness goroutine made progress for 25 s")
			return
		}
		// the barrier waits for the operations in flight; an operation that never returns (deadlock inside the library)
		// must not take the monitor down with it
		locked := make(chan struct{})
		go func() { cr.gate.Lock(); close(locked) }()
		select {
		case <-locked:
		case <-time.After(25 * time.Second):
			cr.stalled("operations in flight did not return within 25 s of a barrier request")
			return
		}
		if time.Since(t0) > 55*time.Second {
			skipped++ // the session's own minute ticker is the only ungated table writer
		} else {
			for _, b := range mon.CheckTables(s) {
				c.ViolP("C05", "invariant:"+strings.SplitN(b, ":", 2)[0]+":concurrent", b, map[string]any{"index": cr.idx, "barrier": barriers})
			}
			barriers++
		}
		cr.gate.Unlock()
		c.Begin(cr.idx*1000+int64(barriers), "c09-stress", nil)
	}
	// Close handlers and session while traffic is still flowing
	before := runtime.NumGoroutine()
	st.arp.Close()
	st.icmp6.Close()
	st.dhcp.Close()
	// Close is called by whoever notices the shutdown first - several goroutines at once (signal handler, the read loop on
	// its error, a deferred call): every call but one must find the session closed
	var cwg sync.WaitGroup
	start := make(chan struct{})
	for k := 0; k < 4; k++ {
		cwg.Add(1)
		go func() {
			defer cwg.Done()
			<-start
			s.Close()
		}()
	}
	close(start)
	cwg.Wait()
	cr.stop.Store(true)
	waited := make(chan struct{})
	go func() { wg.Wait(); close(waited) }()
	select {
	case <-waited:
	case <-time.After(30 * time.Second):
		buf := make([]byte, 1<<20)
		dump := string(buf[:runtime.Stack(buf, true)])
		c.Viol("deadlock-after-close:"+firstPacketFrame(dump), "harness goroutines did not finish within 30 s of Close:\n"+dump[:min(len(dump), 12000)], map[string]any{"index": cr.idx})
		return
	}
	time.Sleep(1500 * time.Millisecond)
	// leak sample: no goroutine may still run library code after Close
	buf := make([]byte, 1<<20)
	dump := string(buf[:runtime.Stack(buf, true)])
	leaks := 0
	for _, g := range strings.Split(dump, "\n\n") {
		if strings.Contains(g, "github.com/irai/packet") && !strings.Contains(g, "verif/harness/checks.(*c09Run).run") {
			// goroutines of sessions created by other runs in this process do not exist: one run per process
			leaks++
			if leaks == 1 {
				c.Viol("leak:"+firstPacketFrame(g), "a goroutine still runs library code 1.5 s after Close:\n"+g, map[string]any{"index": cr.idx})
			}
		}
	}
	res, nh := cr.checkHistory()
	switch res {
	case "illegal":
		c.Viol("linearizability:capture-offer-registers", fmt.Sprintf("porcupine: history of %d Capture/Release/IsCaptured/offer operations is not linearizable", nh), map[string]any{"index": cr.idx})
	case "unknown":
		c.Inconclusive("porcupine timed out")
	}
	c.Obs("history_ops_checked", int64(nh))
	c.Obs("barriers", int64(barriers))
	c.Obs("barriers_skipped", int64(skipped))
	c.Obs("frames_handled", handled.Load())
	c.Obs("purges", purges.Load())
	c.Obs("notifications_drained", drained.Load())
	c.Obs("harness_ops", cr.progress())
	var hk, ho int64
	cr.wmu.Lock()
	for _, w := range cr.workers {
		hk += w.huntsKnown
		c.Obs("bytes_of_router_copies_rendered_outside_the_lock", w.used)
		ho += w.huntsOther
	}
	cr.wmu.Unlock()
	c.Obs("dhcp_hunts_of_leased_addresses", hk)
	c.Obs("dhcp_hunts_of_other_addresses", ho)
	cr.dh.mu.Lock()
	c.Obs("dhcp_leases_acknowledged_in_stress", cr.dh.nAck)
	cr.dh.mu.Unlock()
	c.Obs("goroutines_before_close", int64(before))
	c.Obs("goroutines_after_close", int64(runtime.NumGoroutine()))
	overl := 0
	for _, p := range points {
		h := cr.counter(&cr.hits, p).Load()
		o := cr.counter(&cr.overlap, p).Load()
		c.Obs("yield_hits:"+p, h)
		c.Obs("yield_overlap:"+p, o)
		if o > 0 {
			overl++
		}
	}
	var yv []string
	for _, p := range points {
		yv = append(yv, fmt.Sprint(cr.yieldV[p]))
	}
	c.Class(fmt.Sprintf("procs=%d api=%d yield=%s log=%v", procs, nAPI, strings.Join(yv, ""), lv))
	c.Sample(map[string]any{"run": cr.idx, "GOMAXPROCS": procs, "api_goroutines": nAPI, "yield_vector(point order " + strings.Join(points, ",") + ")": strings.Join(yv, ""),
		"frames_handled": handled.Load(), "purges": purges.Load(), "barriers": barriers, "harness_ops": cr.progress(), "history_ops": nh, "yield_points_with_overlap": overl})
}

// stalled decides between deadlock and slowness: a deadlock verdict needs at least two goroutines blocked on a lock inside
// library code AND a process that burns no CPU over a 3 s window (nothing runnable that could release them); anything else
// is inconclusive.
func (cr *c09Run) stalled(why string) {
	c := cr.c
	cpu0 := processCPU()
	buf := make([]byte, 4<<20)
	// goroutines waiting for a library lock now ...
	before := map[string]string{}
	for _, g := range strings.Split(string(buf[:runtime.Stack(buf, true)]), "\n\n") {
		hdr := strings.SplitN(g, "\n", 2)[0]
		if (strings.Contains(hdr, "sync.Mutex.Lock") || strings.Contains(hdr, "sync.RWMutex")) && strings.Contains(g, "github.com/irai/packet") {
			before[strings.SplitN(hdr, " [", 2)[0]] = firstPacketFrame(g)
		}
	}
	time.Sleep(3 * time.Second)
	cpu := processCPU() - cpu0
	dump := string(buf[:runtime.Stack(buf, true)])
	var blocked, nested, persistent []string
	for _, g := range strings.Split(dump, "\n\n") {
		hdr := strings.SplitN(g, "\n", 2)[0]
		if (strings.Contains(hdr, "sync.Mutex.Lock") || strings.Contains(hdr, "sync.RWMutex")) && strings.Contains(g, "github.com/irai/packet") {
			blocked = append(blocked, firstPacketFrame(g))
			// ... and still waiting at the same place three seconds later: the library's critical sections take microseconds
			if f, ok := before[strings.SplitN(hdr, " [", 2)[0]]; ok && f == firstPacketFrame(g) {
				persistent = append(persistent, f)
			}
			// a goroutine blocked two or more library frames deep may hold another library lock: candidates for the cycle
			depth := 0
			for _, l := range strings.Split(g, "\n") {
				if strings.HasPrefix(l, "github.com/irai/packet") {
					depth++
				}
			}
			if depth >= 2 {
				nested = append(nested, firstPacketFrame(g))
			}
		}
	}
	sort.Strings(blocked)
	var uniq []string
	keyed := blocked
	if len(nested) > 0 {
		sort.Strings(nested)
		keyed = nested
	}
	for _, b := range keyed {
		if len(uniq) == 0 || uniq[len(uniq)-1] != b {
			uniq = append(uniq, b)
		}
	}
	if len(persistent) > 0 && !(len(blocked) >= 2 && cpu < 300*time.Millisecond) {
		// a lock that is never released (no cycle needed): the rest of the process may be busy
		sort.Strings(persistent)
		var pu []string
		for _, b := range persistent {
			if len(pu) == 0 || pu[len(pu)-1] != b {
				pu = append(pu, b)
			}
		}
		c.Viol("deadlock:"+strings.Join(pu, "|"), fmt.Sprintf("%s; %d goroutines have been waiting for a library lock at the same place for 3 s; goroutine dump:\n%s", why, len(persistent), dump[:min(len(dump), 16000)]), map[string]any{"index": cr.idx})
		return
	}
	if len(blocked) >= 2 && cpu < 300*time.Millisecond {
		c.Viol("deadlock:"+strings.Join(uniq, "|"), fmt.Sprintf("%s; %d goroutines blocked on locks inside the library, process used %v CPU in 3 s; goroutine dump:\n%s", why, len(blocked), cpu, dump[:min(len(dump), 16000)]), map[string]any{"index": cr.idx})
	} else {
		c.Inconclusive(fmt.Sprintf("run %d stalled (%s) but blocked=%d cpu=%v", cr.idx, why, len(blocked), cpu))
	}
	cr.stop.Store(true)
	cr.st.rec.Close()
}

func processCPU() time.Duration {
	var ru syscall.Rusage
	syscall.Getrusage(syscall.RUSAGE_SELF, &ru)
	return time.Duration(ru.Utime.Nano() + ru.Stime.Nano())
}

func firstPacketFrame(dump string) string {
	for _, l := range strings.Split(dump, "\n") {
		if i := strings.Index(l, "github.com/irai/packet"); i >= 0 && !strings.Contains(l, "/repo/") {
			f := l[i+len("github.com/irai/packet"):]
			if j := strings.Index(f, "("); j > 0 && !strings.HasPrefix(f, ".(") {
				f = f[:j]
			} else if j := strings.LastIndex(f, "("); j > 0 {
				f = f[:j]
			}
			f = strings.TrimPrefix(strings.TrimPrefix(f, "/"), "handlers/")
			if strings.HasPrefix(f, ".") {
				f = "packet" + f
			}
			return f
		}
	}
	return "?"
}

// c09CloseBubble builds the topology in a synctest bubble and closes it: a goroutine started by the library that survives
// Close makes the bubble fail deterministically ("blocked goroutines remain").
func c09CloseBubble(c *wk.Ctx, idx int64, r *rand.Rand) {
	scratch := os.Getenv("VERIF_SCRATCH")
	if scratch == "" {
		scratch = os.TempDir()
	}
	runBubble(c, idx, func() {
		st := newStack(scratch, mon.DefaultNIC())
		e := gen.DefaultEnv()
		time.Sleep(time.Second)
		for i := 0; i < 3; i++ {
			st.arp.StartHunt(packet.Addr{MAC: hw(c09MACs[i]), IP: c09IPs()[i]})
			st.icmp6.StartHunt(packet.Addr{MAC: hw(c09MACs[i]), IP: c09IPs()[6+2*i]})
		}
		for i := 0; i < 40; i++ {
			if i%5 == 0 {
				// progress marker for the driver's CPU watchdog: under the race detector a bubble with its quiet periods costs
				// seconds of CPU as a whole, a stretch of five frames a fraction of one
				c.Begin(idx*16+int64(i/5), "c09-close", nil)
			}
			b := c09Frame(r, e)
			if frame, err := st.s.Parse(b); err == nil {
				st.dispatch(frame)
				st.s.Notify(frame)
			}
			if i%10 == 0 {
				time.Sleep(time.Duration(r.Intn(7)) * time.Second)
			}
			if i == 20 || i == 30 {
				c.Begin(idx*16+10+int64(i/30), "c09-close", nil)
				// minutes without traffic (virtual time costs nothing): the slow background timers - the 3 minute NIC monitor,
				// the minute ticker's purge, the hunts' repeats - run between two packets, under the race detector
				time.Sleep(time.Duration(200+r.Intn(200)) * time.Second)
				c.Obs("close_bubble_quiet_periods", 1)
			}
		}
		synctest.Wait()
		c.Begin(idx*16+9, "c09-close", nil)
		st.arp.Close()
		st.icmp6.Close()
		st.dhcp.Close()
		st.s.Close()
		time.Sleep(10 * time.Second)
		synctest.Wait()
		c.Obs("close_bubbles", 1)
	})
}

func runC09(c *wk.Ctx) {
	// one stress run per worker process (shard = run); thorough runs several rounds
	rounds := int(c.N(1, 6))
	for k := 0; k < rounds; k++ {
		idx := int64(c.Shard + k*c.NShards + 1)
		if c.Only >= 0 && c.Only != idx {
			continue
		}
		r := c.Rand("c09", idx)
		c.Begin(idx*1000, "c09-stress", nil)
		c.Eval()
		cr := &c09Run{c: c, idx: idx, r: r}
		cr.run()
		for j := 0; j < 5; j++ {
			c09CloseBubble(c, idx*1000+900+int64(j), r)
			c.Begin(idx*1000+990+int64(j), "c09-close-done", nil)
		}
		c09CloseStorm(c, idx)
	}
}

// c09CloseStorm: Close racing Close, many times. Six goroutines leave a spin barrier together and call Close on a fresh
// session; a panic in any of them (double close of a channel, of the connection) is reported, and so is a Close that does
// not return. The single concurrent Close at the end of the stress run meets one schedule; this meets a few hundred.
func c09CloseStorm(c *wk.Ctx, idx int64) {
	const racers, batch = 6, 50
	n := int(c.N(150, 600))
	for k0 := 0; k0 < n; k0 += batch {
		c.Begin(idx*1000+800+int64(k0/batch), "c09-close-storm", nil)
		// Close sleeps a second before it returns: the sessions of a batch are closed side by side
		var wg sync.WaitGroup
		bad := atomic.Bool{}
		for k := k0; k < k0+batch; k++ {
			rec := mon.NewRecorder(1)
			s, err := mon.NewSession(rec, mon.DefaultNIC(), 0, 0, 0)
			if err != nil {
				panic("HARNESS BUG: " + err.Error())
			}
			ready := new(atomic.Int32)
			for g := 0; g < racers; g++ {
				wg.Add(1)
				go func() {
					defer wg.Done()
					ready.Add(1)
					for ready.Load() < racers {
						runtime.Gosched() // the stress run may have left GOMAXPROCS at 1 or 2
					}
					if c.Guard("C09", func() any { return map[string]any{"index": idx, "storm_round": k, "racers": racers} }, func() { s.Close() }) != nil {
						bad.Store(true)
					}
				}()
			}
		}
		done := make(chan struct{})
		go func() { wg.Wait(); close(done) }()
		select {
		case <-done:
		case <-time.After(30 * time.Second):
			buf := make([]byte, 1<<20)
			dump := string(buf[:runtime.Stack(buf, true)])
			c.Viol("deadlock-in-concurrent-close:"+firstPacketFrame(dump), "six concurrent Close calls did not all return within 30 s:\n"+dump[:min(len(dump), 12000)], map[string]any{"index": idx, "storm_batch": k0 / batch})
			return
		}
		c.Obs("sessions_closed_by_six_goroutines_at_once", batch)
		if bad.Load() {
			return
		}
	}
	time.Sleep(200 * time.Millisecond)
}
