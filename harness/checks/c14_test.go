package checks

import (
	"bytes"
	"fmt"
	"math/rand"
	"net"
	"net/netip"
	"strings"
	"testing/synctest"
	"time"

	"github.com/irai/packet"
	"github.com/irai/packet/handlers/icmp_spoofer"

	"verif/harness/gen"
	"verif/harness/mon"
	"verif/harness/refdec"
	"verif/harness/wk"
)

func init() { register("C14", runC14) }

var (
	c14Targets = []packet.Addr{
		{MAC: net.HardwareAddr{0x02, 0xa1, 0, 0, 0, 1}, IP: netip.MustParseAddr("fe80::a1")},
		{MAC: net.HardwareAddr{0x02, 0xa2, 0, 0, 0, 2}}, // address-less: spoofed through its unicast MAC and ff02::1
		{MAC: net.HardwareAddr{0x02, 0xa3, 0, 0, 0, 3}, IP: netip.MustParseAddr("fe80::a3")},
		{MAC: net.HardwareAddr{0x02, 0xa4, 0, 0, 0, 4}, IP: netip.MustParseAddr("192.168.0.44")}, // IPv4: must be rejected
		{MAC: net.HardwareAddr{0x02, 0xa5, 0, 0, 0, 5}, IP: netip.MustParseAddr("2001:db8::a5")}, // global: must be ignored
		// neither link-local nor global unicast: must be ignored as well
		{MAC: net.HardwareAddr{0x02, 0xa6, 0, 0, 0, 6}, IP: netip.MustParseAddr("ff02::1")},
		{MAC: net.HardwareAddr{0x02, 0xa7, 0, 0, 0, 7}, IP: netip.MustParseAddr("::1")},
		{MAC: net.HardwareAddr{0x02, 0xa8, 0, 0, 0, 8}, IP: netip.MustParseAddr("::")},
		{MAC: net.HardwareAddr{0x02, 0xa9, 0, 0, 0, 9}, IP: netip.MustParseAddr("fd00::a9")}, // unique local
	}
	c14Routers = []struct {
		mac refdec.MAC
		ip  netip.Addr
	}{
		{refdec.MAC{0x02, 0x66, 0x66, 0x66, 0x66, 0x66}, netip.MustParseAddr("fe80::1")},
		{refdec.MAC{0x02, 0x67, 0, 0, 0, 0x67}, netip.MustParseAddr("fe80::2")},
		// a router that sources its advertisements from a global address (accepted and learned like the others)
		{refdec.MAC{0x02, 0x68, 0, 0, 0, 0x68}, netip.MustParseAddr("2001:db8:1::3")},
	}
)

type nop struct {
	K     string // start stop close ra ns wait
	T     int
	Delay time.Duration
}

func (o nop) String() string { return fmt.Sprintf("+%v %s(%d)", o.Delay, o.K, o.T) }

type naFrame struct {
	seq    int
	t      time.Time
	dst    refdec.MAC
	dstIP  netip.Addr
	target netip.Addr
	hop    byte
	over   bool
}

type c14Event struct {
	t    time.Time
	seq  int
	kind string
	mac  string
	note string
}

// raFrame builds an RA from router j with the given option list.
func raFrame(j int, ra refdec.RA) []byte { return raFrameFrom(j, ra, c14Routers[j].mac) }

// raFrameFrom: router j's advertisement sent from Ethernet address src (the router's own, or another one when the router's
// hardware was replaced or a standby took over its address).
func raFrameFrom(j int, ra refdec.RA, src refdec.MAC) []byte {
	rt := c14Routers[j]
	dst := netip.MustParseAddr("ff02::1")
	return refdec.Ether(refdec.MAC{0x33, 0x33, 0, 0, 0, 1}, src, 0x86dd, 0, refdec.IP6(refdec.IP6Hdr{Next: 58, Hop: 255, Src: rt.ip, Dst: dst, PayloadLen: -1},
		refdec.ICMP6(rt.ip, dst, refdec.NDPRouterAdvert, 0, ra.Body())))
}

func c14History(c *wk.Ctx, idx int64, ops []nop) (nForged int, viol bool) {
	nic := mon.DefaultNIC()
	rec := mon.NewRecorder(8)
	s, err := mon.NewSession(rec, nic, 30*time.Minute, 60*time.Minute, 24*time.Hour)
	if err != nil {
		panic("HARNESS BUG: " + err.Error())
	}
	h, err := icmp_spoofer.New6(s)
	if err != nil {
		panic("HARNESS BUG: " + err.Error())
	}
	closed := false
	defer func() {
		h.Close()
		s.Close()
		synctest.Wait()
	}()
	host := toMAC(nic.HostMAC)
	t0 := time.Now()
	time.Sleep(time.Second)
	var events []c14Event
	hunted := map[string]bool{}
	learned := map[netip.Addr]bool{}
	cs := func() map[string]any {
		var os []string
		for _, o := range ops {
			os = append(os, o.String())
		}
		return map[string]any{"index": idx, "history": os}
	}
	rx := newRx()
	feed := func(b []byte) {
		frame, err := s.Parse(rx.load(b))
		if err != nil {
			panic("HARNESS BUG: frame rejected: " + err.Error())
		}
		h.ProcessPacket(frame)
		s.Notify(frame)
		rx.scribble() // the next ReadFrom overwrites the receive buffer
	}
	fail := func(key, detail string, extra map[string]any) {
		if !viol {
			d := cs()
			for k, v := range extra {
				d[k] = v
			}
			c.Viol(key, detail, d)
		}
		viol = true
	}
	for _, o := range ops {
		if closed {
			break
		}
		time.Sleep(o.Delay)
		synctest.Wait()
		tgt := c14Targets[o.T%len(c14Targets)]
		if o.T >= 100 && tgt.IP.IsLinkLocalUnicast() {
			// the same station under another link-local address: hunts are keyed (and idempotent) per MAC
			tgt.IP = netip.AddrFrom16([16]byte{0xfe, 0x80, 14: 0xee, 15: byte(o.T)})
			c.Obs("hunt_calls_with_another_address", 1)
		}
		ev := c14Event{t: time.Now(), seq: rec.Count(), kind: o.K, mac: string(tgt.MAC)}
		pi := c.Guard("C14", func() any { return cs() }, func() {
			switch o.K {
			case "start":
				stage, err := h.StartHunt(tgt)
				switch {
				case tgt.IP.Is4():
					if err == nil {
						fail("icmp6:starthunt-accepts-ipv4", fmt.Sprintf("StartHunt(%v) returned stage %v without error", tgt.IP, stage), nil)
					}
				case tgt.IP.IsValid() && !tgt.IP.IsLinkLocalUnicast():
					ev.note = "ignored-global"
				default:
					if err == nil && !hunted[string(tgt.MAC)] {
						hunted[string(tgt.MAC)] = true
						ev.note = "new"
					}
				}
			case "stop":
				h.StopHunt(tgt)
				if hunted[string(tgt.MAC)] {
					delete(hunted, string(tgt.MAC))
					ev.note = "was-hunted"
				}
			case "close":
				h.Close()
				closed = true
			case "ra":
				j := o.T % len(c14Routers)
				ra := refdec.RA{HopLimit: 64, Flags: 0x40, Lifetime: 1800, Opts: []refdec.NDPOpt{refdec.OptLLA(refdec.OptSLLA, c14Routers[j].mac)}}
				for k := 0; k < 4; k++ { // the handler looks at every 4th RA of the process
					feed(raFrame(j, ra))
				}
				learned[c14Routers[j].ip] = true
				ev.note = c14Routers[j].ip.String()
			case "ns":
				src := tgt.IP
				if !src.Is6() {
					src = netip.MustParseAddr("fe80::99")
				}
				dst := netip.MustParseAddr("ff02::1:ff00:1")
				feed(refdec.Ether(refdec.MulticastMAC6(dst), toMAC(tgt.MAC), 0x86dd, 0, refdec.IP6(refdec.IP6Hdr{Next: 58, Hop: 255, Src: src, Dst: dst, PayloadLen: -1},
					refdec.ICMP6(src, dst, refdec.NDPNeighborSolicit, 0, refdec.NSBody(netip.MustParseAddr("fe80::1"), refdec.OptLLA(refdec.OptSLLA, toMAC(tgt.MAC)))))))
			}
		})
		if pi != nil {
			return nForged, true
		}
		events = append(events, ev)
		synctest.Wait()
	}
	time.Sleep(3 * time.Second)
	synctest.Wait()
	endSeq := rec.Count()
	if !closed {
		h.Close()
	}
	closeSeq := rec.Count()
	for _, e := range events {
		if e.kind == "close" {
			closeSeq = e.seq
		}
	}
	// a hunt asked for after Close must not send anything either (whatever StartHunt answers): the rule "nothing forged after
	// Close" below covers the six seconds that follow
	if idx%2 == 0 {
		c.Guard("C08", func() any { return cs() }, func() {
			h.StartHunt(c14Targets[int(idx)%len(c14Targets)])
			h.StartHunt(packet.Addr{MAC: c14Targets[(int(idx)+1)%len(c14Targets)].MAC})
		})
		c.Obs("starthunt_after_close", 1)
	}
	time.Sleep(6 * time.Second)
	synctest.Wait()
	raw := rec.Take()
	txObserve(c, nic, "icmp6-spoofer", raw, func() any { return cs() })
	var nas []naFrame
	for _, f := range raw {
		d := refdec.Decode(f.Data)
		if d.Err || d.PayloadID != refdec.PICMP6 {
			continue
		}
		icmp := f.Data[d.OffIP6+40:]
		if len(icmp) < 32 || icmp[0] != refdec.NDPNeighborAdvert {
			continue
		}
		opts, _ := refdec.SplitOptions(icmp[24:])
		forged := false
		for _, o := range opts {
			if o.Type == refdec.OptTLLA && bytes.Equal(o.Body, host[:]) {
				forged = true
			}
		}
		tgt := netip.AddrFrom16([16]byte(icmp[8:24]))
		if !forged || tgt == nic.HostLLA {
			continue
		}
		nas = append(nas, naFrame{seq: f.Seq, t: f.T, dst: d.DstMAC, dstIP: d.DstIP, target: tgt, hop: f.Data[d.OffIP6+7], over: icmp[4]&0x20 != 0})
	}
	timeline := func() map[string]any {
		var tl, fl []string
		for _, e := range events {
			tl = append(tl, fmt.Sprintf("%v seq=%d %s(%x) %s", e.t.Sub(t0), e.seq, e.kind, e.mac, e.note))
		}
		for _, f := range nas {
			fl = append(fl, fmt.Sprintf("%v seq=%d forged-na target=%v -> %x/%v hop=%d override=%v", f.t.Sub(t0), f.seq, f.target, f.dst[:], f.dstIP, f.hop, f.over))
		}
		return map[string]any{"calls": tl, "forged_frames": fl}
	}
	// hunt membership and learned routers by sequence point
	type span struct {
		mac        string
		sSeq, eSeq int
		start      time.Time
		restart    bool // started less than one spoof period after a StopHunt of the same MAC: the old loop may survive
	}
	lastStop := map[string]time.Time{}
	var spans []*span
	cur := map[string]*span{}
	learnedAt := map[netip.Addr]int{}
	for _, e := range events {
		switch {
		case e.kind == "start" && e.note == "new":
			sp := &span{mac: e.mac, sSeq: e.seq, eSeq: endSeq + 1<<30, start: e.t}
			if ls, ok := lastStop[e.mac]; ok && e.t.Sub(ls) <= 2800*time.Millisecond {
				sp.restart = true
			}
			cur[e.mac] = sp
			spans = append(spans, sp)
		case e.kind == "stop" && e.note == "was-hunted":
			cur[e.mac].eSeq = e.seq
			delete(cur, e.mac)
			lastStop[e.mac] = e.t
		case e.kind == "close":
			for _, sp := range cur {
				sp.eSeq = e.seq
			}
		case e.kind == "ra":
			ip, _ := netip.ParseAddr(e.note)
			if _, ok := learnedAt[ip]; !ok {
				learnedAt[ip] = e.seq
			}
		}
	}
	inHunt := func(mac string, seq int) bool {
		for _, sp := range spans {
			if sp.mac == mac && seq >= sp.sSeq && seq < sp.eSeq {
				return true
			}
		}
		return false
	}
	lastTo := map[string]naFrame{}
	// sequence ranges covered by router advertisement steps (each step feeds the RA four times and each copy wakes the loops)
	raSeqs := [][2]int{}
	for i, e := range events {
		if e.kind == "ra" {
			end := endSeq + 1<<30
			if i+1 < len(events) {
				end = events[i+1].seq
			}
			raSeqs = append(raSeqs, [2]int{e.seq, end})
		}
	}
	for _, f := range nas {
		nForged++
		if f.seq >= closeSeq {
			fail("icmp6:forged-after-close", fmt.Sprintf("forged NA to %x at %v after Close", f.dst[:], f.t.Sub(t0)), timeline())
		}
		if la, ok := learnedAt[f.target]; !ok || f.seq < la {
			fail("icmp6:forged-unlearned-router", fmt.Sprintf("forged NA for %v which was not learned from a router advertisement at that point", f.target), timeline())
		}
		if !f.over {
			fail("icmp6:forged-without-override", "forged NA without the override flag", timeline())
		}
		if f.hop != 255 {
			fail("icmp6:forged-hop-limit", fmt.Sprintf("forged NA with hop limit %d", f.hop), timeline())
		}
		if !inHunt(string(f.dst[:]), f.seq) {
			fail("icmp6:forged-to-non-hunted", fmt.Sprintf("forged NA (router %v is at our MAC) sent to %x at %v, not in the hunt list at that point", f.target, f.dst[:], f.t.Sub(t0)), timeline())
		}
		// a single loop per MAC: successive forged NAs for the same (MAC, router) are at least 2 s apart unless an RA woke the loop
		k := string(f.dst[:]) + f.target.String()
		if prev, ok := lastTo[k]; ok && f.t.Sub(prev.t) < 2*time.Second {
			woken := false
			for _, rs := range raSeqs {
				if rs[0] <= f.seq && rs[1] >= prev.seq {
					woken = true
				}
			}
			restarted := false
			for _, sp := range spans {
				if sp.mac == string(f.dst[:]) && ((sp.sSeq > prev.seq && sp.sSeq <= f.seq) || (sp.restart && f.seq >= sp.sSeq && f.seq < sp.eSeq)) {
					restarted = true
				}
			}
			if !woken && !restarted {
				fail("icmp6:double-loop", fmt.Sprintf("two forged NAs for router %v to %x only %v apart without a router advertisement in between", f.target, f.dst[:], f.t.Sub(prev.t)), timeline())
			}
		}
		lastTo[k] = f
	}
	// bounded progress: a hunted MAC gets a forged NA for every learned router within 2.8 s (+ the 3 s tail we waited)
	for _, sp := range spans {
		if sp.eSeq < endSeq+1<<30 {
			continue // stopped: only confinement applies
		}
		for rt, la := range learnedAt {
			_ = la
			found := false
			for _, f := range nas {
				if string(f.dst[:]) == sp.mac && f.target == rt && f.seq >= sp.sSeq {
					found = true
				}
			}
			if !found {
				fail("icmp6:no-forged-na-while-hunted", fmt.Sprintf("%x is hunted and router %v is known but no forged NA was sent", sp.mac, rt), timeline())
			}
		}
	}
	c.Obs("forged_nas", int64(nForged))
	c.Obs("hunt_spans", int64(len(spans)))
	return nForged, viol
}

// c14Learning: an RA built from a generated option list must be recorded exactly as refdec reads it.
func c14Learning(c *wk.Ctx, idx int64, r *rand.Rand, s *packet.Session, h *icmp_spoofer.Handler6) {
	j := r.Intn(len(c14Routers))
	rt := c14Routers[j]
	ra := refdec.RA{HopLimit: byte(r.Intn(256)), Flags: byte(r.Intn(256)) &^ 0x10, Lifetime: uint16(r.Intn(65536)), Reachable: uint32(r.Int31()), Retrans: uint32(r.Int31()), Opts: gen.RAOpts(r, rt.mac)}
	b := raFrame(j, ra)
	d := refdec.Decode(b)
	want, err := refdec.DecodeRA(b[d.OffIP6+40:])
	if err != nil {
		panic("HARNESS BUG: reference decoder rejects the generated RA: " + err.Error())
	}
	cs := func() any { return map[string]any{"index": idx, "ra_frame_hex": wk.Hex(b)} }
	c.Eval()
	if r.Intn(6) == 0 {
		// an advertisement whose IPv6 source is nobody's address (unspecified, a group, loopback): no station stands behind it,
		// nothing is learned from it
		src := []netip.Addr{netip.IPv6Unspecified(), netip.MustParseAddr("ff02::1"), netip.IPv6Loopback()}[r.Intn(3)]
		dst := netip.MustParseAddr("ff02::1")
		fb := refdec.Ether(refdec.MAC{0x33, 0x33, 0, 0, 0, 1}, rt.mac, 0x86dd, 0, refdec.IP6(refdec.IP6Hdr{Next: 58, Hop: 255, Src: src, Dst: dst, PayloadLen: -1},
			refdec.ICMP6(src, dst, refdec.NDPRouterAdvert, 0, ra.Body())))
		cs2 := func() any { return map[string]any{"index": idx, "ra_frame_hex": wk.Hex(fb), "source": src.String()} }
		if pi := c.Guard("C08", cs2, func() {
			for k := 0; k < 4; k++ {
				if frame, err := s.Parse(append([]byte(nil), fb...)); err == nil {
					h.ProcessPacket(frame)
				}
			}
		}); pi != nil {
			return
		}
		if got := h.FindRouter(src); got.Addr.IP.IsValid() || len(got.Addr.MAC) != 0 {
			c.Viol("router:learned-from-nobody", fmt.Sprintf("a router advertisement with source %v put a router %v / %v into the table", src, got.Addr.IP, got.Addr.MAC), cs2())
			return
		}
		c.Obs("ra_from_nobody_checked", 1)
		return
	}
	if pi := c.Guard("C08", cs, func() {
		// as in the read loop, every frame arrives in the same receive buffer, which the next frame overwrites: what the
		// router table records must not depend on the buffer afterwards
		rx := make([]byte, packet.EthMaxSize)
		for k := 0; k < 4; k++ {
			n := copy(rx, b)
			frame, err := s.Parse(rx[:n])
			if err != nil {
				panic("HARNESS BUG: RA frame rejected: " + err.Error())
			}
			h.ProcessPacket(frame)
		}
		for i := range rx {
			rx[i] = 0xa5
		}
	}); pi != nil {
		return
	}
	got := h.FindRouter(rt.ip)
	bad := func(field string, g, w any) {
		c.Viol("router:"+field, fmt.Sprintf("router %v %s = %v, the advertisement says %v", rt.ip, field, g, w), cs())
	}
	wantMAC := rt.mac
	if want.SLLA != nil {
		wantMAC = *want.SLLA
	}
	switch {
	case got.Addr.IP != rt.ip || !bytes.Equal(got.Addr.MAC, rt.mac[:]):
		bad("addr", fmt.Sprint(got.Addr.IP, got.Addr.MAC), fmt.Sprint(rt.ip, rt.mac))
	case got.ManagedFlag != want.Managed:
		bad("managed-flag", got.ManagedFlag, want.Managed)
	case got.OtherCondigFlag != want.Other:
		bad("other-flag", got.OtherCondigFlag, want.Other)
	case got.Preference != want.Pref:
		bad("preference", got.Preference, want.Pref)
	case got.CurHopLimit != want.HopLimit:
		bad("hop-limit", got.CurHopLimit, want.HopLimit)
	case got.DefaultLifetime != time.Duration(want.Lifetime)*time.Second:
		bad("lifetime", got.DefaultLifetime, want.Lifetime)
	case got.ReacheableTime != int(want.Reachable):
		bad("reachable-time", got.ReacheableTime, want.Reachable)
	case got.RetransTimer != int(want.Retrans):
		bad("retrans-timer", got.RetransTimer, want.Retrans)
	case want.SLLA != nil && !bytes.Equal(got.Options.SourceLLA.MAC, wantMAC[:]):
		bad("source-lla", got.Options.SourceLLA.MAC, wantMAC)
	case want.HasMTU && uint32(got.Options.MTU) != want.MTU:
		bad("mtu", got.Options.MTU, want.MTU)
	case len(got.Prefixes) != len(want.Prefixes) || len(got.Options.Prefixes) != len(want.Prefixes):
		bad("prefix-count", len(got.Prefixes), len(want.Prefixes))
	default:
		for i, p := range want.Prefixes {
			g := got.Prefixes[i]
			masked := netip.PrefixFrom(p.Prefix, int(p.Len)).Masked().Addr()
			if g.PrefixLength != p.Len || g.OnLink != p.OnLink || g.AutonomousAddressConfiguration != p.Auto || g.ValidLifetime != time.Duration(p.Valid)*time.Second ||
				g.PreferredLifetime != time.Duration(p.Preferred)*time.Second || !bytes.Equal(g.Prefix.To16(), masked.AsSlice()) {
				bad("prefix", fmt.Sprintf("%+v", g), fmt.Sprintf("%+v", p))
				return
			}
		}
		if want.RDNSS != nil {
			g := got.Options.RDNSS
			if g.Lifetime != time.Duration(want.RDNSS.Lifetime)*time.Second || len(g.Servers) != len(want.RDNSS.Servers) {
				bad("rdnss", fmt.Sprintf("%+v", g), fmt.Sprintf("%+v", *want.RDNSS))
				return
			}
			for i, sv := range want.RDNSS.Servers {
				if !bytes.Equal(g.Servers[i].To16(), sv.AsSlice()) {
					bad("rdnss-server", g.Servers[i], sv)
					return
				}
			}
		}
		if want.DNSSL != nil {
			g := got.Options.DNSSearchList
			if g.Lifetime != time.Duration(want.DNSSL.Lifetime)*time.Second || strings.Join(g.DomainNames, ",") != strings.Join(want.DNSSL.Domains, ",") {
				bad("dnssl", fmt.Sprintf("%+v", g), fmt.Sprintf("%+v", *want.DNSSL))
				return
			}
		}
		if want.Route != nil {
			g := got.Options.RouteInformation
			n := int(want.Route.Len) / 8
			wp := want.Route.Prefix.As16()
			if g.PrefixLength != want.Route.Len || uint8(g.Preference) != want.Route.Pref || g.RouteLifetime != time.Duration(want.Route.Lifetime)*time.Second || !bytes.Equal([]byte(g.Prefix), wp[:n]) {
				bad("route-information", fmt.Sprintf("%+v", g), fmt.Sprintf("%+v", *want.Route))
				return
			}
		}
		lr := h.LANRouters[rt.ip]
		if lr == nil || lr.Addr.IP != rt.ip {
			bad("lanrouters", lr, rt.ip)
			return
		}
		c.Obs("ra_compared", 1)
		c.Class(fmt.Sprintf("ra prefixes=%d mtu=%v rdnss=%v dnssl=%v route=%v slla=%v unknown=%v", len(want.Prefixes), want.HasMTU, want.RDNSS != nil, want.DNSSL != nil, want.Route != nil, want.SLLA != nil, len(want.Unknown) > 0))
		if c.WantSample() {
			c.Sample(map[string]any{"ra_frame_hex": wk.Hex(b), "prefixes": len(want.Prefixes), "options": len(want.Opts)})
		}
	}
}

func runC14(c *wk.Ctx) {
	if c.Shard == 0 {
		if err := refdec.SelfTest(); err != nil {
			fmt.Println("SELFTEST FAILED:", err)
			panic("SELFTEST FAILED")
		}
	}
	n := c.N(600, 30_000)
	delays := []time.Duration{0, 100 * time.Millisecond, time.Second, 2 * time.Second, 2800 * time.Millisecond, 3 * time.Second, 5 * time.Second}
	for i := int64(0); i < n; i++ {
		idx := i + 1
		if !c.Mine(idx) {
			continue
		}
		r := c.Rand("c14", i)
		ops := make([]nop, 6+r.Intn(14))
		for k := range ops {
			o := nop{T: r.Intn(len(c14Targets)), Delay: delays[r.Intn(len(delays))]}
			switch x := r.Intn(16); {
			case x < 5:
				o.K = "start"
				if r.Intn(5) == 0 {
					o.T += 100 * len(c14Targets) // same target, called with another link-local address
				}
			case x < 8:
				o.K, o.T = "stop", r.Intn(3)
				if r.Intn(5) == 0 {
					o.T += 100 * len(c14Targets)
				}
			case x < 12:
				o.K = "ra"
			case x < 13:
				o.K = "ns"
			default:
				o.K = "wait"
			}
			ops[k] = o
		}
		if r.Intn(4) == 0 {
			ops = append(ops, nop{K: "close", Delay: time.Second})
		}
		c.Begin(idx, "icmp6-hunt-history", nil)
		c.Eval()
		var nf int
		var viol bool
		runBubble(c, idx, func() { nf, viol = c14History(c, idx, ops) })
		if !viol && nf > 0 {
			c.Class(fmt.Sprintf("hunt forged~%d", min(nf/4, 8)))
		}
	}
	// router learning (real time is irrelevant here: no bubble needed)
	s, err := mon.NewSession(mon.NewRecorder(4), mon.DefaultNIC(), 0, 0, 0)
	if err != nil {
		panic("HARNESS BUG: " + err.Error())
	}
	h, _ := icmp_spoofer.New6(s)
	nra := c.N(5_000, 500_000)
	for i := int64(0); i < nra; i++ {
		idx := 1_000_000_000 + i
		if !c.Mine(idx) {
			continue
		}
		if i%500 == 0 {
			go s.Close()
			s, _ = mon.NewSession(mon.NewRecorder(4), mon.DefaultNIC(), 0, 0, 0)
			h, _ = icmp_spoofer.New6(s)
		}
		c.Begin(idx, "icmp6.ProcessPacket(RA)", nil)
		c14Learning(c, idx, c.Rand("c14ra", i), s, h)
	}
}
