package checks

import (
	"fmt"
	"math/rand"
	"net"
	"net/netip"
	"os"
	"sort"
	"strings"
	"testing/synctest"
	"time"

	"github.com/irai/packet"

	"verif/harness/gen"
	"verif/harness/mon"
	"verif/harness/refdec"
	"verif/harness/wk"
)

func init() { register("C10", runC10) }

// c10Step is one step of a packet history; packets are produced lazily because DHCP requests depend on the offers seen.
type c10Step struct {
	kind string // frame, dhcp-disc, dhcp-sel, dhcp-renew, ra, capture, release, adv
	b    []byte
	cl   int
	d    time.Duration
	name string // DNS name to look up afterwards
}

func nameOf(ne packet.NameEntry) string {
	return fmt.Sprintf("%s/%s/%s/%s", ne.Name, ne.Model, ne.OS, ne.Manufacturer)
}

// c10Snapshot renders every retention point in a canonical form.
func c10Snapshot(st *stack, names []string, leaseFile string, macs []net.HardwareAddr) []string {
	var out []string
	var hosts []string
	for _, h := range st.s.GetHosts() {
		h.MACEntry.Row.RLock()
		hosts = append(hosts, fmt.Sprintf("host %s %v online=%v man=%q names=%s|%s|%s|%s|%s", h.MACEntry.MAC, h.Addr.IP, h.Online, h.Manufacturer,
			nameOf(h.DHCP4Name), nameOf(h.MDNSName), nameOf(h.SSDPName), nameOf(h.LLMNRName), nameOf(h.NBNSName)))
		h.MACEntry.Row.RUnlock()
	}
	sort.Strings(hosts)
	out = append(out, "hosts: "+strings.Join(hosts, "; "))
	var ms []string
	for _, m := range macs {
		if e := st.s.FindMACEntry(m); e != nil {
			e.Row.RLock()
			ms = append(ms, fmt.Sprintf("mac %s cap=%v ip4=%v offer=%v gua=%v lla=%v names=%s|%s|%s|%s|%s", e.MAC, e.Captured, e.IP4, e.IP4Offer, e.IP6GUA, e.IP6LLA,
				nameOf(e.DHCP4Name), nameOf(e.MDNSName), nameOf(e.SSDPName), nameOf(e.LLMNRName), nameOf(e.NBNSName)))
			e.Row.RUnlock()
		}
	}
	out = append(out, "macs: "+strings.Join(ms, "; "))
	var dns []string
	for _, n := range names {
		e := st.dns.DNSFind(n)
		var a, a6, cn, ptr []string
		for k, v := range e.IP4Records {
			a = append(a, k.String()+"="+v.Name)
		}
		for k, v := range e.IP6Records {
			a6 = append(a6, k.String()+"="+v.Name)
		}
		for k, v := range e.CNameRecords {
			cn = append(cn, k+">"+v.CName)
		}
		for k, v := range e.PTRRecords {
			ptr = append(ptr, k+"="+v.IP.String())
		}
		sort.Strings(a)
		sort.Strings(a6)
		sort.Strings(cn)
		sort.Strings(ptr)
		dns = append(dns, fmt.Sprintf("%s{%q A%v AAAA%v CNAME%v PTR%v}", n, e.Name, a, a6, cn, ptr))
	}
	out = append(out, "dns: "+strings.Join(dns, "; "))
	var rts []string
	for _, rt := range c14Routers {
		r := st.icmp6.FindRouter(rt.ip)
		if r.Addr.IP.IsValid() {
			rts = append(rts, fmt.Sprintf("%v/%s M=%v O=%v pref=%d hop=%d life=%v reach=%d retr=%d prefixes=%v opts=%+v", r.Addr.IP, r.Addr.MAC, r.ManagedFlag, r.OtherCondigFlag, r.Preference, r.CurHopLimit,
				r.DefaultLifetime, r.ReacheableTime, r.RetransTimer, r.Prefixes, r.Options))
		}
	}
	out = append(out, "routers: "+strings.Join(rts, "; "))
	if b, err := os.ReadFile(leaseFile); err == nil {
		// canonical form: the checksum line is dropped and the lease blocks are sorted (saveConfig iterates a map)
		txt := string(b)
		if strings.HasPrefix(txt, "#") {
			txt = txt[strings.Index(txt, "\n")+1:]
		}
		head, rest, _ := strings.Cut(txt, "leases:")
		blocks := strings.Split(strings.TrimRight(rest, "\n"), "\n- ")
		sort.Strings(blocks[1:])
		out = append(out, "leasefile: "+head+"leases:"+strings.Join(blocks, "\n- "))
	}
	return out
}

func canonFrame(f []byte) string {
	d := refdec.Decode(f)
	if !d.Err && d.OffUDP != 0 && (d.DstPort == 67 || d.DstPort == 68) {
		if m, err := refdec.ParseDHCP(f[d.OffUDP+8:]); err == nil {
			var opts []string
			for _, o := range m.Options {
				opts = append(opts, fmt.Sprintf("%d=%x", o.Code, o.Data))
			}
			sort.Strings(opts)
			return fmt.Sprintf("dhcp %x>%x %v>%v op=%d xid=%x ci=%v yi=%v ch=%x opts=%v", d.SrcMAC[:], d.DstMAC[:], d.SrcIP, d.DstIP, m.Op, m.XID, m.CI, m.YI, m.CHAddr[:6], opts)
		}
	}
	return wk.Hex(f)
}

// c10Run executes the history; shared=true delivers every packet in one receive buffer that is scribbled over after each step.
func c10Run(c *wk.Ctx, idx int64, seed int64, shared bool, scratch string) (transcript []string, retained int) {
	r := rand.New(rand.NewSource(seed))
	e := gen.DefaultEnv()
	nic := mon.DefaultNIC()
	st := newStack(scratch, nic)
	leaseFile := fmt.Sprintf("%s/leases-%d-%d.yaml", scratch, os.Getpid(), stackSeq)
	defer func() {
		st.arp.Close()
		st.dhcp.Close()
		st.icmp6.Close()
		st.s.Close()
		synctest.Wait()
		os.Remove(leaseFile)
	}()
	time.Sleep(3 * time.Second)
	st.rec.Take()
	var macs []net.HardwareAddr
	for _, m := range e.Clients {
		macs = append(macs, hw(m))
	}
	macs = append(macs, nic.RouterMAC, hw(c14Routers[1].mac))
	sharedBuf := make([]byte, packet.EthMaxSize)
	scribble := rand.New(rand.NewSource(seed ^ 0x5a5a))
	var mdnsKept []packet.IPNameEntry // what ProcessMDNS returned so far (the last 16 entries), re-read at every later step
	mdnsSeen := 0
	offered := map[int]netip.Addr{}
	acked := map[int]netip.Addr{}
	xid := map[int][4]byte{}
	var names []string
	nSteps := 24
	for step := 0; step < nSteps; step++ {
		var pkt []byte
		label := ""
		cl := r.Intn(len(e.Clients))
		mac := e.Clients[cl]
		dhcpReq := func(typ byte, fill func(m *refdec.DHCPMsg)) []byte {
			m := refdec.DHCPMsg{Op: 1, HType: 1, HLen: 6, XID: xid[cl]}
			copy(m.CHAddr[:], mac[:])
			m.Options = []refdec.DHCPOpt{{Code: 53, Data: []byte{typ}}, {Code: 12, Data: []byte(fmt.Sprintf("host-%d-%d", cl, step))}, {Code: 61, Data: append([]byte{1}, mac[:]...)}, {Code: 55, Data: []byte{1, 3, 6, 15}}}
			src := ip4zero
			fill(&m)
			if m.CI.IsValid() {
				src = m.CI
			}
			return dhcpFrame(mac, src, netip.MustParseAddr("255.255.255.255"), m, 68, 67, bcastMAC)
		}
		switch k := r.Intn(18); {
		case k == 17:
			// a runt frame: Ethernet header only
			pkt, label = refdec.Ether(toMAC(nic.HostMAC), mac, []uint16{0x0800, 0x86dd, 0x0806}[r.Intn(3)], 0, nil), "runt"
		case k == 16:
			// another DHCP server's OFFER to one of the clients, seen on port 68: in secondary mode the handler answers with a
			// forged DECLINE to that server, sent from a goroutine of its own after ProcessPacket has returned
			q := refdec.DHCPMsg{Op: 2, HType: 1, HLen: 6, XID: xid[cl], YI: e.LANIP(r)}
			copy(q.CHAddr[:], mac[:])
			q.Options = []refdec.DHCPOpt{{Code: 53, Data: []byte{2}}, {Code: 54, Data: ip4b(nic.RouterIP)}, {Code: 51, Data: []byte{0, 0, 14, 16}}, {Code: 61, Data: append([]byte{1}, mac[:]...)}}
			pkt, label = dhcpFrame(toMAC(nic.RouterMAC), nic.RouterIP, netip.MustParseAddr("255.255.255.255"), q, 67, 68, bcastMAC), "dhcp-foreign-offer"
		case k < 2:
			x := xid[cl]
			x[0], x[1], x[2], x[3] = byte(cl), byte(step), byte(seed), 0x10
			xid[cl] = x
			pkt, label = dhcpReq(1, func(m *refdec.DHCPMsg) {}), "dhcp-discover"
		case k < 4:
			a := offered[cl]
			if !a.IsValid() {
				a = e.LANIP(r)
			}
			pkt, label = dhcpReq(3, func(m *refdec.DHCPMsg) {
				m.Options = append(m.Options, refdec.DHCPOpt{Code: 54, Data: ip4b(nic.HostIP)}, refdec.DHCPOpt{Code: 50, Data: ip4b(a)})
			}), "dhcp-select"
		case k < 5:
			a := acked[cl]
			if !a.IsValid() {
				a = e.LANIP(r)
			}
			if r.Intn(3) == 0 {
				// INIT-REBOOT for an address that is not the client's lease: NAK, and in secondary mode a forged DECLINE to the
				// other server from a goroutine that outlives ProcessPacket
				x := xid[cl]
				x[3] = byte(step)
				xid[cl] = x
				pkt, label = dhcpReq(3, func(m *refdec.DHCPMsg) {
					m.Options = append(m.Options, refdec.DHCPOpt{Code: 50, Data: ip4b(e.LANIP(r))})
				}), "dhcp-reboot-other-address"
				break
			}
			pkt, label = dhcpReq(3, func(m *refdec.DHCPMsg) { m.CI = a }), "dhcp-renew"
		case k < 7:
			j := r.Intn(2)
			ra := refdec.RA{HopLimit: byte(r.Intn(256)), Flags: byte(r.Intn(256)) &^ 0x10, Lifetime: uint16(r.Intn(65536)), Reachable: uint32(r.Int31()), Retrans: uint32(r.Int31()), Opts: gen.RAOpts(r, c14Routers[j].mac)}
			pkt, label = raFrame(j, ra), "ra"
			if r.Intn(3) == 0 {
				// the router's address answers from another Ethernet address (hardware replaced, standby took over), with
				// or without a source link layer option
				alt := c14Routers[j].mac
				alt[5] ^= 0x40
				if r.Intn(2) == 0 {
					ra.Opts = gen.RAOpts(r, alt)
				} else {
					ra.Opts = nil
				}
				pkt, label = raFrameFrom(j, ra, alt), "ra-from-other-mac"
			}
		case k < 9:
			f := handlerFrame(r, e, []int{4, 5}[r.Intn(2)]) // dns / mdns responses
			pkt, label = f.B, f.Kind
			if d := refdec.Decode(pkt); !d.Err && d.OffUDP != 0 {
				if m, err := refdec.ParseDNS(pkt[d.OffUDP+8:]); err == nil && len(m.Q) > 0 {
					names = append(names, m.Q[0].Name)
				}
			}
		case k < 10:
			f := handlerFrame(r, e, 7) // nbns
			pkt, label = f.B, f.Kind
		case k < 11:
			f := handlerFrame(r, e, 8) // ssdp
			pkt, label = f.B, f.Kind
		case k < 13:
			f := handlerFrame(r, e, 0) // arp
			pkt, label = f.B, f.Kind
		case k < 14:
			pkt, label = buildFrame("f4", mac, e.LANIP(r)), "ip4-frame"
		case k < 15:
			a, _ := e.IP6(r)
			pkt, label = buildFrame("f6", mac, a), "ip6-frame"
		default:
			label = "api"
			switch r.Intn(3) {
			case 0:
				st.s.Capture(hw(mac))
				label = "capture"
			case 1:
				st.s.Release(hw(mac))
				label = "release"
			default:
				d := []time.Duration{time.Second, time.Minute, 6 * time.Minute}[r.Intn(3)]
				time.Sleep(d)
				st.dhcp.MinuteTicker(time.Now())
				label = "adv " + d.String()
			}
		}
		reps := 1
		if label == "ra" || label == "ra-from-other-mac" {
			reps = 4
		}
		for k := 0; k < reps && pkt != nil; k++ {
			var in []byte
			if shared {
				in = sharedBuf[:copy(sharedBuf, pkt)]
			} else {
				in = append(make([]byte, 0, len(pkt)), pkt...) // private, never modified
			}
			pi := c.Guard("C08", func() any { return map[string]any{"index": idx, "step": step, "label": label, "frame_hex": wk.Hex(pkt)} }, func() {
				frame, err := st.s.Parse(in)
				if err != nil {
					return
				}
				if frame.PayloadID == packet.PayloadMDNS || frame.PayloadID == packet.PayloadLLMNR {
					// the entries ProcessMDNS hands back are the very slices it keeps in its duplicate cache (and hands back
					// again for a repeated response): they are kept here and read after the buffer was overwritten
					v4, v6, _ := st.dns.ProcessMDNS(frame)
					mdnsKept = append(append(mdnsKept, v4...), v6...)
				} else {
					st.dispatch(frame)
				}
				st.s.Notify(frame)
			})
			if shared {
				// the caller reuses its receive buffer as soon as ProcessPacket and Notify have returned
				switch scribble.Intn(4) {
				case 3:
					// overwritten by the next frame on the wire, which the caller filters out and never hands to Parse
					for i := range sharedBuf {
						sharedBuf[i] = 0xa5
					}
					copy(sharedBuf, ghostFrame)
				case 0:
					for i := range sharedBuf {
						sharedBuf[i] = 0xa5
					}
				case 1:
					for i := range sharedBuf {
						sharedBuf[i] = 0x5a
					}
				default:
					scribble.Read(sharedBuf)
				}
			} else {
				scribble.Intn(4)
			}
			if pi != nil {
				return transcript, retained
			}
			synctest.Wait()
		}
		var notes []string
		for len(st.s.C) > 0 {
			n := <-st.s.C
			notes = append(notes, fmt.Sprintf("%v/%s/%v/%s|%s|%s|%s|%s/%v", n.Addr.IP, n.Addr.MAC, n.Online, nameOf(n.DHCP4Name), nameOf(n.MDNSName), nameOf(n.SSDPName), nameOf(n.LLMNRName), nameOf(n.NBNSName), n.IsRouter))
		}
		sort.Strings(notes)
		var frames []string
		for _, f := range st.rec.Take() {
			d := refdec.Decode(f.Data)
			// the session's own purge probes (ARP who-has, NS, echo request) are sent from a goroutine that walks a map
			// snapshot and are not part of the retained state under test: only replies and handler output are compared
			if isSessionProbe(nic, f.Data, d) {
				continue
			}
			frames = append(frames, canonFrame(f.Data))
			if !d.Err && d.OffUDP != 0 && d.DstPort == 68 {
				if m, err := refdec.ParseDHCP(f.Data[d.OffUDP+8:]); err == nil && m.Op == 2 {
					for ci, cm := range e.Clients {
						if m.CHMAC() == cm {
							switch m.Type() {
							case refdec.DHCPOffer:
								offered[ci] = m.YI
							case refdec.DHCPAck:
								acked[ci] = m.YI
							}
						}
					}
				}
			}
		}
		sort.Strings(frames)
		snap := c10Snapshot(st, names, leaseFile, macs)
		if len(mdnsKept) > 0 {
			var es []string
			for _, x := range mdnsKept {
				es = append(es, fmt.Sprintf("%s/%v/%s", x.Addr.MAC, x.Addr.IP, nameOf(x.NameEntry)))
			}
			snap = append(snap, "mdns-returned: "+strings.Join(es, " "))
			mdnsSeen += len(mdnsKept)
			if len(mdnsKept) > 16 {
				mdnsKept = mdnsKept[len(mdnsKept)-16:]
			}
		}
		transcript = append(transcript, fmt.Sprintf("step %d %s | notifications: %v | frames: %v", step, label, notes, frames))
		for _, s := range snap {
			transcript = append(transcript, fmt.Sprintf("step %d %s | %s", step, label, s))
		}
	}
	for _, a := range acked {
		if a.IsValid() {
			retained++
		}
	}
	retained += len(names)
	if mdnsSeen > 0 {
		retained++
		if shared {
			c.Obs("mdns_entries_reread_after_overwrite", int64(mdnsSeen))
		}
	}
	for _, rt := range c14Routers {
		if st.icmp6.FindRouter(rt.ip).Addr.IP.IsValid() {
			retained++
		}
	}
	return transcript, retained
}

func runC10(c *wk.Ctx) {
	scratch := os.Getenv("VERIF_SCRATCH")
	if scratch == "" {
		scratch = os.TempDir()
	}
	n := c.N(1_500, 100_000)
	for i := int64(0); i < n; i++ {
		idx := i + 1
		if !c.Mine(idx) {
			continue
		}
		seed := int64(c.Rand("c10", i).Int63())
		c.Begin(idx, "aliasing-differential", nil)
		c.Eval()
		var ta, tb []string
		var retained int
		runBubble(c, idx, func() { ta, retained = c10Run(c, idx, seed, true, scratch) })
		runBubble(c, idx, func() { tb, _ = c10Run(c, idx, seed, false, scratch) })
		if len(ta) != len(tb) {
			c.Viol("alias:transcript-length", fmt.Sprintf("the two runs produced %d and %d transcript lines", len(ta), len(tb)), map[string]any{"index": idx, "seed": seed})
			continue
		}
		diff := false
		for k := range ta {
			if ta[k] != tb[k] {
				comp := "?"
				if p := strings.SplitN(ta[k], " | ", 3); len(p) >= 2 {
					comp = strings.SplitN(p[1], ":", 2)[0]
				}
				lbl := strings.SplitN(strings.SplitN(ta[k], " | ", 2)[0], " ", 3)
				c.Viol("alias:"+comp, fmt.Sprintf("state differs between the shared (scribbled) buffer run and the private buffer run at %s\n shared : %.1500s\n private: %.1500s", strings.Join(lbl, " "), ta[k], tb[k]),
					map[string]any{"index": idx, "seed": seed, "line": k})
				diff = true
				break
			}
		}
		if !diff && retained > 0 {
			c.Class(fmt.Sprintf("retained~%d", min(retained, 12)))
			c.Obs("retention_points_compared", int64(retained))
			c.Obs("transcript_lines_compared", int64(len(ta)))
			if c.WantSample() {
				c.Sample(map[string]any{"seed": seed, "transcript_lines": len(ta), "last_line": ta[len(ta)-2][:min(300, len(ta[len(ta)-2]))]})
			}
		}
	}
}

func isSessionProbe(nic mon.NIC, f []byte, d refdec.Decoded) bool {
	if d.Err {
		return false
	}
	if d.PayloadID == refdec.PARP {
		a, err := refdec.ParseARP(f[14:])
		return err == nil && a.Op == 1 && a.SPA == nic.HostIP && a.SHA == toMAC(nic.HostMAC)
	}
	if d.PayloadID == refdec.PICMP6 && d.SrcIP == nic.HostLLA {
		t := f[d.OffIP6+40]
		return t == refdec.NDPNeighborSolicit || t == 128
	}
	return false
}
