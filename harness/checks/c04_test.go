package checks

import (
	"fmt"
	"math/rand"
	"net"
	"net/netip"
	"sort"
	"strings"
	"testing"
	"testing/synctest"
	"time"

	"github.com/irai/packet"

	"verif/harness/model"
	"verif/harness/mon"
	"verif/harness/refdec"
	"verif/harness/wk"
)

// One workload, three monitors (DESIGN 5, C04-C06): the history runs in a synctest bubble on virtual time, the session's own
// minute ticker runs the real purge; after every step the host-tracking model (C04), the table invariants (C05) and the
// notification trace monitor (C06) are evaluated.
func init() {
	register("C04", runHosts)
	register("C05", runHosts)
	register("C06", runHosts)
	register("hosts", runHosts)
}

var theT *testing.T // set by TestWorker for synctest.Test

// universe
var (
	uMACs = []refdec.MAC{
		{0x02, 0x55, 0x55, 0x55, 0x55, 0x55}, // 0 own
		{0x02, 0x66, 0x66, 0x66, 0x66, 0x66}, // 1 router
		{0x02, 0xaa, 0x00, 0x00, 0x00, 0x0a}, // 2 A
		{0x02, 0xbb, 0x00, 0x00, 0x00, 0x0b}, // 3 B
		{0x01, 0x00, 0x5e, 0x00, 0x00, 0xfb}, // 4 multicast
	}
	uMACName = []string{"own", "router", "A", "B", "mcast"}
	uIPs     = []netip.Addr{
		netip.MustParseAddr("192.168.0.10"),    // 0 ip1
		netip.MustParseAddr("192.168.0.20"),    // 1 ip2
		netip.MustParseAddr("192.168.0.30"),    // 2 ip3
		netip.MustParseAddr("192.168.0.129"),   // 3 own
		netip.MustParseAddr("192.168.0.1"),     // 4 router
		netip.MustParseAddr("8.8.4.4"),         // 5 off-LAN
		netip.MustParseAddr("0.0.0.0"),         // 6 zero
		netip.MustParseAddr("192.168.0.255"),   // 7 LAN broadcast
		netip.MustParseAddr("fe80::a"),         // 8 lla1
		netip.MustParseAddr("fe80::b"),         // 9 lla2
		netip.MustParseAddr("2001:db8::a"),     // 10 gua1
		netip.MustParseAddr("2001:db8::b"),     // 11 gua2
		netip.MustParseAddr("ff02::1"),         // 12 multicast v6 source (malformed but seen)
	}
	uNames = []string{"", "alpha", "beta"}
)

// uName is the name entry a naming handler would hand over for name n: besides the name, the attributes those handlers fill in
// (a function of the name, so "the same announcement again" is the same entry again and must change nothing).
func uName(source string, n int) packet.NameEntry {
	ne := packet.NameEntry{Type: source, Name: uNames[n]}
	switch n {
	case 1:
		ne.Manufacturer, ne.Model = "Apple", "MacBookPro14,1"
	case 2:
		ne.OS = "linux"
	}
	return ne
}

type hop struct {
	K string        // f4 f6 arp dhcp(DHCPv4Update + dhcp frame) dhcpframe name capture release offer adv
	M int           // MAC index
	I int           // IP index
	N int           // name index
	S string        // name source
	D time.Duration // advance
}

func (o hop) String() string {
	switch o.K {
	case "latepass":
		return "latepass(+" + o.D.String() + ")"
	case "adv":
		return "adv(" + o.D.String() + ")"
	case "capture", "release", "dhcpframe":
		return o.K + "(" + uMACName[o.M] + ")"
	case "name":
		return fmt.Sprintf("name(%s,%v,%q)", o.S, uIPs[o.I], uNames[o.N])
	case "fname":
		return fmt.Sprintf("fname(%s,%v,%s,%q)", uMACName[o.M], uIPs[o.I], o.S, uNames[o.N])
	case "runt":
		return fmt.Sprintf("runt(%s,ethertype#%d)", uMACName[o.M], o.I%3)
	case "arprelay":
		return fmt.Sprintf("arprelay(sender=%s,%v,relay#%d)", uMACName[o.M], uIPs[o.I], o.N%3)
	case "dhcp", "offer":
		return fmt.Sprintf("%s(%s,%v,%q)", o.K, uMACName[o.M], uIPs[o.I], uNames[o.N])
	}
	return fmt.Sprintf("%s(%s,%v)", o.K, uMACName[o.M], uIPs[o.I])
}

// alphabet24 is the operation alphabet of the bounded-exhaustive part.
var alphabet24 = []hop{
	{K: "f4", M: 2, I: 0}, {K: "f4", M: 2, I: 1}, {K: "f4", M: 3, I: 0}, {K: "f4", M: 3, I: 2},
	{K: "arp", M: 2, I: 0}, {K: "arp", M: 3, I: 1}, {K: "f4", M: 2, I: 5}, {K: "f4", M: 0, I: 2},
	{K: "f4", M: 1, I: 4}, {K: "f4", M: 4, I: 0}, {K: "f6", M: 2, I: 8}, {K: "f6", M: 2, I: 10},
	{K: "f6", M: 1, I: 11}, {K: "f6", M: 3, I: 8}, {K: "dhcp", M: 2, I: 1, N: 1}, {K: "dhcp", M: 3, I: 0, N: 2},
	{K: "name", I: 0, N: 1, S: "mdns"}, {K: "name", I: 1, N: 2, S: "nbns"}, {K: "capture", M: 2}, {K: "offer", M: 2, I: 2, N: 1},
	{K: "adv", D: 20 * time.Second}, {K: "adv", D: time.Minute}, {K: "adv", D: 6 * time.Minute}, {K: "adv", D: 62 * time.Minute},
}

type deadlines struct{ probe, offline, purge time.Duration }

var deadlineCfgs = []deadlines{
	{2 * time.Minute, 5 * time.Minute, 61 * time.Minute},
	{time.Minute, 2 * time.Minute, 10 * time.Minute},
	{2 * time.Minute, 3 * time.Minute, 4 * time.Minute},
}

func randHop(r *rand.Rand, d deadlines) hop {
	switch c := r.Intn(20); {
	case c < 1:
		switch r.Intn(4) {
		case 0:
			return hop{K: "runt", M: 2 + r.Intn(2), I: r.Intn(3)}
		case 1:
			return hop{K: "arprelay", M: 2 + r.Intn(2), I: r.Intn(3), N: r.Intn(3)}
		}
		return hop{K: "fname", M: 2 + r.Intn(2), I: []int{0, 1, 2, 8, 9, 10}[r.Intn(6)], N: r.Intn(3), S: []string{"mdns", "ssdp", "llmnr", "nbns"}[r.Intn(4)]}
	case c < 6:
		return hop{K: "f4", M: r.Intn(5), I: r.Intn(8)}
	case c < 8:
		return hop{K: "arp", M: 1 + r.Intn(3), I: r.Intn(8)}
	case c < 11:
		return hop{K: "f6", M: r.Intn(5), I: 8 + r.Intn(5)}
	case c < 13:
		return hop{K: "dhcp", M: 2 + r.Intn(2), I: r.Intn(3), N: r.Intn(3)}
	case c < 14:
		return hop{K: "dhcpframe", M: 1 + r.Intn(3)}
	case c < 15:
		return hop{K: "name", I: []int{0, 1, 2, 4, 8, 10}[r.Intn(6)], N: r.Intn(3), S: []string{"dhcp4", "mdns", "ssdp", "llmnr", "nbns"}[r.Intn(5)]}
	case c < 16:
		return hop{K: []string{"capture", "release"}[r.Intn(2)], M: 1 + r.Intn(3)}
	case c < 17:
		return hop{K: "offer", M: 2 + r.Intn(2), I: r.Intn(3), N: r.Intn(3)}
	}
	if r.Intn(8) == 0 {
		return hop{K: "latepass", D: []time.Duration{d.offline + time.Minute, d.purge + time.Minute, 3 * d.purge}[r.Intn(3)]}
	}
	return hop{K: "adv", D: []time.Duration{20 * time.Second, time.Minute, d.probe + time.Minute, d.offline + time.Minute, d.purge + time.Minute}[r.Intn(5)]}
}

func buildFrame(k string, mac refdec.MAC, ip netip.Addr) []byte {
	own := uMACs[0]
	switch k {
	case "f4":
		return refdec.Ether(own, mac, 0x0800, 0, refdec.IP4(refdec.IP4Hdr{TTL: 64, Proto: 17, Src: ip, Dst: uIPs[3]}, refdec.UDP(40001, 40002, []byte("x"))))
	case "f6":
		return refdec.Ether(refdec.MAC{0x33, 0x33, 0, 0, 0, 1}, mac, 0x86dd, 0, refdec.IP6(refdec.IP6Hdr{Next: 17, Hop: 64, Src: ip, Dst: netip.MustParseAddr("ff02::1"), PayloadLen: -1}, refdec.UDP(40001, 40002, []byte("x"))))
	case "arp":
		return refdec.Ether(refdec.MAC{0xff, 0xff, 0xff, 0xff, 0xff, 0xff}, mac, 0x0806, 0, refdec.ARP(refdec.ARPPkt{HType: 1, PType: 0x0800, HLen: 6, PLen: 4, Op: 1, SHA: mac, SPA: ip, TPA: uIPs[3]}))
	case "dhcpframe":
		m := refdec.DHCPMsg{Op: 1, HType: 1, HLen: 6, XID: [4]byte{1, 2, 3, 4}, Options: []refdec.DHCPOpt{{Code: 53, Data: []byte{3}}}}
		copy(m.CHAddr[:], mac[:])
		return refdec.Ether(refdec.MAC{0xff, 0xff, 0xff, 0xff, 0xff, 0xff}, mac, 0x0800, 0, refdec.IP4(refdec.IP4Hdr{TTL: 64, Proto: 17, Src: uIPs[6], Dst: netip.MustParseAddr("255.255.255.255")}, refdec.UDP(68, 67, m.Bytes())))
	}
	panic("HARNESS BUG: frame kind " + k)
}

type hostsRun struct {
	c        *wk.Ctx
	idx      int64
	ops      []hop
	cfg      deadlines
	compare  bool
	states   map[string]bool
	trans    map[string]bool
	changed  bool
	viol     bool
	tx       bool // apply the universal C07 rules to every frame the session emits (purge probes)
	// noReader: the owner of the session never reads the notification channel (reading it is optional) and the LAN is large
	// enough (136 more stations) to fill it: tracking and the table invariants are judged as always, the notification
	// trace (C06) is not - what is dropped on a full channel is the library's documented choice
	noReader bool
	// inject: at the purge goroutine's yield points (between its scan and its offline / delete steps, where it holds no lock)
	// a frame of the universe is parsed, as the packet loop would do in between. No sequential model describes the outcome:
	// only the table invariants (C05) and the absence of panics are judged in such a history.
	inject bool
}

func tripleStr(t []model.Triple) string {
	var sb strings.Builder
	for _, x := range t {
		fmt.Fprintf(&sb, "(%x %v %v)", string(x.MAC), x.IP, x.Online)
	}
	return sb.String()
}

func realTriples(s *packet.Session) []model.Triple {
	var out []model.Triple
	for _, h := range s.GetHosts() {
		h.MACEntry.Row.RLock()
		// the MAC the API user sees in Host.Addr (invariant I2 of C05 separately demands that it equals the entry's MAC)
		out = append(out, model.Triple{MAC: model.MAC(append([]byte(nil), h.Addr.MAC...)), IP: h.Addr.IP, Online: h.Online})
		h.MACEntry.Row.RUnlock()
	}
	model.SortTriples(out)
	return out
}

func addrSet(a []packet.Addr) string {
	var s []string
	for _, x := range a {
		s = append(s, x.IP.String())
	}
	sort.Strings(s)
	return strings.Join(s, ",")
}

// history executes one history inside a bubble. Monitors record violations in the worker context.
func (hr *hostsRun) history() {
	c := hr.c
	nic := mon.DefaultNIC()
	rec := mon.NewRecorder(8)
	t0 := time.Now()
	s, err := mon.NewSession(rec, nic, hr.cfg.probe, hr.cfg.offline, hr.cfg.purge)
	if err != nil {
		panic("HARNESS BUG: " + err.Error())
	}
	defer func() {
		s.Close()
		synctest.Wait()
	}()
	m := model.NewHosts(model.MAC(uMACs[0][:]), model.MAC(uMACs[1][:]), nic.HostIP, nic.RouterIP, nic.HomeLAN, hr.cfg.offline, hr.cfg.purge, t0)
	time.Sleep(7 * time.Second) // events never coincide with a minute tick
	synctest.Wait()
	m.Advance(time.Now())
	drain := func() (out []packet.Notification) {
		if hr.noReader {
			return nil
		}
		for len(s.C) > 0 {
			out = append(out, <-s.C)
		}
		return out
	}
	drain()
	if hr.noReader {
		rxc := newRx()
		for k := 0; k < 136; k++ {
			mac := refdec.MAC{0x02, 0xee, 0, 0, 1, byte(k)}
			ip := netip.AddrFrom4([4]byte{192, 168, 0, byte(100 + k)})
			if frame, err := s.Parse(rxc.load(buildFrame("f4", mac, ip))); err == nil {
				s.Notify(frame)
			}
			m.Frame("ip4", model.MAC(mac[:]), ip, false)
		}
		synctest.Wait()
		c.Obs("histories_with_unread_notification_channel", 1)
		if len(s.C) == cap(s.C) {
			c.Obs("notification_channel_full", 1)
		}
	}
	cs := func(step int) map[string]any {
		var ops []string
		for i, o := range hr.ops {
			if i > step {
				break
			}
			ops = append(ops, o.String())
		}
		return map[string]any{"index": hr.idx, "history": ops, "failing_step": step, "deadlines": fmt.Sprintf("probe=%v offline=%v purge=%v", hr.cfg.probe, hr.cfg.offline, hr.cfg.purge)}
	}
	prevKey := m.StateKey()
	compare := hr.compare
	rx := newRx()
	if hr.inject {
		compare = false
		ir := c.Rand("hosts-inject", hr.idx)
		irx := newRx()
		busy := false
		yf := func(point string) {
			if busy || (point != "purge:before-offline" && point != "purge:before-delete") || ir.Intn(3) == 0 {
				return
			}
			busy = true
			defer func() { busy = false }()
			for k := 1 + ir.Intn(2); k > 0; k-- {
				kind := []string{"f4", "f4", "arp", "f6"}[ir.Intn(4)]
				mac, ip := uMACs[1+ir.Intn(len(uMACs)-1)], uIPs[ir.Intn(5)]
				if kind == "f6" {
					ip = uIPs[8+ir.Intn(4)]
				}
				b := irx.load(buildFrame(kind, mac, ip))
				// this runs on the library's purge goroutine: a panic there would take the process down
				if c.Guard(c.Prop, func() any { return map[string]any{"index": hr.idx, "history": hr.ops, "injected": fmt.Sprintf("%s mac=%x ip=%v at %s", kind, mac, ip, point)} }, func() {
					if frame, err := s.Parse(b); err == nil {
						s.Notify(frame)
					}
				}) != nil {
					c.Restart() // Parse may have died with table locks held
				}
				irx.scribble()
				c.Obs("frames_injected_between_purge_steps", 1)
			}
		}
		packet.VerifYield.Store(&yf)
		defer packet.VerifYield.Store(nil)
	}
	// one history in eight knows a station by an EUI-64 hardware address (8 bytes, as net.ParseMAC accepts and IP over
	// InfiniBand / FireWire interfaces report): it never sends Ethernet frames, the control API is told about it. Its first
	// six bytes are those of station 1, which is a different station
	apiMAC := func(mac refdec.MAC) net.HardwareAddr {
		if hr.idx%8 == 5 && mac == uMACs[1] && !hr.inject {
			return append(net.HardwareAddr(mac[:]), 0x00, 0x01)
		}
		return net.HardwareAddr(mac[:])
	}
	if hr.idx%8 == 5 && !hr.inject {
		c.Obs("histories_with_an_eight_byte_hardware_address", 1)
	}
	for step, o := range hr.ops {
		var want []model.Group
		before := m.Triples()
		mac := uMACs[o.M]
		ip := uIPs[o.I]
		pi := c.Guard("C04", func() any { return cs(step) }, func() {
			switch o.K {
			case "f4", "f6", "arp", "dhcpframe":
				b := rx.load(buildFrame(o.K, mac, ip))
				frame, err := s.Parse(b)
				if err == nil {
					s.Notify(frame)
				}
				kind := map[string]string{"f4": "ip4", "f6": "ip6", "arp": "arp", "dhcpframe": "ip4"}[o.K]
				mip := ip
				if o.K == "dhcpframe" {
					mip = uIPs[6]
				}
				want = m.Frame(kind, model.MAC(mac[:]), mip, o.K == "dhcpframe")
			case "runt":
				// an Ethernet header and nothing behind it (EtherType IPv4 / IPv6 / ARP), read into the receive buffer that still
				// holds the bytes of whatever was there before: Parse must reject it, nothing may change
				et := []uint16{0x0800, 0x86dd, 0x0806}[o.I%3]
				b := rx.load(refdec.Ether(uMACs[0], mac, et, 0, nil))
				if frame, err := s.Parse(b); err == nil {
					s.Notify(frame)
				}
				c.Obs("runt_frames", 1)
			case "arprelay":
				// ARP request relayed by another station: Ethernet source = relay (o.N selects router / B), sender hardware
				// address = mac. The host is tracked under the ARP sender address (layer_frame.go: "use arp src mac and ip")
				relay := uMACs[[]int{1, 3, 2}[o.N%3]]
				b := rx.load(refdec.Ether(refdec.MAC{0xff, 0xff, 0xff, 0xff, 0xff, 0xff}, relay, 0x0806, 0, refdec.ARP(refdec.ARPPkt{HType: 1, PType: 0x0800, HLen: 6, PLen: 4, Op: 1, SHA: mac, SPA: ip, TPA: uIPs[3]})))
				frame, err := s.Parse(b)
				if err == nil {
					s.Notify(frame)
				}
				want = m.Frame("arp", model.MAC(mac[:]), ip, false)
				c.Obs("relayed_arp_frames", 1)
			case "fname":
				// a frame that a naming handler processes between Parse and Notify (as the packet loop does for mDNS/NBNS/LLMNR/SSDP)
				kind, fk := "ip4", "f4"
				if ip.Is6() {
					kind, fk = "ip6", "f6"
				}
				b := rx.load(buildFrame(fk, mac, ip))
				frame, err := s.Parse(b)
				if err == nil {
					if frame.Host != nil {
						ne := uName(o.S, o.N)
						switch o.S {
						case "mdns":
							frame.Host.UpdateMDNSName(ne)
						case "ssdp":
							frame.Host.UpdateSSDPName(ne)
						case "llmnr":
							frame.Host.UpdateLLMNRName(ne)
						default:
							frame.Host.UpdateNBNSName(ne)
						}
					}
					s.Notify(frame)
				}
				want = m.FrameNamed(kind, model.MAC(mac[:]), ip, o.S, uNames[o.N])
				c.Obs("named_frames", 1)
			case "dhcp":
				// as a DHCP handler does: the MAC handed to DHCPv4Update is the chaddr field inside the receive buffer
				b := rx.load(buildFrame("dhcpframe", mac, ip))
				s.DHCPv4Update(net.HardwareAddr(b[14+20+8+28:14+20+8+34]), ip, uName("dhcp4", o.N))
				m.DHCPUpdate(model.MAC(mac[:]), ip, uNames[o.N])
				frame, err := s.Parse(b)
				if err == nil {
					s.Notify(frame)
				}
				want = m.Frame("ip4", model.MAC(mac[:]), uIPs[6], true)
			case "name":
				if h := s.FindIP(ip); h != nil {
					ne := uName(o.S, o.N)
					switch o.S {
					case "dhcp4":
						h.UpdateDHCP4Name(ne)
					case "mdns":
						h.UpdateMDNSName(ne)
					case "ssdp":
						h.UpdateSSDPName(ne)
					case "llmnr":
						h.UpdateLLMNRName(ne)
					default:
						h.UpdateNBNSName(ne)
					}
				}
				m.UpdateName(ip, o.S, uNames[o.N])
			case "capture":
				err := s.Capture(apiMAC(mac))
				if ok := m.Capture(model.MAC(apiMAC(mac))); ok != (err == nil) && !hr.inject {
					c.ViolP("C04", "model:capture-result", fmt.Sprintf("Capture(%s) error=%v, model ok=%v", uMACName[o.M], err, ok), cs(step))
				}
			case "release":
				s.Release(apiMAC(mac))
				m.Release(model.MAC(apiMAC(mac)))
			case "offer":
				s.SetDHCPv4IPOffer(apiMAC(mac), ip, uName("dhcp4", o.N))
				m.SetOffer(model.MAC(apiMAC(mac)), ip)
			case "latepass":
				// one ageing pass that runs late - its clock is past the offline (and perhaps the purge) deadline of hosts that
				// are still online: they go offline in this pass, with their notification, and are deleted by a later one
				t := time.Now().Add(o.D)
				s.VerifPurge(t)
				synctest.Wait()
				if g := m.TickAt(t); len(g) > 0 {
					want = []model.Group{g}
				}
				c.Obs("late_ageing_passes", 1)
			case "adv":
				time.Sleep(o.D)
				synctest.Wait()
				want = m.Advance(time.Now())
			}
		})
		if pi != nil {
			hr.viol = true
			return
		}
		rx.scribble() // the next ReadFrom overwrites the receive buffer
		synctest.Wait()
		got := drain()
		if fr := rec.Take(); hr.tx {
			txObserve(c, nic, "purge-probe", fr, func() any { return cs(step) })
		}
		// ---- C05: table invariants at this quiescent point
		for _, b := range mon.CheckTables(s) {
			c.ViolP("C05", "invariant:"+strings.SplitN(b, ":", 2)[0], b, cs(step))
			hr.viol = true
		}
		c.Obs("invariant_evaluations", 1)
		// ambiguous corners (DESIGN A.5): ARP with sender != ethernet source is never generated here; DHCP update with an
		// off-LAN address is not generated. Channel overflow cannot happen (drained every step).
		if !compare {
			continue
		}
		// ---- C04: (MAC, IP, online) set and API read-back
		mt, rt := m.Triples(), realTriples(s)
		if tripleStr(mt) != tripleStr(rt) {
			c.ViolP("C04", "hosts:"+classifyTripleDiff(mt, rt, o), fmt.Sprintf("after %s tracked set differs\n model: %s\n real:  %s", o, tripleStr(mt), tripleStr(rt)), cs(step))
			hr.viol = true
			if !hr.noReader {
				hr.checkNotifications(s, o, want, got, cs(step)) // the C06 monitor still judges this step on its own
			}
			return
		}
		for i, uip := range uIPs {
			h := s.FindIP(uip)
			mh := m.H[uip]
			if (h == nil) != (mh == nil) || (h != nil && string(h.MACEntry.MAC) != string(mh.MAC)) {
				c.ViolP("C04", "hosts:FindIP", fmt.Sprintf("FindIP(%v) disagrees with the model (universe ip %d)", uip, i), cs(step))
				hr.viol = true
				return
			}
		}
		for i, um := range uMACs {
			hw := net.HardwareAddr(um[:])
			mr := m.M[model.MAC(um[:])]
			var mips []string
			if mr != nil {
				for _, x := range mr.Hosts {
					mips = append(mips, x.String())
				}
			}
			sort.Strings(mips)
			wantSet := strings.Join(mips, ",")
			if g := addrSet(s.IPAddrs(hw)); g != wantSet {
				c.ViolP("C04", "hosts:IPAddrs", fmt.Sprintf("IPAddrs(%s) = [%s], model [%s]", uMACName[i], g, wantSet), cs(step))
				hr.viol = true
				return
			}
			if g := addrSet(s.FindByMAC(hw)); g != wantSet {
				c.ViolP("C04", "hosts:FindByMAC", fmt.Sprintf("FindByMAC(%s) = [%s], model [%s]", uMACName[i], g, wantSet), cs(step))
				hr.viol = true
				return
			}
			e := s.FindMACEntry(hw)
			if (e == nil) != (mr == nil) {
				c.ViolP("C04", "hosts:FindMACEntry", fmt.Sprintf("FindMACEntry(%s) nil=%v, model has entry=%v", uMACName[i], e == nil, mr != nil), cs(step))
				hr.viol = true
				return
			}
			if mr != nil && s.IsCaptured(hw) != mr.Captured {
				c.ViolP("C04", "hosts:IsCaptured", fmt.Sprintf("IsCaptured(%s)=%v model %v", uMACName[i], s.IsCaptured(hw), mr.Captured), cs(step))
				hr.viol = true
				return
			}
		}
		// ---- C06: notification trace
		if !hr.noReader && !hr.checkNotifications(s, o, want, got, cs(step)) {
			hr.viol = true
			return
		}
		if tripleStr(before) != tripleStr(mt) {
			hr.changed = true
		}
		key := m.StateKey()
		hr.states[key] = true
		hr.trans[prevKey+"|"+o.String()] = true
		prevKey = key
	}
	c.Obs("ticks", int64(m.Ticks))
	c.Obs("rebinds", int64(m.Rebinds))
	c.Obs("ip_changes", int64(m.IPChanges))
	c.Obs("age_outs", int64(m.AgeOuts))
	c.Obs("deletes", int64(m.Deletes))
}

func classifyTripleDiff(mt, rt []model.Triple, o hop) string {
	mm := map[netip.Addr]model.Triple{}
	for _, t := range mt {
		mm[t.IP] = t
	}
	rm := map[netip.Addr]model.Triple{}
	for _, t := range rt {
		rm[t.IP] = t
	}
	for ip, t := range mm {
		r, ok := rm[ip]
		switch {
		case !ok:
			return "missing-host:" + o.K
		case r.MAC != t.MAC:
			return "wrong-mac:" + o.K
		case r.Online != t.Online:
			if t.Online {
				return "should-be-online:" + o.K
			}
			return "should-be-offline:" + o.K
		}
	}
	for ip := range rm {
		if _, ok := mm[ip]; !ok {
			return "extra-host:" + o.K
		}
	}
	return "other:" + o.K
}

func nameIn(n packet.NameEntry, a, b packet.NameEntry) bool {
	eq := func(x, y packet.NameEntry) bool {
		return x.Name == y.Name && x.Model == y.Model && x.OS == y.OS && x.Manufacturer == y.Manufacturer
	}
	return eq(n, a) || eq(n, b)
}

// checkNotifications is the C06 trace monitor for one step.
func (hr *hostsRun) checkNotifications(s *packet.Session, o hop, want []model.Group, got []packet.Notification, cs map[string]any) bool {
	c := hr.c
	nwant := 0
	for _, g := range want {
		nwant += len(g)
	}
	desc := func() string {
		var w, g []string
		for _, grp := range want {
			var x []string
			for _, e := range grp {
				x = append(x, e.String())
			}
			w = append(w, "{"+strings.Join(x, " ")+"}")
		}
		for _, n := range got {
			g = append(g, fmt.Sprintf("{%v %x online=%v}", n.Addr.IP, []byte(n.Addr.MAC), n.Online))
		}
		return fmt.Sprintf("after %s\n expected groups: %s\n received:        %s", o, strings.Join(w, " "), strings.Join(g, " "))
	}
	c.Obs("notifications_observed", int64(len(got)))
	for _, n := range got {
		if n.Online {
			c.Obs("notifications_online", 1)
		} else {
			c.Obs("notifications_offline", 1)
		}
	}
	if len(got) < nwant {
		// which expected emission is missing?
		cause := "?"
		seen := map[string]int{}
		for _, n := range got {
			seen[fmt.Sprintf("%v/%v", n.Addr.IP, n.Online)]++
		}
		for _, grp := range want {
			for _, e := range grp {
				k := fmt.Sprintf("%v/%v", e.IP, e.Online)
				if seen[k] == 0 {
					cause = e.Cause
				} else {
					seen[k]--
				}
			}
		}
		c.ViolP("C06", "notify:lost:"+cause, desc(), cs)
		return false
	}
	if len(got) > nwant {
		c.ViolP("C06", "notify:dup-or-spurious:"+o.K, desc(), cs)
		return false
	}
	pos := 0
	for _, grp := range want {
		wantSet := map[string]int{}
		for _, e := range grp {
			wantSet[fmt.Sprintf("%v/%x/%v", e.IP, string(e.MAC), e.Online)]++
		}
		for i := 0; i < len(grp); i++ {
			n := got[pos+i]
			k := fmt.Sprintf("%v/%x/%v", n.Addr.IP, []byte(n.Addr.MAC), n.Online)
			if wantSet[k] == 0 {
				// distinguish order from content
				all := map[string]bool{}
				for _, g2 := range want {
					for _, e := range g2 {
						all[fmt.Sprintf("%v/%x/%v", e.IP, string(e.MAC), e.Online)] = true
					}
				}
				if all[k] {
					c.ViolP("C06", "notify:order:"+o.K, desc(), cs)
				} else {
					c.ViolP("C06", "notify:content:addr-or-flag:"+grp[0].Cause, desc(), cs)
				}
				return false
			}
			wantSet[k]--
		}
		pos += len(grp)
	}
	// content: names and router flag equal the tracked state (host-level or MAC-level value of each name)
	for _, n := range got {
		e := s.FindMACEntry(n.Addr.MAC)
		h := s.FindIP(n.Addr.IP)
		if e == nil {
			continue // entry already purged in the same step (age-out followed by delete needs two ticks; defensive)
		}
		var hn [5]packet.NameEntry
		if h != nil && string(h.MACEntry.MAC) == string(n.Addr.MAC) {
			hn = [5]packet.NameEntry{h.DHCP4Name, h.MDNSName, h.SSDPName, h.LLMNRName, h.NBNSName}
		} else {
			// the host was deleted in the same step (aged out and purged): the host-level names the notification was built
			// from cannot be read back any more, and the MAC-level value may come from another address of the MAC
			continue
		}
		mn := [5]packet.NameEntry{e.DHCP4Name, e.MDNSName, e.SSDPName, e.LLMNRName, e.NBNSName}
		nn := [5]packet.NameEntry{n.DHCP4Name, n.MDNSName, n.SSDPName, n.LLMNRName, n.NBNSName}
		for i := range nn {
			if !nameIn(nn[i], hn[i], mn[i]) {
				c.ViolP("C06", "notify:content:name:"+[]string{"dhcp4", "mdns", "ssdp", "llmnr", "nbns"}[i],
					fmt.Sprintf("%s\n notification for %v carries %s name %+v, tracked host %+v / mac %+v", desc(), n.Addr.IP, []string{"dhcp4", "mdns", "ssdp", "llmnr", "nbns"}[i], nn[i], hn[i], mn[i]), cs)
				return false
			}
		}
		if n.IsRouter != e.IsRouter {
			c.ViolP("C06", "notify:content:router-flag", desc(), cs)
			return false
		}
	}
	return true
}

func runHosts(c *wk.Ctx) {
	depth := int(c.N(3, 4))
	nExh := int64(1)
	for i := 0; i < depth; i++ {
		nExh *= int64(len(alphabet24))
	}
	states, trans := map[string]bool{}, map[string]bool{}
	one := func(idx int64, ops []hop, cfg deadlines, kind string) {
		c.Begin(idx, "hosts-history", nil)
		c.Eval()
		hr := &hostsRun{c: c, idx: idx, ops: ops, cfg: cfg, compare: true, states: states, trans: trans, noReader: kind == "random" && idx%16 == 11, inject: kind == "random" && idx%16 == 3}
		runBubble(c, idx, func() { hr.history() })
		if hr.changed && !hr.viol {
			c.Class(kind + ":" + histShape(ops))
		}
		if c.WantSample() && hr.changed && len(ops) <= 6 {
			var os []string
			for _, o := range ops {
				os = append(os, o.String())
			}
			c.Sample(map[string]any{"history": os, "kind": kind})
		}
	}
	for i := int64(0); i < nExh; i++ {
		idx := i + 1
		if !c.Mine(idx) {
			continue
		}
		ops := make([]hop, depth)
		v := i
		for k := depth - 1; k >= 0; k-- {
			ops[k] = alphabet24[v%int64(len(alphabet24))]
			v /= int64(len(alphabet24))
		}
		one(idx, ops, deadlineCfgs[0], "exhaustive")
	}
	c.ObsMax("exhaustive_depth", int64(depth))
	nRand := c.N(5_000, 200_000)
	rlen := int(c.N(20, 40))
	for i := int64(0); i < nRand; i++ {
		idx := 1_000_000_000 + i
		if !c.Mine(idx) {
			continue
		}
		r := c.Rand("hosts", i)
		cfg := deadlineCfgs[r.Intn(len(deadlineCfgs))]
		ops := make([]hop, rlen)
		for k := range ops {
			ops[k] = randHop(r, cfg)
		}
		if i%128 == 77 {
			// a long uptime: eight days pass in the middle of the history (the minute ticker runs 11 520 times on the virtual
			// clock); whatever "never" is built on must still hold - this host's own entry, the deadlines
			ops[len(ops)/2] = hop{K: "adv", D: 8 * 24 * time.Hour}
			c.Obs("histories_with_eight_days_uptime", 1)
		}
		one(idx, ops, cfg, "random")
	}
	c.Obs("distinct_model_states(per-worker sum)", int64(len(states)))
	c.Obs("distinct_transitions(per-worker sum)", int64(len(trans)))
}

// histShape is the class key of a history: the multiset of operation kinds.
func histShape(ops []hop) string {
	cnt := map[string]int{}
	for _, o := range ops {
		k := o.K
		if k == "adv" {
			switch {
			case o.D >= 60*time.Minute:
				k = "adv-purge"
			case o.D > time.Minute:
				k = "adv-offline"
			}
		}
		cnt[k]++
	}
	ks := make([]string, 0, len(cnt))
	for k, n := range cnt {
		if n > 3 {
			n = 3
		}
		ks = append(ks, fmt.Sprintf("%s%d", k, n))
	}
	sort.Strings(ks)
	return strings.Join(ks, ",")
}

// runHostsTx replays random host-tracking histories with the C07 frame monitor attached to the recorder:
// the frames are the session's own purge probes (ARP request, neighbour solicitation, ICMPv6 echo).
func runHostsTx(c *wk.Ctx) {
	n := c.N(1_500, 60_000)
	states, trans := map[string]bool{}, map[string]bool{}
	for i := int64(0); i < n; i++ {
		idx := 2_000_000_000 + i
		if !c.Mine(idx) {
			continue
		}
		r := c.Rand("hoststx", i)
		cfg := deadlineCfgs[r.Intn(len(deadlineCfgs))]
		ops := make([]hop, 16)
		for k := range ops {
			ops[k] = randHop(r, cfg)
			if k%3 == 2 { // make sure hosts go silent long enough to be probed
				ops[k] = hop{K: "adv", D: cfg.probe + time.Minute}
			}
		}
		c.Begin(idx, "hosts-history(tx)", nil)
		c.Eval()
		hr := &hostsRun{c: c, idx: idx, ops: ops, cfg: cfg, compare: true, states: states, trans: trans, tx: true}
		runBubble(c, idx, func() { hr.history() })
	}
}
