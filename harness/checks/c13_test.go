package checks

import (
	"fmt"
	"math/rand"
	"net"
	"net/netip"
	"sort"
	"strings"
	"testing/synctest"
	"time"

	"github.com/irai/packet"
	"github.com/irai/packet/handlers/arp_spoofer"

	"verif/harness/mon"
	"verif/harness/refdec"
	"verif/harness/wk"
)

func init() { register("C13", runC13) }

const arpCycle = 6 * time.Second

var (
	c13Targets = []packet.Addr{
		{MAC: net.HardwareAddr{0x02, 0xa1, 0, 0, 0, 1}, IP: netip.MustParseAddr("192.168.0.11")},
		{MAC: net.HardwareAddr{0x02, 0xa2, 0, 0, 0, 2}, IP: netip.MustParseAddr("192.168.0.12")},
		{MAC: net.HardwareAddr{0x02, 0xa3, 0, 0, 0, 3}, IP: netip.MustParseAddr("192.168.0.13")},
		{MAC: net.HardwareAddr{0x02, 0xb4, 0, 0, 0, 4}, IP: netip.MustParseAddr("192.168.0.14")}, // bystander
		{MAC: net.HardwareAddr{0x02, 0xb5, 0, 0, 0, 5}, IP: netip.MustParseAddr("192.168.0.15")}, // bystander
	}
)

type aop struct {
	K     string // start stop close req-router req-other probe announce reply offer confirm wait
	T     int    // target index
	P     int
	Delay time.Duration // virtual time to sleep before the op
}

func (o aop) String() string {
	return fmt.Sprintf("+%v %s(t%d,p%d)", o.Delay, o.K, o.T, o.P)
}

type arpEvent struct {
	t     time.Time
	seq   int // number of frames written before the call
	kind  string
	mac   string
	extra string
}

type arpFrame struct {
	seq   int
	t     time.Time
	dst   refdec.MAC
	a     refdec.ARPPkt
	class string // forged-periodic, forged-reply, probe-reject, corrective, other
}

type c13Run struct {
	c                                                                                                                           *wk.Ctx
	idx                                                                                                                         int64
	ops                                                                                                                         []aop
	viol                                                                                                                        bool
	nForged, nCorrective, nReplies, nRejects, nCycles, nRelayed, nAltStarts, nUnicastReq, nConfirms, nStopOtherFamily, nWindows, nClaims, nSharedIP int
	window                                                                                                                      bool
}

func (r *c13Run) history() {
	c := r.c
	nic := mon.DefaultNIC()
	rec := mon.NewRecorder(8)
	s, err := mon.NewSession(rec, nic, 30*time.Minute, 60*time.Minute, 24*time.Hour)
	if err != nil {
		panic("HARNESS BUG: " + err.Error())
	}
	h, err := arp_spoofer.New(s)
	if err != nil {
		panic("HARNESS BUG: " + err.Error())
	}
	closed := false
	defer func() {
		h.Close()
		s.Close()
		synctest.Wait()
	}()
	host, router := toMAC(nic.HostMAC), toMAC(nic.RouterMAC)
	t0 := time.Now()
	time.Sleep(time.Second)
	var events []arpEvent
	hunted := map[string]time.Time{} // mac -> start of the current hunt
	offers := map[string]netip.Addr{}
	cs := func() map[string]any {
		var ops []string
		for _, o := range r.ops {
			ops = append(ops, o.String())
		}
		return map[string]any{"index": r.idx, "history": ops}
	}
	rx := newRx()
	if r.idx%4 == 1 {
		// the spoof loop takes a moment between looking at the hunt list and sending (it yields there): a StopHunt / Close that
		// falls due at the same virtual instant as a cycle lands inside that window
		yf := func(point string) {
			if point == "arp:spoofLoop:before-send" {
				time.Sleep(time.Duration(1+r.idx%5) * time.Millisecond)
			}
		}
		packet.VerifYield.Store(&yf)
		defer packet.VerifYield.Store(nil)
		r.nWindows++
		r.window = true
	}
	feed := func(b []byte) {
		frame, err := s.Parse(rx.load(b))
		if err != nil {
			panic("HARNESS BUG: arp frame rejected: " + err.Error())
		}
		h.ProcessPacket(frame)
		s.Notify(frame)
		rx.scribble() // the next ReadFrom overwrites the receive buffer
	}
	arpFrom := func(t packet.Addr, op uint16, spa, tpa netip.Addr, tha refdec.MAC) []byte {
		return refdec.Ether(bcastMAC, toMAC(t.MAC), 0x0806, 0, refdec.ARP(refdec.ARPPkt{HType: 1, PType: 0x0800, HLen: 6, PLen: 4, Op: op, SHA: toMAC(t.MAC), SPA: spa, THA: tha, TPA: tpa}))
	}
	for _, o := range r.ops {
		if closed {
			break
		}
		time.Sleep(o.Delay)
		// the main goroutine and the spoof loops may be runnable at the same virtual instant; let the loops go first
		synctest.Wait()
		tgt := c13Targets[o.T%len(c13Targets)]
		ev := arpEvent{t: time.Now(), seq: rec.Count(), kind: o.K, mac: string(tgt.MAC)}
		pi := c.Guard("C13", func() any { return cs() }, func() {
			switch o.K {
			case "start":
				a := tgt
				if o.P == 3 {
					// the hunted station shows up with another address: StartHunt is keyed (and idempotent) per MAC
					a.IP = netip.AddrFrom4([4]byte{192, 168, 0, byte(100 + o.T%len(c13Targets))})
					r.nAltStarts++
				}
				if o.P == 2 {
					// an address that changed hands: this station is hunted under the address the next target has (or had, if
					// that one's hunt was just stopped); hunts are per MAC, whatever their addresses
					a.IP = c13Targets[(o.T+1)%len(c13Targets)].IP
					r.nSharedIP++
				}
				if _, err := h.StartHunt(a); err == nil {
					if _, on := hunted[string(tgt.MAC)]; !on {
						hunted[string(tgt.MAC)] = ev.t
						ev.extra = "new"
					}
				}
			case "stop":
				a := tgt
				switch {
				case o.P == 3:
					a.IP = netip.AddrFrom4([4]byte{192, 168, 0, byte(100 + o.T%len(c13Targets))})
				case o.P == 2 && o.Delay%2 == 0:
					// the caller walks the station's host entries and passes the IPv6 one, or none: the hunt is keyed by MAC
					a.IP = []netip.Addr{netip.MustParseAddr("fe80::2:3ff:fe04:502"), netip.MustParseAddr("2001:db8::5"), {}}[int(o.Delay/2)%3]
					r.nStopOtherFamily++
				}
				h.StopHunt(a)
				if _, on := hunted[string(tgt.MAC)]; on {
					delete(hunted, string(tgt.MAC))
					ev.extra = "was-hunted"
				}
			case "close":
				h.Close()
				closed = true
			case "req-router":
				_, on := hunted[string(tgt.MAC)]
				ev.extra = fmt.Sprint(on)
				// the request goes to the broadcast address, or - when the asker revalidates a neighbour cache entry - straight to
				// the station it believes to be the router: this host (after a successful spoof) or the real router
				f := arpFrom(tgt, 1, tgt.IP, nic.RouterIP, refdec.MAC{})
				switch o.P % 3 {
				case 1:
					copy(f[0:6], nic.HostMAC)
					r.nUnicastReq++
				case 2:
					copy(f[0:6], nic.RouterMAC)
					r.nUnicastReq++
				}
				feed(f)
			case "req-router-relayed":
				// a request for the router relayed by a bridge/repeater: Ethernet source and ARP sender hardware address differ.
				// Whatever the handler does with it, forged packets may only ever be addressed to hunted hosts (rule R1)
				asker := c13Targets[(o.T+1+o.P)%len(c13Targets)]
				if string(asker.MAC) == string(tgt.MAC) {
					asker = c13Targets[(o.T+1)%len(c13Targets)]
				}
				_, onE := hunted[string(tgt.MAC)]
				_, onA := hunted[string(asker.MAC)]
				ev.extra = fmt.Sprintf("ether-src-hunted=%v arp-sender=%x hunted=%v", onE, []byte(asker.MAC), onA)
				if onE != onA {
					r.nRelayed++
				}
				feed(refdec.Ether(bcastMAC, toMAC(tgt.MAC), 0x0806, 0, refdec.ARP(refdec.ARPPkt{HType: 1, PType: 0x0800, HLen: 6, PLen: 4, Op: 1, SHA: toMAC(asker.MAC), SPA: asker.IP, TPA: nic.RouterIP})))
			case "req-other":
				feed(arpFrom(tgt, 1, tgt.IP, c13Targets[(o.T+1)%len(c13Targets)].IP, refdec.MAC{}))
			case "probe":
				probed := []netip.Addr{tgt.IP, netip.MustParseAddr("192.168.0.77"), netip.MustParseAddr("8.8.8.8"), netip.MustParseAddr("192.168.0.78")}[o.P%4]
				off := offers[string(tgt.MAC)]
				ev.extra = fmt.Sprintf("%v|%v", probed, off)
				feed(arpFrom(tgt, 1, ip4zero, probed, refdec.MAC{}))
			case "router-claim":
				// an address conflict: another station (a target or a stranger) announces the router's address as its own; what
				// the session then tracks for that address is not the router any more - the frames this host forges and the
				// corrective packet still have to carry the router's real MAC (NICInfo)
				who := tgt
				if o.P%2 == 0 {
					who = packet.Addr{MAC: net.HardwareAddr{0x02, 0xc1, 0x3a, 0, 0, 0x99}, IP: nic.RouterIP}
				}
				if o.P < 2 {
					feed(arpFrom(who, 1, nic.RouterIP, nic.RouterIP, bcastMAC))
				} else {
					feed(arpFrom(who, 2, nic.RouterIP, nic.RouterIP, bcastMAC))
				}
				r.nClaims++
			case "announce":
				feed(arpFrom(tgt, 1, tgt.IP, tgt.IP, bcastMAC))
			case "reply":
				feed(arpFrom(tgt, 2, tgt.IP, nic.HostIP, host))
			case "confirm":
				// the DHCP handler confirms the station's address (ACK of a selecting / rebooting REQUEST): the confirmed address
				// replaces whatever offer was on record, so an offer for another address is not outstanding any more
				s.DHCPv4Update(tgt.MAC, tgt.IP, packet.NameEntry{})
				offers[string(tgt.MAC)] = tgt.IP
				r.nConfirms++
			case "offer":
				a := []netip.Addr{netip.MustParseAddr("192.168.0.77"), tgt.IP, {}}[o.P%3]
				s.SetDHCPv4IPOffer(tgt.MAC, a, packet.NameEntry{})
				offers[string(tgt.MAC)] = a
			case "wait":
			}
		})
		if pi != nil {
			r.viol = true
			return
		}
		events = append(events, ev)
		synctest.Wait()
	}
	// let one more cycle pass so that stopped loops emit their corrective packet, then stop everything
	time.Sleep(arpCycle + time.Second)
	synctest.Wait()
	endSeq := rec.Count()
	endT := time.Now()
	if !closed {
		h.Close()
	}
	closeSeq := rec.Count()
	for _, e := range events {
		if e.kind == "close" {
			closeSeq = e.seq
		}
	}
	time.Sleep(2*arpCycle + time.Second)
	synctest.Wait()
	raw := rec.Take()
	txObserve(c, nic, "arp-spoofer", raw, func() any { return cs() })
	// ---- classify frames
	var frames []arpFrame
	for _, f := range raw {
		d := refdec.Decode(f.Data)
		if d.Err || d.PayloadID != refdec.PARP {
			continue
		}
		a, _ := refdec.ParseARP(f.Data[14:])
		fr := arpFrame{seq: f.Seq, t: f.T, dst: d.DstMAC, a: a, class: "other"}
		switch {
		case a.SHA == host && a.SPA == nic.RouterIP && a.Op == 1:
			fr.class = "forged-periodic"
		case a.SHA == host && a.SPA == nic.RouterIP && a.Op == 2:
			fr.class = "forged-reply"
		case a.SHA == host && a.Op == 2 && a.TPA == netip.MustParseAddr("255.255.255.255"):
			fr.class = "probe-reject"
		case a.SHA == router && a.SPA == nic.RouterIP && a.Op == 1 && d.DstMAC != bcastMAC:
			fr.class = "corrective"
		}
		frames = append(frames, fr)
	}
	fail := func(key, detail string) {
		if !r.viol {
			data := cs()
			var tl []string
			for _, e := range events {
				tl = append(tl, fmt.Sprintf("%v seq=%d %s(%x) %s", e.t.Sub(t0), e.seq, e.kind, e.mac, e.extra))
			}
			var fl []string
			for _, f := range frames {
				fl = append(fl, fmt.Sprintf("%v seq=%d %s -> %x", f.t.Sub(t0), f.seq, f.class, f.dst[:]))
			}
			data["calls"] = tl
			data["frames"] = fl
			c.Viol(key, detail, data)
		}
		r.viol = true
	}
	if r.window {
		// histories with the send window open: the instants of the cycles shift and a packet the loop had decided on may follow
		// a StopHunt / Close by the length of the window, so the timing rules below do not apply. What is judged: nothing
		// forged ever reaches a station that was never hunted, and a station whose hunt was stopped (and not started again,
		// with the handler open for at least another cycle) is left with the router's real MAC - the last packet about the
		// router's address it gets is the restoring one
		ever := map[string]bool{}
		lastEnd := map[string]arpEvent{}
		var closeT time.Time
		for _, e := range events {
			switch {
			case e.kind == "start" && e.extra == "new":
				ever[e.mac] = true
				delete(lastEnd, e.mac)
			case e.kind == "stop" && e.extra == "was-hunted":
				lastEnd[e.mac] = e
			case e.kind == "close":
				closeT = e.t
			}
		}
		for _, f := range frames {
			if (f.class == "forged-periodic" || f.class == "forged-reply") && !ever[string(f.dst[:])] {
				fail("arp:forged-to-non-hunted:"+f.class, fmt.Sprintf("%s to %x which was never hunted", f.class, f.dst[:]))
			}
		}
		for mac, e := range lastEnd {
			if !closeT.IsZero() && closeT.Sub(e.t) <= arpCycle+time.Second {
				continue
			}
			lastForged, lastCorrective := -1, -1
			for _, f := range frames {
				if string(f.dst[:]) != mac || f.seq < e.seq {
					continue
				}
				switch f.class {
				case "forged-periodic", "forged-reply":
					lastForged = f.seq
				case "corrective":
					lastCorrective = f.seq
				}
			}
			if lastCorrective < 0 || lastForged > lastCorrective {
				fail("arp:left-poisoned-after-stop", fmt.Sprintf("after StopHunt(%x) the last packet about the router's address sent to it is not the restoring one (last forged seq %d, last restoring seq %d)", mac, lastForged, lastCorrective))
			}
			r.nCorrective++
		}
		return
	}
	// ---- hunt intervals by frame sequence watermarks
	type interval struct {
		mac        string
		start, end time.Time
		sSeq, eSeq int
		open       bool
		restart    bool // a StartHunt followed a StopHunt of the same MAC within one cycle (old loop may survive)
	}
	var ivs []*interval
	cur := map[string]*interval{}
	lastStop := map[string]time.Time{}
	for _, e := range events {
		switch {
		case e.kind == "start" && e.extra == "new":
			iv := &interval{mac: e.mac, start: e.t, sSeq: e.seq, open: true}
			if ls, ok := lastStop[e.mac]; ok && e.t.Sub(ls) <= arpCycle {
				iv.restart = true
			}
			cur[e.mac] = iv
			ivs = append(ivs, iv)
		case e.kind == "stop" && e.extra == "was-hunted":
			iv := cur[e.mac]
			iv.end, iv.eSeq, iv.open = e.t, e.seq, false
			delete(cur, e.mac)
			lastStop[e.mac] = e.t
		case e.kind == "close":
			for _, iv := range cur {
				iv.end, iv.eSeq, iv.open = e.t, e.seq, false
			}
		}
	}
	for _, iv := range ivs {
		if iv.open {
			iv.end, iv.eSeq = endT, endSeq
		}
	}
	huntedAt := func(mac string, seq int) *interval {
		for _, iv := range ivs {
			if iv.mac == mac && seq >= iv.sSeq && seq < iv.eSeq {
				return iv
			}
		}
		return nil
	}
	// R1 / R7: confinement
	for _, f := range frames {
		if f.seq >= closeSeq {
			fail("arp:frame-after-close", fmt.Sprintf("%s frame to %x at %v after Close", f.class, f.dst[:], f.t.Sub(t0)))
		}
		if f.class == "forged-periodic" || f.class == "forged-reply" {
			r.nForged++
			if huntedAt(string(f.dst[:]), f.seq) == nil {
				fail("arp:forged-to-non-hunted:"+f.class, fmt.Sprintf("forged ARP (router IP is at our MAC) sent to %x at %v, which is not in the hunt list at that point", f.dst[:], f.t.Sub(t0)))
			}
		}
	}
	// R2 / R3: immediate replies and probe rejects, matched to the step that triggered them
	for i, e := range events {
		next := endSeq + 1000000
		if i+1 < len(events) {
			next = events[i+1].seq
		}
		var got []arpFrame
		for _, f := range frames {
			if f.seq >= e.seq && f.seq < next && (f.class == "forged-reply" || f.class == "probe-reject") {
				got = append(got, f)
			}
		}
		switch e.kind {
		case "req-router":
			want := 0
			if e.extra == "true" {
				want = 1
			}
			n := 0
			for _, f := range got {
				if f.class == "forged-reply" && string(f.dst[:]) == e.mac {
					n++
				}
			}
			if n != want {
				fail(fmt.Sprintf("arp:immediate-reply:%d-for-%d", n, want), fmt.Sprintf("%d spoof replies to a request for the router from %x (hunted=%s)", n, e.mac, e.extra))
			}
			r.nReplies += n
		case "probe":
			parts := strings.Split(e.extra, "|")
			probed, _ := netip.ParseAddr(parts[0])
			offer, _ := netip.ParseAddr(parts[1])
			want := 0
			if offer.IsValid() && offer.Is4() && offer != probed && nic.HomeLAN.Contains(probed) {
				want = 1
			}
			n := 0
			for _, f := range got {
				if f.class == "probe-reject" && string(f.dst[:]) == e.mac && f.a.SPA == probed {
					n++
				}
			}
			if n != want {
				fail(fmt.Sprintf("arp:probe-reject:%d-for-%d", n, want), fmt.Sprintf("%d probe-reject replies for probe of %v by %x holding offer %v", n, probed, e.mac, offer))
			}
			r.nRejects += n
		case "req-router-relayed":
			// no count is demanded here; confinement (R1) already judged every forged frame
			for _, f := range got {
				if f.class != "forged-reply" {
					fail("arp:unsolicited-reply:"+e.kind, fmt.Sprintf("%s triggered by a relayed request for the router", f.class))
				}
			}
		default:
			if len(got) > 0 {
				fail("arp:unsolicited-reply:"+e.kind, fmt.Sprintf("%d spoof/reject replies triggered by %s", len(got), e.kind))
			}
		}
	}
	// R4 / R5 / R6: periodic cycle, corrective packet, idempotence
	for _, iv := range ivs {
		var per []arpFrame
		for _, f := range frames {
			if f.class == "forged-periodic" && string(f.dst[:]) == iv.mac && f.seq >= iv.sSeq && f.seq < iv.eSeq {
				per = append(per, f)
			}
		}
		at := map[time.Duration]int{}
		for _, f := range per {
			at[f.t.Sub(iv.start)]++
		}
		for k := time.Duration(0); iv.start.Add(k).Before(iv.end); k += arpCycle {
			n := at[k]
			if n == 0 && !iv.restart {
				fail("arp:cycle-missing", fmt.Sprintf("no forged packet to %x at %v after StartHunt (period %v)", iv.mac, k, arpCycle))
			}
			if n > 1 && !iv.restart {
				fail("arp:double-loop", fmt.Sprintf("%d forged packets to %x at %v after StartHunt: more than one loop runs for this MAC", n, iv.mac, k))
			}
			if n > 0 {
				r.nCycles++
			}
			delete(at, k)
		}
		delete(at, iv.end.Sub(iv.start)) // a tick exactly at the stop instant may go either way
		if len(at) > 0 && !iv.restart {
			var ks []string
			for k := range at {
				ks = append(ks, k.String())
			}
			sort.Strings(ks)
			fail("arp:off-cycle-forged", fmt.Sprintf("forged packets to %x at offsets %v from StartHunt, not multiples of %v", iv.mac, ks, arpCycle))
		}
		// (a Close within that cycle ends the loop without the corrective packet: Close is only required to stop the loops)
		if !iv.open && iv.eSeq < closeSeq && !closedBefore(events, iv.end.Add(arpCycle)) {
			// stopped by StopHunt: corrective packet within one cycle unless the MAC was hunted again within that cycle
			rehunted := false
			for _, o := range ivs {
				if o.mac == iv.mac && o.start.After(iv.end.Add(-1)) && o != iv && o.start.Sub(iv.end) <= arpCycle && !o.start.Before(iv.end) {
					rehunted = true
				}
			}
			found := false
			for _, f := range frames {
				if f.class == "corrective" && string(f.dst[:]) == iv.mac && f.seq >= iv.eSeq && f.t.Sub(iv.end) <= arpCycle {
					found = true
					r.nCorrective++
				}
			}
			if !found && !rehunted && !iv.restart {
				fail("arp:no-corrective-packet", fmt.Sprintf("no ARP packet restoring the router's real MAC reached %x within %v of StopHunt", iv.mac, arpCycle))
			}
		}
	}
	c.Obs("forged_frames", int64(r.nForged))
	c.Obs("corrective_packets", int64(r.nCorrective))
	c.Obs("immediate_replies", int64(r.nReplies))
	c.Obs("probe_rejects", int64(r.nRejects))
	c.Obs("spoof_cycles", int64(r.nCycles))
	c.Obs("hunt_intervals", int64(len(ivs)))
}

func closedBefore(ev []arpEvent, t time.Time) bool {
	for _, e := range ev {
		if e.kind == "close" && !e.t.After(t) {
			return true
		}
	}
	return false
}

func randAop(r *rand.Rand) aop {
	delays := []time.Duration{0, 1, time.Second, arpCycle - 1, arpCycle, arpCycle + 1, 7 * time.Second, 13 * time.Second, 100 * time.Millisecond}
	o := aop{T: r.Intn(5), P: r.Intn(4), Delay: delays[r.Intn(len(delays))]}
	switch k := r.Intn(20); {
	case k < 5:
		o.K, o.T = "start", r.Intn(3)
	case k < 9:
		o.K, o.T = "stop", r.Intn(3)
	case k < 12:
		o.K = "req-router"
	case k < 13:
		if r.Intn(2) == 0 {
			o.K = "req-router-relayed"
		} else {
			o.K = "req-other"
		}
	case k < 15:
		o.K = "probe"
	case k < 16:
		o.K = "announce"
		if r.Intn(3) == 0 {
			o.K = "router-claim"
		}
	case k < 17:
		o.K = "reply"
	case k < 19:
		o.K = "offer"
		if r.Intn(3) == 0 {
			o.K = "confirm"
		}
	default:
		o.K = "wait"
	}
	return o
}

func runC13(c *wk.Ctx) {
	n := c.N(600, 30_000)
	for i := int64(0); i < n; i++ {
		idx := i + 1
		if !c.Mine(idx) {
			continue
		}
		r := c.Rand("c13", i)
		ops := make([]aop, 8+r.Intn(16))
		for k := range ops {
			ops[k] = randAop(r)
		}
		if r.Intn(4) == 0 {
			ops = append(ops, aop{K: "close", Delay: time.Duration(r.Intn(8)) * time.Second})
		}
		c.Begin(idx, "arp-hunt-history", nil)
		c.Eval()
		run := &c13Run{c: c, idx: idx, ops: ops}
		runBubble(c, idx, func() { run.history() })
		c.Obs("relayed_requests_mixed_hunt_state", int64(run.nRelayed))
		c.Obs("router_requests_sent_unicast", int64(run.nUnicastReq))
		c.Obs("dhcp_confirmations", int64(run.nConfirms))
		c.Obs("starthunt_under_another_targets_address", int64(run.nSharedIP))
		c.Obs("router_address_claimed_by_another_station", int64(run.nClaims))
		c.Obs("histories_with_send_window", int64(run.nWindows))
		c.Obs("stophunt_with_ipv6_or_no_address", int64(run.nStopOtherFamily))
		c.Obs("starthunt_with_another_ip", int64(run.nAltStarts))
		if !run.viol && run.nForged > 0 && run.nCorrective > 0 {
			c.Class(fmt.Sprintf("forged~%d corrective~%d replies=%v rejects=%v", min(run.nForged/4, 6), min(run.nCorrective, 3), run.nReplies > 0, run.nRejects > 0))
		}
		if c.WantSample() && run.nCorrective > 0 && len(ops) < 12 {
			var os []string
			for _, o := range ops {
				os = append(os, o.String())
			}
			c.Sample(map[string]any{"history": os, "forged": run.nForged, "corrective": run.nCorrective})
		}
	}
}
