package checks

import (
	"errors"
	"fmt"
	"math"
	"math/rand"
	"net"
	"net/netip"
	"os"
	"reflect"
	"sort"
	"strconv"
	"strings"
	"time"

	"github.com/irai/packet"
	"github.com/irai/packet/fastlog"
	"github.com/irai/packet/handlers/arp_spoofer"
	"github.com/irai/packet/handlers/dhcp4_spoofer"
	"github.com/irai/packet/handlers/dns_naming"
	"github.com/irai/packet/handlers/icmp_spoofer"

	"verif/harness/gen"
	"verif/harness/mon"
	"verif/harness/wk"
)

func init() { register("C20", runC20) }

const lineBuf = 2048
const fitSlack = 64 // random field sequences are compared exactly only when their reference rendering leaves this much room
// arraySlack is the room a single array appended at a chosen fill level must leave to be compared exactly: the appenders of the
// unchanged tree keep at most 4 bytes in reserve (terminator, closing bracket, separator), so "fits" is judged almost to the byte
const arraySlack = 8

// slackFor: IPArray reserves the longest possible address text (39+3) before each element whatever the element is, so an
// address list is compared exactly only when that reserve is left
func slackFor(kind string) int {
	if kind == "IPArray" {
		return 48
	}
	return arraySlack
}

var c20Logger = fastlog.New("verif")

const c20Prefix = "verif :"

// field is one appender call with its reference rendering.
type field struct {
	kind  string
	apply func(l *fastlog.Line) *fastlog.Line
	ref   string
	array bool
	elems []string // reference rendering of each array element (arrays only)
	open  string   // " name=["
}

func hex2(b byte) string { return fmt.Sprintf("%02x", b) }

func refMAC(m net.HardwareAddr) string {
	if len(m) != 6 {
		return "nil"
	}
	return m.String()
}

func refIPSlice(ip net.IP) string {
	if ip == nil {
		return "nil"
	}
	if len(ip) != 4 && len(ip) != 16 {
		return "nil"
	}
	return ip.String()
}

func mkName(r *rand.Rand) string {
	const a = "abcdefghijklmnopqrstuvwxyzABCDEFGHIJKLMNOPQRSTUVWXYZ_0123456789"
	n := 1 + r.Intn(10)
	b := make([]byte, n)
	for i := range b {
		b[i] = a[r.Intn(len(a))]
	}
	return string(b)
}

func fUint8(n string, v uint8) field {
	return field{kind: "Uint8", apply: func(l *fastlog.Line) *fastlog.Line { return l.Uint8(n, v) }, ref: " " + n + "=" + strconv.Itoa(int(v))}
}
func fUint8Hex(n string, v uint8) field {
	return field{kind: "Uint8Hex", apply: func(l *fastlog.Line) *fastlog.Line { return l.Uint8Hex(n, v) }, ref: " " + n + "=0x" + fmt.Sprintf("%02x", v)}
}
func fUint16(n string, v uint16) field {
	return field{kind: "Uint16", apply: func(l *fastlog.Line) *fastlog.Line { return l.Uint16(n, v) }, ref: " " + n + "=" + strconv.Itoa(int(v))}
}
func fUint16Hex(n string, v uint16) field {
	return field{kind: "Uint16Hex", apply: func(l *fastlog.Line) *fastlog.Line { return l.Uint16Hex(n, v) }, ref: " " + n + "=0x" + fmt.Sprintf("%04x", v)}
}
func fUint32(n string, v uint32) field {
	return field{kind: "Uint32", apply: func(l *fastlog.Line) *fastlog.Line { return l.Uint32(n, v) }, ref: " " + n + "=" + strconv.FormatUint(uint64(v), 10)}
}
func fInt(n string, v int) field {
	return field{kind: "Int", apply: func(l *fastlog.Line) *fastlog.Line { return l.Int(n, v) }, ref: " " + n + "=" + strconv.Itoa(v)}
}
func fBool(n string, v bool) field {
	return field{kind: "Bool", apply: func(l *fastlog.Line) *fastlog.Line { return l.Bool(n, v) }, ref: " " + n + "=" + strconv.FormatBool(v)}
}
func fString(n, v string) field {
	return field{kind: "String", apply: func(l *fastlog.Line) *fastlog.Line { return l.String(n, v) }, ref: " " + n + "=\"" + v + "\""}
}
func fLabel(n string) field {
	return field{kind: "Label", apply: func(l *fastlog.Line) *fastlog.Line { return l.Label(n) }, ref: " " + n}
}
func fBytes(n string, v []byte) field {
	return field{kind: "Bytes", apply: func(l *fastlog.Line) *fastlog.Line { return l.Bytes(n, v) }, ref: " " + n + "=" + string(v)}
}
func fError(e error) field {
	return field{kind: "Error", apply: func(l *fastlog.Line) *fastlog.Line { return l.Error(e) }, ref: " error=[" + e.Error() + "]"}
}
func fMAC(n string, m net.HardwareAddr) field {
	return field{kind: "MAC", apply: func(l *fastlog.Line) *fastlog.Line { return l.MAC(n, m) }, ref: " " + n + "=" + refMAC(m)}
}
func fIP(n string, a netip.Addr) field {
	s := "nil"
	if a.IsValid() {
		s = a.String()
	}
	return field{kind: "IP", apply: func(l *fastlog.Line) *fastlog.Line { return l.IP(n, a) }, ref: " " + n + "=" + s}
}
func fIPSlice(n string, ip net.IP) field {
	return field{kind: "IPSlice", apply: func(l *fastlog.Line) *fastlog.Line { return l.IPSlice(n, ip) }, ref: " " + n + "=" + refIPSlice(ip)}
}
func fDuration(n string, d time.Duration) field {
	return field{kind: "Duration", apply: func(l *fastlog.Line) *fastlog.Line { return l.Duration(n, d) }, ref: " " + n + "=" + d.String()}
}
func fTime(n string, t time.Time) field {
	return field{kind: "Time", apply: func(l *fastlog.Line) *fastlog.Line { return l.Time(n, t) }, ref: " " + n + "=" + t.Format(time.StampMilli)}
}
func fSprintf(n string, v any) field {
	return field{kind: "Sprintf", apply: func(l *fastlog.Line) *fastlog.Line { return l.Sprintf(n, v) }, ref: " " + n + "=" + fmt.Sprintf("%+v", v)}
}
func fLF() field {
	return field{kind: "LF", apply: func(l *fastlog.Line) *fastlog.Line { return l.LF() }, ref: "\n"}
}
func fByteArray(n string, v []byte) field {
	f := field{kind: "ByteArray", array: true, open: " " + n + "=[", apply: func(l *fastlog.Line) *fastlog.Line { return l.ByteArray(n, v) }}
	parts := make([]string, len(v))
	for i, b := range v {
		parts[i] = hex2(b)
	}
	f.elems = parts
	f.ref = f.open + strings.Join(parts, " ") + "]"
	return f
}

// list punctuation follows the library's own documented output: `["a", "b",]`
func fStringArray(n string, v []string) field {
	f := field{kind: "StringArray", array: true, open: " " + n + "=[", apply: func(l *fastlog.Line) *fastlog.Line { return l.StringArray(n, v) }}
	for _, s := range v {
		f.elems = append(f.elems, "\""+s+"\"")
	}
	f.ref = f.open + listJoin(f.elems) + "]"
	return f
}
func fIPArray(n string, v []net.IP) field {
	f := field{kind: "IPArray", array: true, open: " " + n + "=[", apply: func(l *fastlog.Line) *fastlog.Line { return l.IPArray(n, v) }}
	for _, ip := range v {
		if ip == nil {
			f.elems = append(f.elems, "")
		} else {
			f.elems = append(f.elems, refIPSlice(ip))
		}
	}
	f.ref = f.open + listJoin(f.elems) + "]"
	return f
}

func listJoin(e []string) string {
	if len(e) == 0 {
		return ""
	}
	return strings.Join(e, ", ") + ","
}

type c20 struct {
	c   *wk.Ctx
	idx int64
}

// line renders msg + fields through the library; returns output and panic info.
func (t *c20) line(msg string, fs []field) (out string, pi *wk.PanicInfo) {
	defer func() {
		if r := recover(); r != nil {
			pi = wk.Capture(r)
		}
	}()
	l := c20Logger.Msg(msg)
	for _, f := range fs {
		l = f.apply(l)
	}
	return l.ToString(), nil
}

func refLine(msg string, fs []field) string {
	var sb strings.Builder
	sb.WriteString(c20Prefix)
	if msg != "" {
		sb.WriteString(" \"" + msg + "\"")
	}
	for _, f := range fs {
		sb.WriteString(f.ref)
	}
	return sb.String()
}

func patternClass(f field) string {
	if f.kind == "IPSlice" || f.kind == "IP" {
		s := f.ref[strings.Index(f.ref, "=")+1:]
		switch {
		case strings.Contains(s, "."):
			return f.kind + ":v4"
		case strings.Contains(s, "::"):
			return f.kind + ":v6-compressed"
		case s == "nil":
			return f.kind + ":nil"
		}
		return f.kind + ":v6-full"
	}
	return f.kind
}

// unsetElems checks a line with one array field that has unset elements: see the call site for what is judged.
func (t *c20) unsetElems(pre []field, f field, post []field, what string) {
	c := t.c
	c.Eval()
	all := append(append(append([]field{}, pre...), f), post...)
	got, pi := t.line("", all)
	cs := map[string]any{"index": t.idx, "what": what, "array": f.kind, "elements": f.elems, "got": got}
	if pi != nil {
		c.Viol("fmt:panic:"+pi.Frame+":"+what, pi.Value+"\n"+pi.Stack, cs)
		return
	}
	before, after := refLine("", pre), ""
	for _, x := range post {
		after += x.ref
	}
	if !strings.HasPrefix(got, before) || !strings.HasSuffix(got, after) || len(got) < len(before)+len(after) {
		c.Viol("fmt:"+f.kind+":unset-elements:neighbours", fmt.Sprintf("the fields around the array are damaged: %q", got), cs)
		return
	}
	mid := got[len(before) : len(got)-len(after)]
	if !strings.HasPrefix(mid, f.open) || !strings.HasSuffix(mid, "]") {
		c.Viol("fmt:"+f.kind+":unset-elements:brackets", fmt.Sprintf("array rendered as %q: opening / closing bracket missing", mid), cs)
		return
	}
	body := mid[len(f.open):]
	for _, el := range f.elems {
		if el == "" || el == "\"\"" {
			continue
		}
		i := strings.Index(body, el)
		if i < 0 {
			c.Viol("fmt:"+f.kind+":unset-elements:lost", fmt.Sprintf("array rendered as %q: element %s is missing or out of order", mid, el), cs)
			return
		}
		body = body[i+len(el):]
	}
	c.Class("unset-elements:" + f.kind)
}

// exact checks a line that fits the buffer.
func (t *c20) exact(msg string, fs []field, what string) bool {
	c := t.c
	c.Eval()
	want := refLine(msg, fs)
	if len(want) > lineBuf-fitSlack {
		return true // not a "fits" case
	}
	cs := func() map[string]any {
		kinds := make([]string, len(fs))
		for i, f := range fs {
			kinds[i] = f.kind
		}
		return map[string]any{"index": t.idx, "what": what, "fields": kinds, "reference": want}
	}
	got, pi := t.line(msg, fs)
	if pi != nil {
		m := cs()
		c.Viol("fmt:panic:"+pi.Frame+":"+what, pi.Value+"\n"+pi.Stack, m)
		return false
	}
	if got != want {
		// find the first field whose rendering differs
		bad := "?"
		pos := len(c20Prefix)
		if msg != "" {
			pos += len(msg) + 3
		}
		for _, f := range fs {
			if pos+len(f.ref) > len(got) || got[pos:pos+len(f.ref)] != f.ref {
				bad = patternClass(f)
				break
			}
			pos += len(f.ref)
		}
		m := cs()
		m["got"] = got
		c.Viol("fmt:"+bad, fmt.Sprintf("line differs from the reference rendering at a %s field:\n got  %q\n want %q", bad, got, want), m)
		return false
	}
	for _, f := range fs {
		c.Class("exact:" + patternClass(f))
	}
	if c.WantSample() && len(fs) > 2 && len(want) < 200 {
		c.Sample(map[string]any{"line": got, "fields": len(fs)})
	}
	return true
}

// overflow: an array appended at fill level F with more data than fits must not panic nor overflow.
func (t *c20) overflow(fill int, f field, what string) {
	c := t.c
	c.Eval()
	var pre []field
	if fill > 12 {
		pre = append(pre, fString("f", strings.Repeat("x", fill-12)))
	}
	prefix := refLine("", pre)
	cs := func() map[string]any {
		return map[string]any{"index": t.idx, "what": what, "fill_level": len(prefix), "array": f.kind, "elements": len(f.elems), "reference_len": len(prefix) + len(f.ref)}
	}
	got, pi := t.line("", append(pre, f))
	bucket := "mid"
	switch {
	case len(prefix) > lineBuf-16:
		bucket = "last16"
	case len(prefix) > lineBuf-64:
		bucket = "last64"
	}
	if pi != nil {
		c.Viol("fmt:"+f.kind+":overflow-panic:"+bucket, fmt.Sprintf("%s with %d elements at fill level %d: %s\n%s", f.kind, len(f.elems), len(prefix), pi.Value, pi.Stack), cs())
		return
	}
	if len(got) > lineBuf {
		c.Viol("fmt:"+f.kind+":overflow-length", fmt.Sprintf("output is %d bytes", len(got)), cs())
		return
	}
	if !strings.HasPrefix(got, prefix) {
		c.Viol("fmt:"+f.kind+":overflow-clobber", "the array appender damaged earlier fields", cs())
		return
	}
	body := got[len(prefix):]
	if len(prefix)+len(f.ref) <= lineBuf-slackFor(f.kind) {
		if body != f.ref {
			m := cs()
			m["got"] = body
			c.Viol("fmt:"+f.kind, fmt.Sprintf("array fits but differs from the reference rendering:\n got  %.200q\n want %.200q", body, f.ref), m)
			return
		}
		c.Class("array-fits:" + f.kind)
		if len(prefix)+len(f.ref) > lineBuf-fitSlack {
			c.Class("array-fits-in-last-64:" + f.kind)
		}
		return
	}
	// truncated: the statement only demands "inside the buffer, no overflow"; malformed punctuation of a truncated
	// list (e.g. " names=]" when no element fitted) is counted, not a violation (DESIGN Corrections)
	if body != "" && !strings.HasPrefix(body, f.open) && !strings.HasPrefix(f.open, body) {
		c.Obs("truncated_list_malformed_punctuation", 1)
	}
	c.Class("array-truncated:" + f.kind + ":" + bucket)
	c.Obs("truncations_observed", 1)
}

func randField(r *rand.Rand, e gen.Env) field {
	n := mkName(r)
	switch r.Intn(21) {
	case 0:
		return fUint8(n, uint8(r.Intn(256)))
	case 1:
		return fUint8Hex(n, uint8(r.Intn(256)))
	case 2:
		return fUint16(n, uint16(r.Intn(65536)))
	case 3:
		return fUint16Hex(n, uint16(r.Intn(65536)))
	case 4:
		return fUint32(n, r.Uint32())
	case 5:
		return fInt(n, int(r.Int63())-int(r.Int63()))
	case 6:
		return fBool(n, r.Intn(2) == 0)
	case 7:
		return fString(n, strings.Repeat("s", r.Intn(40)))
	case 8:
		return fLabel(n)
	case 9:
		m := make(net.HardwareAddr, []int{6, 6, 6, 0, 8}[r.Intn(5)])
		r.Read(m)
		return fMAC(n, m)
	case 10:
		a, _ := e.IP4(r)
		return fIP(n, a)
	case 11:
		a, _ := e.IP6(r)
		if r.Intn(3) == 0 && a.Is6() && !a.Is4In6() {
			a = a.WithZone(pick20(r, "eth0", "1", "wlp3s0", "en0")) // netip prints the zone of a scoped address
		}
		return fIP(n, a)
	case 12:
		a, _ := e.IP6(r)
		return fIPSlice(n, net.IP(a.AsSlice()))
	case 13:
		a, _ := e.IP4(r)
		if r.Intn(2) == 0 {
			return fIPSlice(n, net.IP(a.AsSlice()))
		}
		return fIPSlice(n, net.IP(a.AsSlice()).To16())
	case 14:
		return fDuration(n, time.Duration(r.Int63n(int64(48*time.Hour))))
	case 15:
		return fTime(n, time.Unix(r.Int63n(2e9), r.Int63n(1e9)))
	case 16:
		return fByteArray(n, gen.RandBytes(r, r.Intn(24)))
	case 17:
		var s []string
		for i := r.Intn(4); i > 0; i-- {
			s = append(s, mkName(r))
		}
		return fStringArray(n, s)
	case 18:
		return fError(errors.New("some error " + n))
	case 19:
		var ips []net.IP
		for i := r.Intn(5); i > 0; i-- {
			a, _ := e.IP6(r)
			if r.Intn(2) == 0 {
				a, _ = e.IP4(r)
			}
			ips = append(ips, net.IP(a.AsSlice()))
		}
		return fIPArray(n, ips)
	}
	return fSprintf(n, struct {
		A int
		B string
	}{r.Intn(100), n})
}

func pick20(r *rand.Rand, xs ...string) string { return xs[r.Intn(len(xs))] }

type c20Inner struct{ n int }

func (x c20Inner) String() string { return c20Logger.Msg("").Int("entry", x.n).Bool("last", x.n%2 == 0).ToString() }

func c20Concurrent(t *c20, n int) {
	c := t.c
	c.Eval()
	const workers = 12
	type bad struct {
		n         int
		got, want string
	}
	res := make(chan bad, workers)
	for w := 0; w < workers; w++ {
		go func(w int) {
			var b bad
			for i := 0; i < n; i++ {
				var got, want string
				v := w*1_000_000 + i
				if w%2 == 0 {
					in := c20Inner{v}
					got = c20Logger.Msg("outer").Stringer(in).Int("after", v).ToString()
					want = c20Prefix + " \"outer\" " + c20Prefix + fmt.Sprintf(" entry=%d last=%v", v, v%2 == 0) + fmt.Sprintf(" after=%d", v)
				} else {
					got = c20Logger.Msg("plain").Int("n", v).String("s", "abc").Uint16("u", uint16(i)).ToString()
					want = c20Prefix + fmt.Sprintf(" \"plain\" n=%d s=\"abc\" u=%d", v, uint16(i))
				}
				if got != want {
					if b.n++; b.got == "" {
						b.got, b.want = got, want
					}
				}
			}
			res <- b
		}(w)
	}
	total, got, want := 0, "", ""
	for w := 0; w < workers; w++ {
		b := <-res
		if total += b.n; got == "" {
			got, want = b.got, b.want
		}
	}
	if total > 0 {
		c.Viol("fmt:concurrent-lines", fmt.Sprintf("%d of %d lines rendered by %d goroutines at once differ from their reference; first:\n got  %q\n want %q", total, workers*n, workers, got, want), map[string]any{"goroutines": workers, "lines_each": n})
		return
	}
	c.Obs("lines_rendered_concurrently", int64(workers*n))
	c.Class("concurrent lines")
}

func runC20(c *wk.Ctx) {
	t := &c20{c: c}
	e := gen.DefaultEnv()
	if os.Getenv("VERIF_PART") == "concurrent" {
		// second run of the check, built with the race detector: only the concurrent rendering, whose lines are compared as
		// always while the detector watches the line pool (a line handed to a second owner while the first still writes to it)
		for round := int64(0); round < c.N(6, 60); round++ {
			t.idx = 9_000_000 + round
			c.Begin(t.idx, "fastlog-concurrent", nil)
			c20Concurrent(t, 10_000)
		}
		return
	}
	next := func() bool {
		t.idx++
		ok := c.Mine(t.idx)
		if ok {
			c.Begin(t.idx, "fastlog", nil)
		}
		return ok
	}
	// (1) exhaustive value sweeps, one field per line (8 values per line to keep lines short)
	for v := 0; v < 65536; v += 8 {
		if !next() {
			continue
		}
		var fs []field
		for k := 0; k < 8; k++ {
			fs = append(fs, fUint16("u", uint16(v+k)), fUint16Hex("h", uint16(v+k)))
		}
		t.exact("", fs, "uint16-sweep")
	}
	for v := 0; v < 256; v++ {
		if !next() {
			continue
		}
		b := byte(v)
		fs := []field{fUint8("a", b), fUint8Hex("b", b)}
		for pos := 0; pos < 6; pos++ {
			m := net.HardwareAddr{0x10, 0x32, 0x54, 0x76, 0x98, 0xba}
			m[pos] = b
			fs = append(fs, fMAC("m", m))
		}
		fs = append(fs, fByteArray("x", []byte{b, ^b, b}))
		t.exact("msg", fs, "byte-sweep")
	}
	for _, v := range []uint32{0, 1, 9, 10, 99, 100, 999, 1000, 65535, 65536, 99999, 100000, 999999999, 1000000000, math.MaxInt32, math.MaxInt32 + 1, math.MaxUint32 - 1, math.MaxUint32} {
		if !next() {
			continue
		}
		t.exact("", []field{fUint32("v", v), fInt("i", int(v)), fInt("n", -int(v)), fUint16("w", uint16(v)), fUint8("b", uint8(v))}, "boundary-ints")
	}
	if next() {
		t.exact("", []field{fInt("min", math.MinInt64), fInt("max", math.MaxInt64), fBool("t", true), fBool("f", false), fDuration("d0", 0), fDuration("d", 1500*time.Millisecond), fDuration("neg", -time.Hour)}, "boundary-ints")
	}
	// (2) every IPv6 zero-run layout: 256 masks x 3 fill patterns, both IP appenders; IPv4-mapped forms
	for mask := 0; mask < 256; mask++ {
		for pat := 0; pat < 3; pat++ {
			if !next() {
				continue
			}
			var a [16]byte
			for g := 0; g < 8; g++ {
				if mask>>g&1 == 1 {
					switch pat {
					case 0:
						a[2*g], a[2*g+1] = 0xff, 0xff
					case 1:
						a[2*g+1] = byte(g + 1) // small values: leading zero suppression
					default:
						a[2*g], a[2*g+1] = byte(0x10*(g+1)), 0x0a
					}
				}
			}
			ip := netip.AddrFrom16(a)
			t.exact("", []field{fIPSlice("s", net.IP(a[:])), fIP("n", ip), fIPArray("arr", []net.IP{net.IP(a[:])})}, fmt.Sprintf("ipv6-zero-runs"))
		}
	}
	for v := 0; v < 256; v++ {
		if !next() {
			continue
		}
		v4 := net.IPv4(byte(v), byte(255-v), byte(v*7), byte(v^0x55))
		a4 := netip.AddrFrom4([4]byte{byte(v), byte(255 - v), byte(v * 7), byte(v ^ 0x55)})
		t.exact("", []field{fIPSlice("m", v4), fIPSlice("s", v4.To4()), fIP("n", a4), fIP("z", netip.Addr{}), fIPSlice("nil", nil),
			fIP("mapped", netip.AddrFrom16([16]byte(v4.To16())))}, "ipv4-forms")
		t.exact("", []field{fIPArray("two", []net.IP{v4.To4(), v4.To4()}), fUint8("after", 1)}, "iparray-v4")
		t.exact("", []field{fIPArray("mixed", []net.IP{net.ParseIP("2001:db8::1"), v4, net.ParseIP("fe80::1")}), fUint8("after", 2)}, "iparray-mixed")
		t.exact("", []field{fIPArray("none", nil), fStringArray("none", nil), fByteArray("none", nil), fUint8("after", 3)}, "empty-arrays")
		// unset elements (a nil net.IP, an empty string): how an unset element is shown is not laid down anywhere, so only the
		// structure is judged - opening and closing bracket in place, the set elements rendered in order, neighbours intact
		u6, u4 := net.ParseIP("2001:db8::7"), net.IPv4(10, 1, 2, 3).To4()
		for k, ips := range [][]net.IP{{nil}, {nil, nil}, {u6, nil}, {nil, u4}, {u4, nil, u6}, {nil, u6, nil, nil, u4}} {
			t.unsetElems([]field{fUint8("before", uint8(k))}, fIPArray("addrs", ips), []field{fUint8("after", 4), fString("s", "x")}, "iparray-unset-elements")
		}
		for k, ss := range [][]string{{""}, {"", ""}, {"a", ""}, {"", "b"}, {"a", "", "b"}} {
			t.unsetElems([]field{fUint8("before", uint8(k))}, fStringArray("names", ss), []field{fUint8("after", 5)}, "stringarray-empty-elements")
		}
	}
	// (3) random field sequences grown up to the buffer limit
	n3 := c.N(60_000, 4_000_000)
	for i := int64(0); i < n3; i++ {
		if !next() {
			continue
		}
		r := c.Rand("c20seq", i)
		target := []int{60, 200, 800, lineBuf - fitSlack - 1}[r.Intn(4)]
		var fs []field
		msg := []string{"", "hello world", mkName(r)}[r.Intn(3)]
		total := len(refLine(msg, nil))
		for {
			f := randField(r, e)
			if total+len(f.ref) > target {
				break
			}
			fs = append(fs, f)
			total += len(f.ref)
		}
		t.exact(msg, fs, "random-sequence")
	}
	// (4) arrays longer than the buffer at every fill level
	step := int(c.N(3, 1))
	// ... and short arrays (1..3 elements) at every single fill level of the last 96 bytes, where "still fits" and "must be
	// truncated" are a few bytes apart
	type ovfCase struct{ fill, kind, nel int }
	var ovf []ovfCase
	for fill := 7; fill < lineBuf; fill += step {
		for kind := 0; kind < 3; kind++ {
			ovf = append(ovf, ovfCase{fill, kind, -1})
		}
	}
	for fill := lineBuf - 96; fill < lineBuf; fill++ {
		for kind := 0; kind < 3; kind++ {
			for nel := 1; nel <= 3; nel++ {
				ovf = append(ovf, ovfCase{fill, kind, nel})
			}
		}
	}
	for _, oc := range ovf {
		fill, kind := oc.fill, oc.kind
		{
			if !next() {
				continue
			}
			r := c.Rand("c20ovf", int64(fill*3+kind)*8+int64(oc.nel+1))
			nel := []int{1, 5, 40, 700, 4096}[r.Intn(5)]
			if oc.nel >= 0 {
				nel = oc.nel
			}
			var f field
			switch kind {
			case 0:
				f = fByteArray("payload", gen.RandBytes(r, nel))
			case 1:
				s := make([]string, nel)
				for k := range s {
					s[k] = mkName(r)
				}
				f = fStringArray("names", s)
			default:
				ips := make([]net.IP, nel)
				for k := range ips {
					a, _ := e.IP6(r)
					ips[k] = net.IP(a.AsSlice())
				}
				f = fIPArray("addrs", ips)
			}
			t.overflow(fill, f, "array-at-fill-level")
		}
	}
	// (4b) lines rendered by several goroutines at once (the packet loop logging while API callers render hosts and entries),
	// plain and nested (a Stringer field renders its own line while the outer one is open): every string equals its reference
	for round := int64(0); round < c.N(8, 96); round++ {
		if next() { // (rounds are cases of their own: a round costs about half a CPU second, the hang watchdog allows five)
			c20Concurrent(t, 60_000)
		}
	}
	// (5) String()/FastLog of valid views and table entries
	c20Views(t, e)
	// (6) the library's own log statements while it works
	c20LibraryLog(t, e, next)
}

// c20LibraryLog drives the whole stack (session + handlers, all loggers at debug level) through a traffic mix with ageing,
// purges, capture toggles, hunts and table dumps, and judges every line the library hands to the fastlog writer (mon.LogMon):
// a line must carry its module tag and must never be a buffer that fastlog has already taken back.
func c20LibraryLog(t *c20, e gen.Env, next func() bool) {
	c := t.c
	scratch := os.Getenv("VERIF_SCRATCH")
	if scratch == "" {
		scratch = os.TempDir()
	}
	mon.Log.Counting(true)
	loggers := []*fastlog.Logger{packet.Logger, arp_spoofer.Logger, dhcp4_spoofer.Logger, dns_naming.Logger, dns_naming.LoggerMDNS, icmp_spoofer.Logger4, icmp_spoofer.Logger6}
	dns_naming.Debug = true
	defer func() { dns_naming.Debug = false }()
	n := c.N(64, 1600)
	for k := int64(0); k < n; k++ {
		if !next() {
			continue
		}
		r := c.Rand("c20lib", k)
		for _, l := range loggers {
			l.SetLevel(fastlog.LevelDebug)
		}
		mon.Log.Take()
		st := newStack(scratch, mon.DefaultNIC())
		rx := newRx()
		var hist []string
		bad := false
		steps := 150 + r.Intn(150)
		for step := 0; step < steps && !bad; step++ {
			var what string
			pi := c.Guard("C20", func() any { return map[string]any{"index": t.idx, "history_tail": tail(hist, 30), "step": what} }, func() {
				switch x := r.Intn(20); {
				case x < 13:
					b := c09Frame(r, e)
					what = "frame " + wk.Hex(b[:min(len(b), 48)])
					frame, err := st.s.Parse(rx.load(b))
					if err != nil {
						return
					}
					if frame.PayloadID == packet.PayloadMDNS {
						v4, _, _ := st.dns.ProcessMDNS(frame)
						if frame.Host != nil && len(v4) > 0 {
							frame.Host.UpdateMDNSName(v4[0].NameEntry)
						}
					} else {
						st.dispatch(frame)
					}
					st.s.Notify(frame)
					rx.scribble()
				case x < 15:
					off := []time.Duration{0, 6 * time.Minute, 62 * time.Minute}[r.Intn(3)]
					what = "purge +" + off.String()
					st.s.VerifPurge(time.Now().Add(off))
				case x < 16:
					mac := hw(c09MACs[r.Intn(len(c09MACs))])
					if r.Intn(2) == 0 {
						what = "capture"
						st.s.Capture(mac)
					} else {
						what = "release"
						st.s.Release(mac)
					}
				case x < 17:
					what = "print tables"
					st.s.PrintTable()
					st.arp.PrintTable()
					st.icmp6.PrintTable()
					st.dhcp.PrintTable()
				case x < 18:
					i := r.Intn(len(c09MACs))
					a := packet.Addr{MAC: hw(c09MACs[i]), IP: c09IPs()[r.Intn(6)]}
					if r.Intn(2) == 0 {
						what = "arp hunt"
						st.arp.StartHunt(a)
					} else {
						what = "arp stop"
						st.arp.StopHunt(a)
					}
				case x < 19:
					what = "dhcp minute"
					st.dhcp.MinuteTicker(time.Now().Add(time.Duration(r.Intn(5)) * time.Hour))
				default:
					for len(st.s.C) > 0 {
						<-st.s.C
					}
					what = "drain"
				}
			})
			hist = append(hist, what)
			if pi != nil {
				bad = true
			}
			st.rec.Take()
			for len(st.s.C) > 0 {
				<-st.s.C
			}
			for _, b := range mon.Log.Take() {
				p := strings.SplitN(b, "|", 2)
				c.Viol("fmt:library-log:"+p[0], fmt.Sprintf("the library wrote this log line after step %d (%s): %q", step, what, p[1]), map[string]any{"index": t.idx, "history_tail": tail(hist, 30)})
				bad = true
			}
		}
		st.close()
		time.Sleep(20 * time.Millisecond)
		for _, l := range loggers {
			l.SetLevel(fastlog.LevelInfo)
		}
		if !bad {
			c.Obs("library_log_histories", 1)
			c.Class("library-log")
		}
	}
	c.Obs("library_log_lines_judged", mon.Log.Count())
}

func tail(s []string, n int) []string {
	if len(s) > n {
		return s[len(s)-n:]
	}
	return s
}

func c20Views(t *c20, e gen.Env) {
	c := t.c
	n := c.N(4_000, 200_000)
	rec := mon.NewRecorder(1)
	s, err := mon.NewSession(rec, mon.DefaultNIC(), 0, 0, 0)
	if err != nil {
		panic("HARNESS BUG: " + err.Error())
	}
	stringer := reflect.TypeOf((*fmt.Stringer)(nil)).Elem()
	for i := int64(0); i < n; i++ {
		t.idx++
		if !c.Mine(t.idx) {
			continue
		}
		r := c.Rand("c20views", i)
		vt := viewTypes[int(i)%len(viewTypes)]
		in := viewSeed(r, e, vt.name, 0)
		if r.Intn(3) == 0 {
			for k := 1 + r.Intn(3); k > 0 && len(in) > 0; k-- {
				in[r.Intn(len(in))] = byte(r.Intn(256))
			}
		}
		if r.Intn(3) == 1 && len(in) > vt.min {
			// cut anywhere behind the minimum length, in a slice of exactly that size: a view that is still valid must render
			// without reaching past its end (options and trailing fields cut in the middle)
			in = append(make([]byte, 0, vt.min), in[:vt.min+r.Intn(len(in)-vt.min)]...)
			in = in[:len(in):len(in)]
		}
		c.Begin(t.idx, vt.name+".String", in)
		c.Eval()
		val := reflect.ValueOf(in).Convert(vt.typ)
		valid := false
		func() {
			defer func() { recover() }() // IsValid panics are C01's business
			out := val.MethodByName("IsValid").Call(nil)
			if out[0].Kind() == reflect.Bool {
				valid = out[0].Bool()
			} else {
				valid = out[0].IsNil()
			}
		}()
		if !valid || len(in) > 600 { // text of longer views may not fit the buffer
			continue
		}
		cs := func() any { return map[string]any{"index": t.idx, "view": vt.name, "input_hex": wk.Hex(in)} }
		if vt.typ.Implements(stringer) {
			var str string
			if pi := c.Guard("C20", cs, func() { str = val.Interface().(fmt.Stringer).String() }); pi == nil {
				c.Class("view-string:" + vt.name)
				if len(str) > lineBuf {
					c.Viol("fmt:view-overflow:"+vt.name, fmt.Sprintf("String() returned %d bytes", len(str)), cs())
				}
			}
		}
		if fl, ok := val.Interface().(fastlog.FastLog); ok {
			c.Guard("C20", cs, func() { _ = c20Logger.Msg("v").Struct(fl).ToString() })
		}
		// table entries: feed the frame and render what the session tracks
		if vt.name == "Ether" {
			frame, err := s.Parse(in)
			if err == nil && frame.Host != nil {
				h := frame.Host
				c.Guard("C20", cs, func() {
					_ = h.String()
					_ = h.MACEntry.String()
					_ = h.Addr.String()
					_ = frame.SrcAddr.String()
					_ = c20Logger.Msg("f").Struct(h).ToString()
					_ = frame.Log(c20Logger.Msg("frame")).ToString()
				})
				s.Notify(frame)
				select {
				case nt := <-s.C:
					c.Guard("C20", cs, func() { _ = nt.String() })
					c.Class("entry:Notification")
				default:
				}
				c.Class("entry:Host")
			}
		}
		if vt.name == "DNS" {
			ent := packet.NewDNSEntry()
			ent.Name = "www.example.com"
			func() {
				defer func() { recover() }() // decoder panics are C08's business
				ent.DecodeAnswers(packet.DNS(in), 12, make([]byte, 0, 64))
			}()
			pi := c.Guard("C20", cs, func() { _ = c20Logger.Msg("d").Struct(ent).ToString() })
			if pi == nil {
				c.Class("entry:DNSEntry")
			}
			c20DNSEntry(t, r, ent)
		}
		if i%16 == 0 {
			c20StructField(t, r)
		}
	}
	go s.Close()
}

// c20StructField: Line.Struct(v) appends exactly what v's own FastLog appends - for every value, the zero value of a table
// entry included (an address nobody filled in yet is rendered as such, it does not vanish from the line).
func c20StructField(t *c20, r *rand.Rand) {
	c := t.c
	mac := net.HardwareAddr{2, byte(r.Intn(256)), 3, 4, 5, byte(r.Intn(256))}
	ip := netip.AddrFrom4([4]byte{10, byte(r.Intn(256)), 0, byte(r.Intn(256))})
	vals := []fastlog.FastLog{packet.Addr{}, packet.Addr{MAC: mac}, packet.Addr{IP: ip}, packet.Addr{MAC: mac, IP: ip, Port: uint16(r.Intn(65536))}, packet.Addr{Port: 1},
		packet.Notification{}, packet.Notification{Addr: packet.Addr{MAC: mac, IP: ip}, Online: true}, packet.NameEntry{}, packet.NameEntry{Name: "n"}, packet.NewDNSEntry(), packet.DNSEntry{}}
	for k, v := range vals {
		c.Eval()
		var viaStruct, direct string
		cs := func() any {
			return map[string]any{"index": t.idx, "value": fmt.Sprintf("%T %+v", v, v), "via_Struct": viaStruct, "via_FastLog": direct}
		}
		if c.Guard("C20", cs, func() {
			viaStruct = c20Logger.Msg("s").Uint8("before", uint8(k)).Struct(v).Uint8("after", 7).ToString()
			direct = v.FastLog(c20Logger.Msg("s").Uint8("before", uint8(k))).Uint8("after", 7).ToString()
		}) != nil {
			continue
		}
		if viaStruct != direct {
			c.Viol(fmt.Sprintf("fmt:Struct:%T:differs-from-FastLog", v), fmt.Sprintf("Struct(v) rendered %q, v.FastLog renders %q", viaStruct, direct), cs())
			continue
		}
		c.Obs("struct_fields_compared_with_their_own_rendering", 1)
	}
}

// c20DNSEntry: the rendering of a DNS table entry is the name followed by its three record lists, each list holding exactly the
// records of its own kind (in any order: they live in maps). The decoded entry is enriched with random records so that all
// three lists are populated together; only entries whose text fits the line buffer are judged.
func c20DNSEntry(t *c20, r *rand.Rand, ent packet.DNSEntry) {
	c := t.c
	for k := r.Intn(4); k > 0; k-- {
		ip := netip.AddrFrom4([4]byte{byte(1 + r.Intn(223)), byte(r.Intn(256)), byte(r.Intn(256)), byte(r.Intn(256))})
		ent.IP4Records[ip] = packet.IPResourceRecord{Name: ent.Name, IP: ip, TTL: uint32(r.Intn(5000))}
	}
	for k := r.Intn(4); k > 0; k-- {
		var a [16]byte
		a[0], a[1], a[15] = 0x20, 0x01, byte(1+r.Intn(255))
		for j := r.Intn(4); j > 0; j-- {
			a[2+r.Intn(13)] = byte(r.Intn(256))
		}
		ip := netip.AddrFrom16(a)
		ent.IP6Records[ip] = packet.IPResourceRecord{Name: ent.Name, IP: ip, TTL: uint32(r.Intn(5000))}
	}
	for k := r.Intn(3); k > 0; k-- {
		cn := fmt.Sprintf("alias%d.example.net", r.Intn(1000))
		ent.CNameRecords[cn] = packet.NameResourceRecord{Name: ent.Name, CName: cn, TTL: uint32(r.Intn(5000))}
	}
	want := map[string][]string{}
	size := len(c20Prefix) + 16 + len(ent.Name)
	clean := !strings.ContainsAny(ent.Name, "\"[]")
	for ip := range ent.IP4Records {
		want["ip4"] = append(want["ip4"], ent.IP4Records[ip].IP.String())
	}
	for ip := range ent.IP6Records {
		want["ip6"] = append(want["ip6"], ent.IP6Records[ip].IP.String())
	}
	for n := range ent.CNameRecords {
		v := ent.CNameRecords[n].CName
		clean = clean && !strings.ContainsAny(v, "\"[]")
		want["cname"] = append(want["cname"], v)
	}
	for _, l := range want {
		for _, v := range l {
			size += len(v) + 4
		}
	}
	size += 3 * 12
	if !clean || size > lineBuf-64 || len(want["ip4"])+len(want["ip6"])+len(want["cname"]) > 16 {
		return
	}
	c.Eval()
	var got string
	cs := func() any {
		return map[string]any{"index": t.idx, "name": ent.Name, "ip4": want["ip4"], "ip6": want["ip6"], "cname": want["cname"], "got": got}
	}
	if c.Guard("C20", cs, func() { got = c20Logger.Msg("d").Struct(ent).ToString() }) != nil {
		return
	}
	rest := got
	for _, f := range []string{"ip4", "ip6", "cname"} {
		i := strings.Index(rest, " "+f+"=[")
		j := -1
		if i >= 0 {
			j = strings.Index(rest[i:], "]")
		}
		if i < 0 || j < 0 {
			c.Viol("fmt:DNSEntry:"+f+":missing", fmt.Sprintf("no %s list in the rendering of a DNS entry that fits the buffer: %q", f, got), cs())
			return
		}
		body := rest[i+len(f)+3 : i+j]
		rest = rest[i+j+1:]
		var have []string
		for _, el := range strings.Split(body, ",") {
			if el = strings.TrimSpace(el); el != "" {
				have = append(have, strings.Trim(el, "\""))
			}
		}
		w := append([]string(nil), want[f]...)
		sort.Strings(w)
		sort.Strings(have)
		if !reflect.DeepEqual(w, have) && (len(w) > 0 || len(have) > 0) {
			c.Viol("fmt:DNSEntry:"+f+":elements", fmt.Sprintf("the %s list of a DNS entry is rendered as %q, its records of that kind are %q", f, have, w), cs())
			return
		}
	}
	if !strings.Contains(got, " name=\""+ent.Name+"\"") && !strings.Contains(got, " name="+ent.Name) {
		c.Viol("fmt:DNSEntry:name", fmt.Sprintf("the entry name %q is not in the rendering %q", ent.Name, got), cs())
		return
	}
	c.Obs("dns_entries_rendered_against_their_records", 1)
	if len(want["ip4"]) > 0 && len(want["ip6"]) > 0 && len(want["cname"]) > 0 {
		c.Obs("dns_entries_with_all_three_lists", 1)
	}
	c.Class(fmt.Sprintf("entry:DNSEntry:%d/%d/%d", min(len(want["ip4"]), 2), min(len(want["ip6"]), 2), min(len(want["cname"]), 2)))
}
