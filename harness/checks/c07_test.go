package checks

import (
	"errors"
	"bytes"
	"fmt"
	"math/rand"
	"net"
	"net/netip"
	"os"
	"strings"
	"testing/synctest"
	"time"

	"github.com/irai/packet"
	"github.com/irai/packet/handlers/icmp_spoofer"

	"verif/harness/gen"
	"verif/harness/mon"
	"verif/harness/refdec"
	"verif/harness/wk"
)

func init() { register("C07", runC07) }

// txObserve runs the universal C07 rules on frames taken from a recorder; used by every workload that owns a recorder.
func txObserve(c *wk.Ctx, nic mon.NIC, path string, frames []mon.TxFrame, cs func() any) []mon.TxInfo {
	infos := make([]mon.TxInfo, 0, len(frames))
	for _, f := range frames {
		info, bad := mon.CheckTx(nic, f.Data)
		infos = append(infos, info)
		c.Obs("tx_frames_checked", 1)
		for _, b := range bad {
			var data any
			if cs != nil {
				data = cs()
			}
			if m, ok := data.(map[string]any); ok {
				m["frame_hex"] = wk.Hex(f.Data)
				m["send_path"] = path
			} else {
				data = map[string]any{"frame_hex": wk.Hex(f.Data), "send_path": path}
			}
			c.ViolP("C07", "tx:"+path+":"+b.Rule, b.Detail, data)
		}
		if len(bad) == 0 {
			c.Obs("tx_ok:"+path, 1)
		}
	}
	return infos
}

type txCall struct {
	api    string
	call   func() error
	verify func(err error, fr []mon.TxFrame, in []mon.TxInfo) string // "" = ok, otherwise "rule: detail"
	args   string
}

func hw(m refdec.MAC) net.HardwareAddr { return net.HardwareAddr(append([]byte(nil), m[:]...)) }

func randMAC(r *rand.Rand) refdec.MAC {
	var m refdec.MAC
	r.Read(m[:])
	m[0] &^= 1
	if r.Intn(6) == 0 {
		m = refdec.MAC{0xff, 0xff, 0xff, 0xff, 0xff, 0xff}
	}
	return m
}

func one(fr []mon.TxFrame) string {
	if len(fr) != 1 {
		return fmt.Sprintf("frame-count: expected exactly one frame, got %d", len(fr))
	}
	return ""
}

func wantARP(in mon.TxInfo, dst refdec.MAC, op uint16, sha refdec.MAC, spa netip.Addr, tha refdec.MAC, tpa netip.Addr) string {
	a := in.ARP
	if a == nil {
		return "protocol: not an ARP frame (" + in.Class + ")"
	}
	if in.D.DstMAC != dst {
		return fmt.Sprintf("ether-dst: %x want %x", in.D.DstMAC[:], dst[:])
	}
	if a.Op != op || a.SHA != sha || a.SPA != spa || a.THA != tha || a.TPA != tpa {
		return fmt.Sprintf("arp-fields: op=%d sha=%x spa=%v tha=%x tpa=%v, requested op=%d sha=%x spa=%v tha=%x tpa=%v", a.Op, a.SHA[:], a.SPA, a.THA[:], a.TPA, op, sha[:], spa, tha[:], tpa)
	}
	return ""
}

var (
	bcastMAC = refdec.MAC{0xff, 0xff, 0xff, 0xff, 0xff, 0xff}
	zeroMAC  = refdec.MAC{}
	ip4zero  = netip.AddrFrom4([4]byte{})
)

func toMAC(h net.HardwareAddr) (m refdec.MAC) { copy(m[:], h); return m }

// c07Calls builds the list of send-API calls for one batch.
func c07Calls(r *rand.Rand, st *stack, nic mon.NIC, e gen.Env, n int) []txCall {
	host := toMAC(nic.HostMAC)
	s := st.s
	var calls []txCall
	lanIP := func() netip.Addr { return e.LANIP(r) }
	any4 := func() netip.Addr { a, _ := e.IP4(r); return a }
	any6 := func() netip.Addr { a, _ := e.IP6(r); return a }
	for i := 0; i < n; i++ {
		switch k := r.Intn(26); k {
		case 0:
			ip := any4()
			calls = append(calls, txCall{api: "arp.Request", args: ip.String(), call: func() error { return st.arp.Request(ip) },
				verify: func(err error, fr []mon.TxFrame, in []mon.TxInfo) string {
					if x := one(fr); x != "" {
						return x
					}
					return wantARP(in[0], bcastMAC, 1, host, nic.HostIP, bcastMAC, ip)
				}})
		case 1:
			ip, dst := any4(), randMAC(r)
			calls = append(calls, txCall{api: "arp.RequestTo", args: fmt.Sprintf("%x %v", dst[:], ip), call: func() error { return st.arp.RequestTo(hw(dst), ip) },
				verify: func(err error, fr []mon.TxFrame, in []mon.TxInfo) string {
					if x := one(fr); x != "" {
						return x
					}
					return wantARP(in[0], dst, 1, host, nic.HostIP, bcastMAC, ip)
				}})
		case 2:
			ip := any4()
			calls = append(calls, txCall{api: "arp.Probe", args: ip.String(), call: func() error { return st.arp.Probe(ip) },
				verify: func(err error, fr []mon.TxFrame, in []mon.TxInfo) string {
					if x := one(fr); x != "" {
						return x
					}
					return wantARP(in[0], bcastMAC, 1, host, ip4zero, zeroMAC, ip)
				}})
		case 3:
			ip, dst := any4(), randMAC(r)
			calls = append(calls, txCall{api: "arp.AnnounceTo", args: fmt.Sprintf("%x %v", dst[:], ip), call: func() error { return st.arp.AnnounceTo(hw(dst), ip) },
				verify: func(err error, fr []mon.TxFrame, in []mon.TxInfo) string {
					if x := one(fr); x != "" {
						return x
					}
					return wantARP(in[0], dst, 1, host, ip, bcastMAC, ip)
				}})
		case 4, 5:
			dst, sm, tm, sip, tip := randMAC(r), randMAC(r), randMAC(r), any4(), any4()
			op := uint16(2)
			api := "arp.Reply"
			if k == 5 {
				op, api = 1, "arp.RequestRaw"
			}
			calls = append(calls, txCall{api: api, args: fmt.Sprintf("dst=%x sender=%x/%v target=%x/%v", dst[:], sm[:], sip, tm[:], tip),
				call: func() error {
					if op == 2 {
						return st.arp.Reply(hw(dst), packet.Addr{MAC: hw(sm), IP: sip}, packet.Addr{MAC: hw(tm), IP: tip})
					}
					return st.arp.RequestRaw(hw(dst), packet.Addr{MAC: hw(sm), IP: sip}, packet.Addr{MAC: hw(tm), IP: tip})
				},
				verify: func(err error, fr []mon.TxFrame, in []mon.TxInfo) string {
					if x := one(fr); x != "" {
						return x
					}
					return wantARP(in[0], dst, op, sm, sip, tm, tip)
				}})
		case 6:
			ip := lanIP()
			calls = append(calls, txCall{api: "arp.WhoIs", args: ip.String(), call: func() error { _, err := st.arp.WhoIs(ip); return err },
				verify: func(err error, fr []mon.TxFrame, in []mon.TxInfo) string {
					if err == nil {
						return ""
					}
					if len(fr) != 3 {
						return fmt.Sprintf("frame-count: WhoIs of an unknown address sent %d requests, documented 3", len(fr))
					}
					for _, x := range in {
						if y := wantARP(x, bcastMAC, 1, host, nic.HostIP, bcastMAC, ip); y != "" {
							return y
						}
					}
					return ""
				}})
		case 7:
			if nic.HomeLAN.Bits() < 24 {
				continue
			}
			calls = append(calls, txCall{api: "arp.Scan", call: func() error { return st.arp.Scan() },
				verify: func(err error, fr []mon.TxFrame, in []mon.TxInfo) string {
					want := map[netip.Addr]bool{}
					last := nic.HomeLAN.Addr()
					for a := nic.HomeLAN.Addr().Next(); nic.HomeLAN.Contains(a.Next()); a = a.Next() {
						if a != nic.HostIP && a != nic.RouterIP {
							want[a] = true
						}
						last = a
					}
					_ = last
					if len(fr) != len(want) {
						return fmt.Sprintf("frame-count: Scan of %v sent %d requests, expected %d (every host address except own and router)", nic.HomeLAN, len(fr), len(want))
					}
					for _, x := range in {
						if x.ARP == nil || !want[x.ARP.TPA] {
							return fmt.Sprintf("arp-fields: Scan asked for %v", x.ARP)
						}
						if y := wantARP(x, bcastMAC, 1, host, nic.HostIP, bcastMAC, x.ARP.TPA); y != "" {
							return y
						}
						delete(want, x.ARP.TPA)
					}
					return ""
				}})
		case 8:
			src, dst, dm, id, seq := any4(), any4(), randMAC(r), rw(r), rw(r)
			// an address the IPv4 header cannot carry (the other family, or none at all) on either side, or both: the call must
			// fail and send nothing - never a datagram with some other address in its place
			wrongFamily := r.Intn(5) == 0
			if wrongFamily {
				bad := []netip.Addr{any6(), {}, netip.MustParseAddr("::ffff:10.1.1.1"), netip.MustParseAddr("fe80::1%eth0")}[r.Intn(4)]
				switch r.Intn(3) {
				case 0:
					src = bad
				case 1:
					dst = bad
				default:
					src, dst = bad, any6()
				}
			}
			calls = append(calls, txCall{api: "ICMP4SendEchoRequest", args: fmt.Sprintf("%v>%v/%x id=%d seq=%d", src, dst, dm[:], id, seq),
				call: func() error {
					return s.ICMP4SendEchoRequest(packet.Addr{MAC: hw(randMAC(r)), IP: src}, packet.Addr{MAC: hw(dm), IP: dst}, id, seq)
				},
				verify: func(err error, fr []mon.TxFrame, in []mon.TxInfo) string {
					if wrongFamily {
						if err == nil || len(fr) != 0 {
							return fmt.Sprintf("wrong-family: returned %v and sent %d frames for addresses an IPv4 header cannot carry", err, len(fr))
						}
						return ""
					}
					if x := one(fr); x != "" {
						return x
					}
					return wantEcho(in[0], 8, dm, src, dst, id, seq)
				}})
		case 9:
			src, dst, dm, id, seq := any6(), any6(), randMAC(r), rw(r), rw(r)
			calls = append(calls, txCall{api: "ICMP6SendEchoRequest", args: fmt.Sprintf("%v>%v/%x id=%d seq=%d", src, dst, dm[:], id, seq),
				call: func() error {
					return s.ICMP6SendEchoRequest(packet.Addr{MAC: hw(randMAC(r)), IP: src}, packet.Addr{MAC: hw(dm), IP: dst}, id, seq)
				},
				verify: func(err error, fr []mon.TxFrame, in []mon.TxInfo) string {
					if x := one(fr); x != "" {
						return x
					}
					return wantEcho(in[0], 128, dm, src, dst, id, seq)
				}})
		case 10:
			src, dst, dm, tgt, tm := any6(), any6(), randMAC(r), any6(), randMAC(r)
			if r.Intn(2) == 0 {
				dst = netip.MustParseAddr("ff02::1")
				if r.Intn(2) == 0 {
					dm = refdec.MAC{0x33, 0x33, 0, 0, 0, 1}
				}
			}
			calls = append(calls, txCall{api: "ICMP6SendNeighborAdvertisement", args: fmt.Sprintf("%v>%v/%x target=%v/%x", src, dst, dm[:], tgt, tm[:]),
				call: func() error {
					return s.ICMP6SendNeighborAdvertisement(packet.Addr{MAC: nic.HostMAC, IP: src}, packet.Addr{MAC: hw(dm), IP: dst}, packet.Addr{MAC: hw(tm), IP: tgt})
				},
				verify: func(err error, fr []mon.TxFrame, in []mon.TxInfo) string {
					if x := one(fr); x != "" {
						return x
					}
					x := in[0]
					if len(x.ICMP) < 32 || x.ICMP[0] != 136 {
						return "protocol: not a neighbour advertisement (" + x.Class + ")"
					}
					if x.D.DstMAC != dm || x.D.SrcIP != src || x.D.DstIP != dst {
						return fmt.Sprintf("addresses: %v>%v/%x", x.D.SrcIP, x.D.DstIP, x.D.DstMAC[:])
					}
					if x.ICMP[4]&0x20 == 0 {
						return "na-flags: override flag not set"
					}
					if !bytes.Equal(x.ICMP[8:24], tgt.AsSlice()) {
						return "na-target: target address differs"
					}
					opts, _ := refdec.SplitOptions(x.ICMP[24:])
					if len(opts) != 1 || opts[0].Type != refdec.OptTLLA || !bytes.Equal(opts[0].Body, tm[:]) {
						return fmt.Sprintf("na-option: want one target link-layer option %x, got %+v", tm[:], opts)
					}
					return ""
				}})
		case 11:
			src, dst, dm, tgt := any6(), any6(), randMAC(r), any6()
			calls = append(calls, txCall{api: "ICMP6SendNeighbourSolicitation", args: fmt.Sprintf("%v>%v/%x target=%v", src, dst, dm[:], tgt),
				call: func() error {
					return s.ICMP6SendNeighbourSolicitation(packet.Addr{MAC: nic.HostMAC, IP: src}, packet.Addr{MAC: hw(dm), IP: dst}, tgt)
				},
				verify: func(err error, fr []mon.TxFrame, in []mon.TxInfo) string {
					if x := one(fr); x != "" {
						return x
					}
					x := in[0]
					if len(x.ICMP) < 32 || x.ICMP[0] != 135 {
						return "protocol: not a neighbour solicitation (" + x.Class + ")"
					}
					if x.D.DstMAC != dm || x.D.SrcIP != src || x.D.DstIP != dst || !bytes.Equal(x.ICMP[8:24], tgt.AsSlice()) {
						return "addresses: ns addresses/target differ"
					}
					opts, _ := refdec.SplitOptions(x.ICMP[24:])
					if len(opts) != 1 || opts[0].Type != refdec.OptSLLA || !bytes.Equal(opts[0].Body, nic.HostMAC) {
						return fmt.Sprintf("ns-option: want one source link-layer option with the NIC MAC, got %+v", opts)
					}
					return ""
				}})
		case 12:
			if !nic.HostLLA.IsValid() {
				continue
			}
			calls = append(calls, txCall{api: "ICMP6SendRouterSolicitation", call: func() error { return s.ICMP6SendRouterSolicitation() },
				verify: func(err error, fr []mon.TxFrame, in []mon.TxInfo) string {
					if x := one(fr); x != "" {
						return x
					}
					x := in[0]
					if len(x.ICMP) < 8 || x.ICMP[0] != 133 {
						return fmt.Sprintf("protocol: not a router solicitation (icmpv6 type %d, class %s)", x.ICMP[0], x.Class)
					}
					if x.D.DstIP != netip.MustParseAddr("ff02::2") {
						return fmt.Sprintf("rs-destination: sent to %v, all-routers is ff02::2", x.D.DstIP)
					}
					if x.D.SrcIP != nic.HostLLA {
						return "rs-source: source is not the host link-local address"
					}
					opts, _ := refdec.SplitOptions(x.ICMP[8:])
					if len(opts) != 1 || opts[0].Type != refdec.OptSLLA || !bytes.Equal(opts[0].Body, nic.HostMAC) {
						return fmt.Sprintf("rs-option: want one source link-layer option, got %+v", opts)
					}
					return ""
				}})
		case 13:
			if !nic.HostLLA.IsValid() {
				continue
			}
			var pfx []packet.PrefixInformation
			var want []netip.Addr
			np := 1 + r.Intn(3)
			if r.Intn(4) == 0 {
				np = 4 + r.Intn(9) // advertisements of 256 bytes and more
			}
			for j := np; j > 0; j-- {
				a := netip.AddrFrom16([16]byte{0x20, 0x01, 0x0d, 0xb8, byte(r.Intn(256)), byte(r.Intn(256))})
				pfx = append(pfx, packet.PrefixInformation{Prefix: net.IP(a.AsSlice()), PrefixLength: 64})
				want = append(want, a)
			}
			var rdnss *packet.RecursiveDNSServer
			if r.Intn(2) == 0 {
				rdnss = icmp_spoofer.RDNSSCLoudflare
			}
			dst := packet.IP6AllNodesAddr
			calls = append(calls, txCall{api: "ICMP6SendRouterAdvertisement", args: fmt.Sprint(want),
				call: func() error { return s.ICMP6SendRouterAdvertisement(pfx, rdnss, dst) },
				verify: func(err error, fr []mon.TxFrame, in []mon.TxInfo) string {
					if x := one(fr); x != "" {
						return x
					}
					x := in[0]
					if len(x.ICMP) < 16 || x.ICMP[0] != 134 {
						return fmt.Sprintf("protocol: not a router advertisement (icmpv6 type %d)", x.ICMP[0])
					}
					ra, derr := refdec.DecodeRA(x.ICMP)
					if derr != nil {
						return "ra-undecodable: " + derr.Error()
					}
					if len(ra.Prefixes) != len(want) {
						return fmt.Sprintf("ra-prefixes: %d prefixes, requested %d", len(ra.Prefixes), len(want))
					}
					for i := range want {
						if ra.Prefixes[i].Prefix != want[i] || ra.Prefixes[i].Len != 64 {
							return fmt.Sprintf("ra-prefixes: prefix %d is %v/%d", i, ra.Prefixes[i].Prefix, ra.Prefixes[i].Len)
						}
					}
					if (rdnss != nil) != (ra.RDNSS != nil) {
						return "ra-rdnss: RDNSS option presence differs from the request"
					}
					if ra.SLLA == nil || !bytes.Equal(ra.SLLA[:], nic.HostMAC) || !ra.HasMTU {
						return "ra-options: source link-layer / MTU option missing"
					}
					return ""
				}})
		case 14:
			dst, dm := any4(), randMAC(r)
			wrongFamily := r.Intn(5) == 0
			if wrongFamily {
				dst = []netip.Addr{any6(), {}, netip.MustParseAddr("::ffff:10.1.1.1")}[r.Intn(3)]
			}
			calls = append(calls, txCall{api: "Ping", args: dst.String(), call: func() error { return s.Ping(packet.Addr{MAC: hw(dm), IP: dst}, time.Second) },
				verify: func(err error, fr []mon.TxFrame, in []mon.TxInfo) string {
					if wrongFamily {
						if err == nil || errors.Is(err, packet.ErrTimeout) || len(fr) != 0 {
							return fmt.Sprintf("wrong-family: returned %v and sent %d frames for a destination an IPv4 header cannot carry", err, len(fr))
						}
						return ""
					}
					if x := one(fr); x != "" {
						return x
					}
					if len(in[0].ICMP) < 8 {
						return "protocol: not icmp"
					}
					return wantEcho(in[0], 8, dm, nic.HostIP, dst, uint16(in[0].ICMP[4])<<8|uint16(in[0].ICMP[5]), 1)
				}})
		case 15:
			src, dst, dm := any6(), any6(), randMAC(r)
			calls = append(calls, txCall{api: "Ping6", args: dst.String(), call: func() error {
				return s.Ping6(packet.Addr{MAC: nic.HostMAC, IP: src}, packet.Addr{MAC: hw(dm), IP: dst}, time.Second)
			},
				verify: func(err error, fr []mon.TxFrame, in []mon.TxInfo) string {
					if x := one(fr); x != "" {
						return x
					}
					if len(in[0].ICMP) < 8 {
						return "protocol: not icmp"
					}
					return wantEcho(in[0], 128, dm, src, dst, uint16(in[0].ICMP[4])<<8|uint16(in[0].ICMP[5]), 1)
				}})
		case 16:
			ch, ci, xid, name := randMAC(r), any4(), gen.RandBytes(r, 4), []string{"", "laptop", "x"}[r.Intn(3)]
			calls = append(calls, txCall{api: "dhcp.SendDiscoverPacket", args: fmt.Sprintf("%x %v %x %q", ch[:], ci, xid, name),
				call: func() error { return st.dhcp.SendDiscoverPacket(hw(ch), ci, xid, name) },
				verify: func(err error, fr []mon.TxFrame, in []mon.TxInfo) string {
					if x := one(fr); x != "" {
						return x
					}
					m := in[0].DHCP
					if m == nil || m.Type() != refdec.DHCPDiscover || m.Op != 1 {
						return "protocol: not a DHCP DISCOVER (" + in[0].Class + ")"
					}
					if m.CHMAC() != ch || m.CI != ci || !bytes.Equal(m.XID[:], xid) {
						return fmt.Sprintf("dhcp-fields: chaddr=%x ciaddr=%v xid=%x", m.CHAddr[:6], m.CI, m.XID)
					}
					if hn, ok := m.Opt(12); (name != "") != ok || string(hn) != name {
						return "dhcp-fields: host name option differs"
					}
					if in[0].D.SrcPort != 68 || in[0].D.DstPort != 67 || in[0].D.DstIP != nic.RouterIP || in[0].D.DstMAC != toMAC(nic.RouterMAC) {
						return "addresses: discover not sent from port 68 to the router port 67"
					}
					return ""
				}})
		case 17:
			name := []string{"printer.local.", "_services._dns-sd._udp.local.", "a.b.c.local.", "nodot", ""}[r.Intn(5)]
			llmnr := r.Intn(2) == 0
			api := "dns.SendMDNSQuery"
			proto := "mdns"
			if llmnr {
				api, proto = "dns.SendLLMNRQuery", "llmnr"
			}
			calls = append(calls, txCall{api: api, args: name, call: func() (err error) {
				defer func() {
					if rec := recover(); rec != nil {
						err = fmt.Errorf("panic: %v", rec) // mustNewName panics on names dnsmessage rejects: outside "parameters that can be sent"
					}
				}()
				if llmnr {
					return st.dns.SendLLMNRQuery(name)
				}
				return st.dns.SendMDNSQuery(name)
			},
				verify: func(err error, fr []mon.TxFrame, in []mon.TxInfo) string {
					if err != nil {
						if len(fr) != 0 {
							return "frame-count: error returned but a frame was sent"
						}
						return ""
					}
					if x := one(fr); x != "" {
						return x
					}
					x := in[0]
					wk := mon.WellKnownDst[proto]
					if x.D.DstIP != wk.Addr() || x.D.DstPort != wk.Port() {
						return fmt.Sprintf("well-known-destination: %s query sent to %v:%d, the protocol's group is %v", proto, x.D.DstIP, x.D.DstPort, wk)
					}
					if x.DNS == nil || len(x.DNS.Q) != 1 || x.DNS.Q[0].Name+"." != name || x.DNS.Flags&0x8000 != 0 {
						return fmt.Sprintf("dns-fields: question %+v, requested %q", x.DNS, name)
					}
					if x.D.SrcIP != nic.HostIP {
						return "addresses: source is not the host address"
					}
					return ""
				}})
		case 18:
			src := packet.Addr{MAC: nic.HostMAC, IP: nic.HostIP}
			if r.Intn(2) == 0 {
				src.MAC = hw(randMAC(r)) // the Ethernet source must stay the NIC MAC whatever the caller passes
			}
			dm, dip := randMAC(r), any4()
			name := []string{"WORKSTATION", "A", "0123456789ABCDEF", "0123456789ABCDEFG", "A-NAME-LONGER-THAN-NETBIOS-ALLOWS", strings.Repeat("N", 44)}[r.Intn(6)]
			calls = append(calls, txCall{api: "dns.SendNBNSQuery", args: fmt.Sprintf("src=%s dst=%x/%v %q", src.MAC, dm[:], dip, name),
				call: func() error { return st.dns.SendNBNSQuery(src, packet.Addr{MAC: hw(dm), IP: dip}, name) },
				verify: func(err error, fr []mon.TxFrame, in []mon.TxInfo) string {
					if x := one(fr); x != "" {
						return x
					}
					x := in[0]
					if x.D.DstPort != 137 || x.D.DstIP != dip || x.D.DstMAC != dm || x.DNS == nil || len(x.DNS.Q) != 1 || x.DNS.Q[0].Type != 0x20 {
						return "nbns-fields: not an NBNS name query to the requested destination"
					}
					// RFC 1001 first level encoding: one label of 32 characters, two per byte of the 16 byte NetBIOS name; a
					// name longer than that is cut, a shorter one padded with spaces
					label, _, _ := strings.Cut(x.DNS.Q[0].Name, ".")
					if len(label) != 32 {
						return fmt.Sprintf("nbns-name: the question name label has %d characters, an encoded NetBIOS name has 32", len(label))
					}
					var dec [16]byte
					for i := range dec {
						dec[i] = (label[2*i]-'A')<<4 | (label[2*i+1] - 'A')
					}
					want := name
					if len(want) > 16 {
						want = want[:15]
					}
					if !strings.HasPrefix(string(dec[:]), want) || strings.TrimRight(string(dec[len(want):]), " \x00") != "" {
						return fmt.Sprintf("nbns-name: the question asks for %q, requested %q", dec[:], name)
					}
					return ""
				}})
		case 19:
			calls = append(calls, txCall{api: "dns.SendNBNSNodeStatus", call: func() error { return st.dns.SendNBNSNodeStatus() },
				verify: func(err error, fr []mon.TxFrame, in []mon.TxInfo) string {
					if x := one(fr); x != "" {
						return x
					}
					x := in[0]
					if x.D.DstPort != 137 || x.D.DstMAC != bcastMAC || x.DNS == nil || len(x.DNS.Q) != 1 || x.DNS.Q[0].Type != 0x21 {
						return "nbns-fields: not a broadcast NBNS node status query"
					}
					return ""
				}})
		case 20:
			calls = append(calls, txCall{api: "dns.SendSSDPSearch", call: func() error { return st.dns.SendSSDPSearch() },
				verify: func(err error, fr []mon.TxFrame, in []mon.TxInfo) string {
					if x := one(fr); x != "" {
						return x
					}
					x := in[0]
					w := mon.WellKnownDst["ssdp"]
					if x.D.DstIP != w.Addr() || x.D.DstPort != w.Port() {
						return fmt.Sprintf("well-known-destination: M-SEARCH sent to %v:%d", x.D.DstIP, x.D.DstPort)
					}
					body := strings.TrimLeft(string(x.UDP), "\r\n") // RFC 7230 3.5: leading empty lines tolerated
					if !strings.HasPrefix(body, "M-SEARCH * HTTP/1.1") || !strings.Contains(body, "ssdp:discover") {
						return "ssdp-body: not an M-SEARCH request"
					}
					return ""
				}})
		case 21:
			id := rw(r)
			dm := randMAC(r)
			calls = append(calls, txCall{api: "dns.SendSleepProxyResponse", call: func() error {
				return st.dns.SendSleepProxyResponse(packet.Addr{MAC: nic.HostMAC, IP: nic.HostIP}, packet.Addr{MAC: hw(dm), IP: netip.MustParseAddr("224.0.0.251"), Port: 5353}, id, "x")
			},
				verify: func(err error, fr []mon.TxFrame, in []mon.TxInfo) string {
					if x := one(fr); x != "" {
						return x
					}
					x := in[0]
					if x.DNS == nil || x.DNS.ID != id || x.DNS.Flags&0x8000 == 0 || len(x.DNS.An) != 4 || x.D.DstPort != 5353 {
						return fmt.Sprintf("dns-fields: sleep proxy response %+v", x.DNS)
					}
					return ""
				}})
		case 22:
			if !nic.HostLLA.IsValid() {
				continue
			}
			calls = append(calls, txCall{api: "icmp6.PingAll", call: func() error { return st.icmp6.PingAll() },
				verify: func(err error, fr []mon.TxFrame, in []mon.TxInfo) string {
					if len(fr) != 2 {
						return fmt.Sprintf("frame-count: PingAll sent %d frames (router solicitation + echo request expected)", len(fr))
					}
					if len(in[1].ICMP) < 8 || in[1].ICMP[0] != 128 || in[1].D.DstIP != netip.MustParseAddr("ff02::1") {
						return "pingall: second frame is not an echo request to all nodes"
					}
					return ""
				}})
		case 24:
			// ValidateDefaultRouter pings the client from this host's address and then from the router's address (from this
			// host's MAC). The client answers everything (its default route points here: nil), only the first ping
			// (ErrNotRedirected after two more) or nothing (ErrTimeout); the answers are parsed by a station goroutine.
			dst, dm, mode := lanIP(), refdec.MAC{0x02, 0xd1, byte(r.Intn(256)), byte(r.Intn(256)), 0, 1}, r.Intn(3) // a real station: unicast MAC
			if dst == nic.HostIP || dst == nic.RouterIP {
				continue
			}
			calls = append(calls, txCall{api: "ValidateDefaultRouter", args: fmt.Sprintf("%v mode=%d", dst, mode), call: func() error {
				st.rec.AfterWrite(func(f mon.TxFrame) {
					d := refdec.Decode(f.Data)
					if d.Err || d.OffIP4 == 0 || d.Proto != 1 || len(f.Data) < d.OffIP4+28 || f.Data[d.OffIP4+20] != 8 || d.DstIP != dst {
						return
					}
					if mode == 2 || (mode == 1 && d.SrcIP != nic.HostIP) {
						return
					}
					icmp := f.Data[d.OffIP4+20:]
					var rest [4]byte
					copy(rest[:], icmp[4:8])
					reply := refdec.Ether(d.SrcMAC, dm, 0x0800, 0, refdec.IP4(refdec.IP4Hdr{TTL: 64, Proto: 1, Src: dst, Dst: d.SrcIP}, refdec.ICMP4(0, 0, rest, icmp[8:])))
					go func() {
						time.Sleep(3 * time.Millisecond)
						s.Parse(reply)
					}()
				})
				defer st.rec.AfterWrite(nil)
				return s.ValidateDefaultRouter(packet.Addr{MAC: hw(dm), IP: dst})
			},
				verify: func(err error, fr []mon.TxFrame, in []mon.TxInfo) string {
					wantN, wantErr := []int{2, 3, 1}[mode], []error{nil, packet.ErrNotRedirected, packet.ErrTimeout}[mode]
					if err != wantErr {
						return fmt.Sprintf("result: returned %v, the client's behaviour calls for %v", err, wantErr)
					}
					if len(fr) != wantN {
						return fmt.Sprintf("count: %d frames sent, expected %d echo requests", len(fr), wantN)
					}
					for i, x := range in {
						src := nic.RouterIP
						if i == 0 {
							src = nic.HostIP
						}
						if len(x.ICMP) < 8 {
							return "protocol: not icmp"
						}
						if m := wantEcho(x, 8, dm, src, dst, uint16(x.ICMP[4])<<8|uint16(x.ICMP[5]), 1); m != "" {
							return m
						}
					}
					return ""
				}})
		case 25:
			// the ARP handler's own reply: a client that holds our DHCP offer probes (RFC 5227, sender 0.0.0.0) for an address
			// other than the offered one; the handler rejects the probe by claiming the probed address, unicast to the prober
			var cm refdec.MAC // a station of its own for every call: an offer stays on record
			r.Read(cm[:])
			cm[0] = cm[0]&^1 | 2
			offer, probed := lanIP(), lanIP()
			mode := r.Intn(4) // 0: probe for another LAN address; 1: for the offered address; 2: no offer on record; 3: address outside the LAN
			switch mode {
			case 1:
				probed = offer
			case 3:
				probed = netip.AddrFrom4([4]byte{172, 31, byte(r.Intn(256)), byte(1 + r.Intn(250))})
			}
			if probed == nic.HostIP || probed == nic.RouterIP || offer == nic.HostIP || offer == nic.RouterIP || (mode == 0 && probed == offer) {
				continue
			}
			calls = append(calls, txCall{api: "arp.ProcessPacket(probe)", args: fmt.Sprintf("client=%x offer=%v probes=%v mode=%d", cm[:], offer, probed, mode),
				call: func() error {
					if mode != 2 {
						s.SetDHCPv4IPOffer(hw(cm), offer, packet.NameEntry{})
					}
					b := refdec.Ether(bcastMAC, cm, 0x0806, 0, refdec.ARP(refdec.ARPPkt{HType: 1, PType: 0x0800, HLen: 6, PLen: 4, Op: 1, SHA: cm, SPA: ip4zero, THA: zeroMAC, TPA: probed}))
					frame, err := s.Parse(b)
					if err != nil || frame.PayloadID != packet.PayloadARP {
						panic(fmt.Sprintf("HARNESS BUG: the probe is not parsed as ARP: %v %v", err, frame.PayloadID))
					}
					return st.arp.ProcessPacket(frame)
				},
				verify: func(err error, fr []mon.TxFrame, in []mon.TxInfo) string {
					if mode != 0 {
						if len(fr) != 0 {
							return fmt.Sprintf("unsolicited: %d frames sent for a probe that calls for none", len(fr))
						}
						return ""
					}
					if x := one(fr); x != "" {
						return x
					}
					return wantARP(in[0], cm, 2, host, probed, cm, netip.AddrFrom4([4]byte{255, 255, 255, 255}))
				}})
		case 23:
			if !nic.HostLLA.IsValid() {
				continue
			}
			a := netip.AddrFrom16([16]byte{0x20, 0x01, 0x0d, 0xb8, 1})
			extra := r.Intn(2) // 1: a LAN router the handler did not know advertises itself meanwhile, then SendRA is asked for
			calls = append(calls, txCall{api: "icmp6.StartRADVS", args: fmt.Sprintf("prefix=%v sendra-after-new-router=%d", a, extra), call: func() error {
				ra, err := st.icmp6.StartRADVS(r.Intn(2) == 0, r.Intn(2) == 0, []packet.PrefixInformation{{Prefix: net.IP(a.AsSlice()), PrefixLength: 64}}, icmp_spoofer.RDNSSCLoudflare)
				if err != nil {
					return err
				}
				if extra == 1 {
					other := refdec.RA{HopLimit: 64, Flags: 0, Lifetime: 1800, Opts: []refdec.NDPOpt{refdec.OptLLA(refdec.OptSLLA, c14Routers[1].mac),
						refdec.OptPrefixInfo(refdec.PrefixInfo{Len: 64, OnLink: true, Auto: true, Valid: 7200, Preferred: 1800, Prefix: netip.MustParseAddr("2001:db8:aaaa:bbbb::")})}}
					for k := 0; k < 4; k++ { // the handler looks at every 4th advertisement
						if frame, perr := s.Parse(raFrame(1, other)); perr == nil {
							st.icmp6.ProcessPacket(frame)
						}
					}
					if err := ra.SendRA(); err != nil {
						return err
					}
				}
				time.Sleep(5 * time.Minute) // 2 min period: 1 + 2 advertisements
				ra.Stop()
				return nil
			},
				verify: func(err error, fr []mon.TxFrame, in []mon.TxInfo) string {
					for _, x := range in {
						if x.ARP != nil || len(x.ICMP) < 16 || x.ICMP[0] != 134 {
							continue
						}
						// every advertisement of the daemon carries what the caller asked it to advertise
						d, derr := refdec.DecodeRA(x.ICMP)
						if derr != nil || len(d.Prefixes) != 1 || d.Prefixes[0].Prefix != a || d.RDNSS == nil {
							return fmt.Sprintf("ra-content: an advertisement of the daemon carries prefixes %+v rdnss=%v, asked for %v/64 and the Cloudflare servers", d.Prefixes, d.RDNSS != nil, a)
						}
					}
					var ras []mon.TxInfo
					for _, x := range in { // the session's own purge probes (ARP) may fall into these five minutes
						if x.ARP == nil {
							ras = append(ras, x)
						}
					}
					if len(ras) != 3+extra {
						return fmt.Sprintf("frame-count: RADVS sent %d advertisements in 5 minutes (1 + one per 2 minutes%s expected)", len(ras), map[int]string{0: "", 1: " + the one asked for"}[extra])
					}
					for _, x := range ras {
						if len(x.ICMP) < 16 || x.ICMP[0] != 134 {
							return fmt.Sprintf("protocol: RADVS frame is not a router advertisement (type %d)", x.ICMP[0])
						}
					}
					return ""
				}})
		}
	}
	return calls
}

func wantEcho(x mon.TxInfo, typ byte, dm refdec.MAC, src, dst netip.Addr, id, seq uint16) string {
	if len(x.ICMP) < 8 || x.ICMP[0] != typ {
		return "protocol: not an echo request (" + x.Class + ")"
	}
	if x.D.DstMAC != dm || x.D.SrcIP != src || x.D.DstIP != dst {
		return fmt.Sprintf("addresses: %v>%v/%x, requested %v>%v/%x", x.D.SrcIP, x.D.DstIP, x.D.DstMAC[:], src, dst, dm[:])
	}
	if gid, gseq := uint16(x.ICMP[4])<<8|uint16(x.ICMP[5]), uint16(x.ICMP[6])<<8|uint16(x.ICMP[7]); gid != id || gseq != seq {
		return fmt.Sprintf("echo-fields: id=%d seq=%d requested id=%d seq=%d", gid, gseq, id, seq)
	}
	return ""
}

// c07Batch runs one batch of send calls inside a bubble.
func c07Batch(c *wk.Ctx, idx int64, r *rand.Rand, nicNo int, scratch string) {
	nic := mon.NICConfigs()[nicNo]
	e := gen.Env{HostMAC: toMAC(nic.HostMAC), RouterMAC: toMAC(nic.RouterMAC), HostIP: nic.HostIP, RouterIP: nic.RouterIP, LAN: nic.HomeLAN, HostLLA: nic.HostLLA,
		Clients: gen.DefaultEnv().Clients}
	// long deadlines: the session's own purge probes stay out of the way of the per-call attribution
	st := newStackD(scratch, nic, 30*time.Minute, 60*time.Minute, 24*time.Hour)
	defer func() {
		st.arp.Close()
		st.dhcp.Close()
		st.icmp6.Close()
		st.s.Close()
		synctest.Wait()
	}()
	time.Sleep(3 * time.Second)
	calls := c07Calls(r, st, nic, e, 40)
	for ci, call := range calls {
		st.rec.Take()
		synctest.Wait()
		var err error
		cs := func() any {
			return map[string]any{"index": idx, "call_no": ci, "api": call.api, "args": call.args, "nic": nicNo}
		}
		c.Eval()
		if pi := c.Guard("C07", cs, func() { err = call.call() }); pi != nil {
			continue
		}
		synctest.Wait()
		frames := st.rec.Take()
		infos := txObserve(c, nic, call.api, frames, cs)
		if msg := call.verify(err, frames, infos); msg != "" {
			rule := strings.SplitN(msg, ":", 2)[0]
			data := cs().(map[string]any)
			for i, f := range frames {
				if i < 3 {
					data[fmt.Sprintf("frame%d_hex", i)] = wk.Hex(f.Data)
				}
			}
			data["error"] = fmt.Sprint(err)
			c.ViolP("C07", "tx:"+call.api+":"+rule, msg, data)
			continue
		}
		for _, in := range infos {
			c.Class(fmt.Sprintf("%s|%s|%s|nic%d", call.api, in.Class, in.Dst, nicNo))
		}
		c.Obs("intent_matched:"+call.api, 1)
		if c.WantSample() && len(frames) == 1 && len(frames[0].Data) < 100 {
			c.Sample(map[string]any{"api": call.api, "args": call.args, "frame_hex": wk.Hex(frames[0].Data), "class": infos[0].Class})
		}
	}
}

func runC07(c *wk.Ctx) {
	if c.Shard == 0 {
		if err := refdec.SelfTest(); err != nil {
			fmt.Println("SELFTEST FAILED:", err)
			panic("SELFTEST FAILED")
		}
	}
	scratch := os.Getenv("VERIF_SCRATCH")
	if scratch == "" {
		scratch = os.TempDir()
	}
	n := c.N(500, 25_000)
	for i := int64(0); i < n; i++ {
		idx := i + 1
		if !c.Mine(idx) {
			continue
		}
		r := c.Rand("c07", i)
		c.Begin(idx, "send-api-batch", nil)
		runBubble(c, idx, func() { c07Batch(c, idx, r, int(i%4), scratch) })
	}
	// purge probes (ARP / NS / echo) along host-tracking histories, with the universal rules applied to every frame
	runHostsTx(c)
	// the DHCP server's replies (and whatever else the stack sends meanwhile) along the DHCP histories of C11/C12: request
	// lists, capture states, subnets and restarts decide what goes into a reply
	runDHCP(c)
}
