package checks

import (
	"fmt"
	"math/rand"
	"net/netip"
	"os"
	"path/filepath"
	"strings"
	"testing/synctest"
	"time"

	"github.com/irai/packet"
	"github.com/irai/packet/handlers/arp_spoofer"
	"github.com/irai/packet/handlers/dhcp4_spoofer"
	"github.com/irai/packet/handlers/dns_naming"
	"github.com/irai/packet/handlers/icmp_spoofer"

	"verif/harness/gen"
	"verif/harness/mon"
	"verif/harness/refdec"
	"verif/harness/wk"
)

func init() { register("C08", runC08) }

// stack is a session with the four handlers wired as the example programs do.
type stack struct {
	rec   *mon.Recorder
	s     *packet.Session
	arp   *arp_spoofer.Handler
	dhcp  *dhcp4_spoofer.Handler
	icmp4 *icmp_spoofer.Handler4
	icmp6 *icmp_spoofer.Handler6
	dns   *dns_naming.DNSHandler
	n     int
}

var stackSeq int

func newStack(scratch string, nic mon.NIC) *stack { return newStackD(scratch, nic, 0, 0, 0) }

func newStackD(scratch string, nic mon.NIC, probe, offline, purge time.Duration) *stack {
	st := &stack{rec: mon.NewRecorder(16)}
	var err error
	if st.s, err = mon.NewSession(st.rec, nic, probe, offline, purge); err != nil {
		panic("HARNESS BUG: " + err.Error())
	}
	if st.arp, err = arp_spoofer.New(st.s); err != nil {
		panic("HARNESS BUG: " + err.Error())
	}
	stackSeq++
	lease := filepath.Join(scratch, fmt.Sprintf("leases-%d-%d.yaml", os.Getpid(), stackSeq))
	os.Remove(lease)
	nf := netip.PrefixFrom(nic.HostIP, nic.HomeLAN.Bits()+1)
	if st.dhcp, err = (dhcp4_spoofer.Config{Mode: dhcp4_spoofer.ModeSecondaryServer, NetfilterIP: nf, DNSServer: nic.RouterIP, LeaseFilename: lease}).New(st.s); err != nil {
		panic("HARNESS BUG: dhcp: " + err.Error())
	}
	st.icmp4, _ = icmp_spoofer.New4(st.s)
	st.icmp6, _ = icmp_spoofer.New6(st.s)
	st.dns = dns_naming.VerifNew(st.s)
	return st
}

func (st *stack) close() {
	st.arp.Close()
	st.dhcp.Close()
	st.icmp6.Close()
	go st.s.Close()
}

// dispatch hands the frame to the processor selected by PayloadID, as the documented packet loop does.
// It returns the name of the handler entry point reached ("" if none).
func (st *stack) dispatch(frame packet.Frame) (entry string, err error) {
	switch frame.PayloadID {
	case packet.PayloadARP:
		return "arp.ProcessPacket", st.arp.ProcessPacket(frame)
	case packet.PayloadDHCP4:
		return "dhcp4.ProcessPacket", st.dhcp.ProcessPacket(frame)
	case packet.PayloadICMP4:
		return "icmp4.ProcessPacket", st.icmp4.ProcessPacket(frame)
	case packet.PayloadICMP6:
		return "icmp6.ProcessPacket", st.icmp6.ProcessPacket(frame)
	case packet.PayloadDNS:
		_, err = st.dns.ProcessDNS(frame)
		return "dns.ProcessDNS", err
	case packet.PayloadMDNS, packet.PayloadLLMNR:
		_, _, err = st.dns.ProcessMDNS(frame)
		return "dns.ProcessMDNS", err
	case packet.PayloadNBNS:
		_, err = st.dns.ProcessNBNS(frame.Host, frame.Ether(), frame.Payload())
		return "dns.ProcessNBNS", err
	case packet.PayloadSSDP:
		_, _, err = st.dns.ProcessSSDP(frame.Host, frame.Ether(), frame.Payload())
		return "dns.ProcessSSDP", err
	case packet.Payload8023:
		_, _, err = packet.Process8023Frame(frame, 0)
		return "Process8023Frame", err
	}
	return "", nil
}

// entryFor predicts the entry point from the reference classification (for the watchdog's progress file).
func entryFor(id int) string {
	switch id {
	case refdec.PARP:
		return "arp.ProcessPacket"
	case refdec.PDHCP4:
		return "dhcp4.ProcessPacket"
	case refdec.PICMP4:
		return "icmp4.ProcessPacket"
	case refdec.PICMP6:
		return "icmp6.ProcessPacket"
	case refdec.PDNS:
		return "dns.ProcessDNS"
	case refdec.PMDNS, refdec.PLLMNR:
		return "dns.ProcessMDNS"
	case refdec.PNBNS:
		return "dns.ProcessNBNS"
	case refdec.PSSDP:
		return "dns.ProcessSSDP"
	case refdec.P8023:
		return "Process8023Frame"
	}
	return "Parse"
}

// handlerFrame builds a frame aimed at one handler.
func handlerFrame(r *rand.Rand, e gen.Env, which int) gen.Frame {
	mac := e.Clients[r.Intn(len(e.Clients))]
	if r.Intn(6) == 0 {
		mac = e.RouterMAC
	}
	src4 := e.LANIP(r)
	bc := refdec.MAC{0xff, 0xff, 0xff, 0xff, 0xff, 0xff}
	udp4 := func(sp, dp uint16, p []byte, kind string) gen.Frame {
		dst := netip.AddrFrom4([4]byte{255, 255, 255, 255})
		return gen.Frame{B: refdec.Ether(bc, mac, 0x0800, 0, refdec.IP4(refdec.IP4Hdr{TTL: 64, Proto: 17, Src: src4, Dst: dst}, refdec.UDP(sp, dp, p))), Kind: kind, SrcMAC: mac}
	}
	switch which {
	case 0:
		k := gen.ARPKinds[r.Intn(len(gen.ARPKinds))]
		return gen.Frame{B: refdec.Ether(bc, mac, 0x0806, 0, gen.ARP(r, e, k, mac, src4)), Kind: "arp:" + k, SrcMAC: mac}
	case 1:
		k := gen.DHCPKinds[r.Intn(len(gen.DHCPKinds))]
		m := gen.DHCP(r, e, k, mac)
		sp, dp := uint16(68), uint16(67)
		if m.Op == 2 {
			sp, dp = 67, 68
			if r.Intn(3) == 0 {
				sp, dp, k = 67, 67, k+"-to-server-port" // a server's message relayed to the server port (what a relay agent receives)
			}
		} else if r.Intn(12) == 0 {
			sp, dp, k = 68, 68, k+"-to-client-port" // a client message seen on the client port
		}
		f := udp4(sp, dp, m.Bytes(), "dhcp:"+k)
		if strings.HasPrefix(k, "discover") || strings.HasPrefix(k, "request-selecting") || strings.HasPrefix(k, "request-reboot") || strings.HasPrefix(k, "decline") {
			// DHCP clients without an address send from 0.0.0.0
			f.B = refdec.Ether(bc, mac, 0x0800, 0, refdec.IP4(refdec.IP4Hdr{TTL: 64, Proto: 17, Src: netip.AddrFrom4([4]byte{}), Dst: netip.AddrFrom4([4]byte{255, 255, 255, 255})}, refdec.UDP(sp, dp, m.Bytes())))
		}
		return f
	case 2:
		k := gen.ICMP4Kinds[r.Intn(len(gen.ICMP4Kinds))]
		return gen.Frame{B: refdec.Ether(e.HostMAC, mac, 0x0800, 0, refdec.IP4(refdec.IP4Hdr{TTL: 64, Proto: 1, Src: src4, Dst: e.HostIP}, gen.ICMP4Msg(r, e, k))), Kind: "icmp4:" + k, SrcMAC: mac}
	case 3:
		k := gen.ICMP6Kinds[r.Intn(len(gen.ICMP6Kinds))]
		src, _ := e.IP6(r)
		if r.Intn(2) == 0 {
			src = netip.MustParseAddr("fe80::1")
		}
		dst, _ := e.IP6(r)
		return gen.Frame{B: refdec.Ether(refdec.MAC{0x33, 0x33, 0, 0, 0, 1}, mac, 0x86dd, 0, refdec.IP6(refdec.IP6Hdr{Next: 58, Hop: 255, Src: src, Dst: dst, PayloadLen: -1}, gen.ICMP6Msg(r, e, k, src, dst, mac))), Kind: "icmp6:" + k, SrcMAC: mac}
	case 4:
		k := gen.DNSKinds[r.Intn(len(gen.DNSKinds))]
		return udp4(53, uint16(1024+r.Intn(60000)), gen.DNS(r, e, k), "dns:"+k)
	case 5:
		k := gen.DNSKinds[r.Intn(len(gen.DNSKinds))]
		port := []uint16{5353, 5355}[r.Intn(2)]
		return udp4(port, port, gen.DNS(r, e, k), fmt.Sprintf("mdns(%d):%s", port, k))
	case 6:
		k := gen.DNSMutantKinds[r.Intn(len(gen.DNSMutantKinds))]
		port := []uint16{53, 5353, 5355}[r.Intn(3)]
		return udp4(port, port, gen.DNSMutant(r, e, k), fmt.Sprintf("dnsmutant(%d):%s", port, k))
	case 7:
		k := gen.NBNSKinds[r.Intn(len(gen.NBNSKinds))]
		return udp4(137, 137, gen.NBNS(r, k), "nbns:"+k)
	case 8:
		k := gen.SSDPKinds[r.Intn(len(gen.SSDPKinds))]
		return udp4(uint16(1024+r.Intn(60000)), 1900, gen.SSDP(r, k), "ssdp:"+k)
	default:
		k := gen.L2Kinds[r.Intn(len(gen.L2Kinds))]
		p := gen.LLC(r, k)
		return gen.Frame{B: refdec.Ether(refdec.MAC{0x01, 0x80, 0xc2, 0, 0, 0}, mac, uint16(len(p)), 0, p), Kind: "8023:" + k, SrcMAC: mac}
	}
}

func runC08(c *wk.Ctx) {
	if c.Shard == 0 {
		if err := refdec.SelfTest(); err != nil {
			fmt.Println("SELFTEST FAILED:", err)
			panic("SELFTEST FAILED")
		}
	}
	scratch := os.Getenv("VERIF_SCRATCH")
	if scratch == "" {
		scratch = os.TempDir()
	}
	e := gen.DefaultEnv()
	nic := mon.DefaultNIC()
	var st *stack
	nStacks := 0
	idx := int64(0)
	one := func(f gen.Frame) {
		idx++
		if !c.Mine(idx) {
			return
		}
		if st == nil || st.n >= 1500 {
			if st != nil {
				st.close()
			}
			st = newStack(scratch, nic)
			nStacks++
			setLogLevels(nStacks%2 == 0) // every second stack with the library's loggers at debug level
			if nStacks%3 != 1 {
				// two stacks in three are at work: some clients captured and hunted over ARP and ICMPv6, so that the handlers
				// take the paths they take while spoofing (replies to hunted stations, loops woken by advertisements, the
				// DHCP server answering captured clients from the other pool)
				for k, m := range e.Clients {
					if k%2 == nStacks%2 {
						continue
					}
					mac := hw(m)
					st.s.Capture(mac)
					st.arp.StartHunt(packet.Addr{MAC: mac, IP: netip.AddrFrom4([4]byte{192, 168, 0, byte(100 + k)})})
					st.icmp6.StartHunt(packet.Addr{MAC: mac, IP: netip.AddrFrom16([16]byte{0xfe, 0x80, 8: m[0] ^ 2, 9: m[1], 10: m[2], 11: 0xff, 12: 0xfe, 13: m[3], 14: m[4], 15: m[5]})})
					c.Obs("stations_hunted_while_handlers_run", 1)
				}
			}
		}
		st.n++
		ref := refdec.Decode(f.B)
		c.Begin(idx, entryFor(ref.PayloadID), f.B)
		c.Eval()
		in := append(make([]byte, 0, len(f.B)), f.B...)
		cs := func() any {
			return map[string]any{"index": idx, "input_hex": wk.Hex(f.B), "kind": f.Kind, "mutation": f.Mut}
		}
		var frame packet.Frame
		var err error
		if pi := c.Guard("C01", cs, func() { frame, err = st.s.Parse(in) }); pi != nil || err != nil {
			c.Obs("parse_rejected", 1)
			return
		}
		var entry string
		var herr error
		pi := c.Guard("C08", cs, func() {
			entry, herr = st.dispatch(frame)
			st.s.Notify(frame)
		})
		st.rec.Take()
		for len(st.s.C) > 0 {
			<-st.s.C
		}
		if pi != nil {
			st = nil // a handler that panicked may have died with its lock held: this stack is abandoned, not closed
			return
		}
		if entry == "" {
			return
		}
		outcome := "ok"
		if herr != nil {
			outcome = "error"
		}
		c.Class(fmt.Sprintf("%s|%s|%s|%s", entry, f.Kind, f.Mut, outcome))
		c.Obs("handled:"+entry, 1)
		if c.WantSample() && len(f.B) < 100 && f.Mut != "none" {
			c.Sample(map[string]any{"frame_hex": wk.Hex(f.B), "kind": f.Kind, "mutation": f.Mut, "entry": entry, "handler_error": fmt.Sprint(herr)})
		}
	}
	// (1) protocol-aware frames for each handler x mutations
	n1 := c.N(160_000, 12_000_000)
	for i := int64(0); i < n1; i++ {
		r := c.Rand("c08h", i)
		f := handlerFrame(r, e, int(i%10))
		one(gen.Mutate(r, f, gen.Mutations[(i/10)%int64(len(gen.Mutations))]))
	}
	// (2) truncation at every offset of handler frames
	n2 := c.N(600, 40_000)
	for i := int64(0); i < n2; i++ {
		r := c.Rand("c08t", i)
		f := handlerFrame(r, e, int(i%10))
		if len(f.B) > 420 {
			continue
		}
		for cut := 14; cut <= len(f.B); cut++ {
			g := f
			g.B, g.Mut = f.B[:cut], "truncate@every"
			one(g)
		}
	}
	// (3) structural frames of every class (reach handlers through every port/protocol path)
	n3 := c.N(40_000, 4_000_000)
	for i := int64(0); i < n3; i++ {
		r := c.Rand("c08s", i)
		f := gen.Structural(r, e)
		one(gen.Mutate(r, f, gen.Mutations[i%int64(len(gen.Mutations))]))
	}
	if st != nil {
		st.close()
	}
	// (4) payload-level decoders on byte strings
	idx = 5_000_000_000
	n4 := c.N(100_000, 8_000_000)
	for i := int64(0); i < n4; i++ {
		idx++
		if !c.Mine(idx) {
			continue
		}
		r := c.Rand("c08d", i)
		c08Decoder(c, r, e, idx, int(i%6))
	}
	// (5) the packet loop on echo replies (matching, duplicated, foreign, truncated) while pings are pending
	runPingStream(c, c.N(400, 20_000), 6_000_000_000)
	// (6) slow traffic: the same frames minutes apart on a virtual clock, so that whatever the handlers do only now and then
	// (rate limited log statements, caches with an expiry, sampled router advertisements) happens between the frames
	nSlow := c.N(48, 1_600)
	for k := int64(0); k < nSlow; k++ {
		idx := 7_000_000_000 + k
		if !c.Mine(idx) {
			continue
		}
		c.Begin(idx, "slow-traffic", nil)
		c.Eval()
		runBubble(c, idx, func() { c08Slow(c, idx, e, scratch) })
	}
}

// c08Epoch is the latest virtual instant any slow-traffic bubble of this process has reached: the library's rate limiters are
// package variables that remember the instants of earlier bubbles, and every bubble's clock starts at the same point.
var c08Epoch time.Time

func c08Slow(c *wk.Ctx, idx int64, e gen.Env, scratch string) {
	if d := time.Until(c08Epoch); d > 0 {
		time.Sleep(d + time.Hour)
	}
	st := newStack(scratch, mon.DefaultNIC())
	defer func() {
		c08Epoch = time.Now()
		st.close()
		synctest.Wait()
	}()
	rx := newRx()
	for i := 0; i < 120; i++ {
		r := c.Rand("c08slow", idx*1000+int64(i))
		var f gen.Frame
		if i%3 == 0 {
			f = gen.Structural(r, e)
		} else {
			f = handlerFrame(r, e, r.Intn(10))
		}
		cs := func() any {
			return map[string]any{"index": idx, "frame_no": i, "input_hex": wk.Hex(f.B), "kind": f.Kind, "virtual_time": time.Now().Format(time.RFC3339)}
		}
		var frame packet.Frame
		var err error
		if pi := c.Guard("C01", cs, func() { frame, err = st.s.Parse(rx.load(f.B)) }); pi != nil {
			return
		}
		if err == nil {
			if pi := c.Guard("C08", cs, func() {
				st.dispatch(frame)
				st.s.Notify(frame)
			}); pi != nil {
				return
			}
			c.Obs("slow_traffic_frames_handled", 1)
		}
		rx.scribble()
		st.rec.Take()
		for len(st.s.C) > 0 {
			<-st.s.C
		}
		time.Sleep([]time.Duration{time.Second, 61 * time.Second, 5*time.Minute + time.Second, 6 * time.Minute}[r.Intn(4)])
	}
	c.Class("slow-traffic")
}

func mutateBytes(r *rand.Rand, b []byte) ([]byte, string) {
	b = append([]byte(nil), b...)
	switch r.Intn(5) {
	case 0:
		return b, "none"
	case 1:
		if len(b) > 0 {
			b = b[:r.Intn(len(b))]
		}
		return b, "truncate"
	case 2:
		for k := 1 + r.Intn(3); k > 0 && len(b) > 0; k-- {
			b[r.Intn(len(b))] = byte([]int{0, 1, 0xff, 0xc0, 0x3f, r.Intn(256)}[r.Intn(6)])
		}
		return b, "bytes"
	case 3:
		for k := 1 + r.Intn(4); k > 0 && len(b) > 0; k-- {
			b[r.Intn(len(b))] ^= 1 << r.Intn(8)
		}
		return b, "flip"
	}
	return gen.RandBytes(r, r.Intn(100)), "random"
}

func c08Decoder(c *wk.Ctx, r *rand.Rand, e gen.Env, idx int64, which int) {
	c.Eval()
	mac := e.Clients[0]
	src, dst := netip.MustParseAddr("fe80::1"), netip.MustParseAddr("ff02::1")
	var in []byte
	var mut, entry string
	run := func(f func()) {
		c.Begin(idx, entry, in)
		pi := c.Guard("C08", func() any {
			return map[string]any{"index": idx, "decoder": entry, "input_hex": wk.Hex(in), "mutation": mut}
		}, f)
		if pi == nil {
			c.Class("decoder:" + entry + "|" + mut)
			c.Obs("decoder_calls", 1)
		}
	}
	switch which {
	case 0:
		var seed []byte
		if r.Intn(2) == 0 {
			seed = gen.DNS(r, e, gen.DNSKinds[r.Intn(len(gen.DNSKinds))])
		} else {
			seed = gen.DNSMutant(r, e, gen.DNSMutantKinds[r.Intn(len(gen.DNSMutantKinds))])
		}
		in, mut = mutateBytes(r, seed)
		entry = "DecodeQuestion+DecodeAnswers"
		run(func() {
			p := packet.DNS(in)
			if p.IsValid() != nil {
				return
			}
			buf := make([]byte, 0, 64)
			_, off, err := packet.DecodeQuestion(p, 12, buf)
			ent := packet.NewDNSEntry()
			if err == nil {
				ent.DecodeAnswers(p, off, buf)
			}
			ent2 := packet.NewDNSEntry()
			ent2.DecodeAnswers(p, 12, buf)
		})
	case 1:
		k := []string{"ra", "rs", "ra-min"}[r.Intn(3)]
		in, mut = mutateBytes(r, gen.ICMP6Msg(r, e, k, src, dst, mac))
		entry = "NDP.Options"
		run(func() {
			if ra := packet.ICMP6RouterAdvertisement(in); ra.IsValid() == nil {
				ra.Options()
			}
			if rs := packet.ICMP6RouterSolicitation(in); rs.IsValid() == nil {
				rs.Options()
			}
		})
	case 2:
		seed := append([]byte{58, byte(r.Intn(3))}, gen.RandBytes(r, 6+8*r.Intn(3))...)
		for k := 2; k < len(seed); k++ {
			if r.Intn(3) == 0 {
				seed[k] = []byte{0, 1, 5, 194, 0xc2}[r.Intn(5)]
			}
		}
		in, mut = mutateBytes(r, seed)
		entry = "ParseHopByHopExtensions"
		run(func() {
			if h := packet.HopByHopExtensionHeader(in); h.IsValid() {
				h.ParseHopByHopExtensions()
			}
		})
	case 3:
		in, mut = mutateBytes(r, gen.DHCP(r, e, gen.DHCPKinds[r.Intn(len(gen.DHCPKinds))], mac).Bytes())
		entry = "DHCP4.ParseOptions"
		run(func() {
			p := packet.DHCP4(in)
			if p.IsValid() == nil {
				o := p.ParseOptions()
				_ = o.HostName()
				_ = o.RequestedIPAddress()
				_ = o.ServerID()
			}
		})
	case 4:
		in, mut = mutateBytes(r, gen.LLDP(r))
		entry = "LLDP.TLV"
		run(func() {
			p := packet.LLDP(in)
			if p.IsValid() == nil {
				p.ChassisID()
				p.PortID()
				for t := 0; t < 10; t++ {
					p.GetPDU(t)
				}
				p.GetPDU(127)
			}
		})
	default:
		in, mut = mutateBytes(r, gen.NBNS(r, gen.NBNSKinds[r.Intn(len(gen.NBNSKinds))]))
		entry = "DecodeAnswers(nbns)"
		run(func() {
			p := packet.DNS(in)
			if p.IsValid() == nil {
				ent := packet.NewDNSEntry()
				ent.DecodeAnswers(p, 12, make([]byte, 0, 64))
			}
		})
	}
}
