package checks

import (
	"errors"
	"fmt"
	"math/rand"
	"net/netip"
	"sort"
	"sync"
	"testing/synctest"
	"time"

	"github.com/irai/packet"

	"verif/harness/mon"
	"verif/harness/refdec"
	"verif/harness/wk"
)

func init() { register("C19", runC19) }

type pingSpec struct {
	v6      bool
	dst     netip.Addr
	dmac    refdec.MAC
	timeout time.Duration // as passed to Ping
	eff     time.Duration // effective time-out (documented: <=0 or >10s means 2s)
	sendErr bool
	trailer bool // truncated replies come with the missing bytes as a link layer trailer
	// arrival plan
	matchAt time.Duration // <0: no matching reply
	ipopts  bool          // IPv4 only: the peer's datagrams carry IP options
	tclass  byte          // DSCP / traffic class of the peer's datagrams
	datalen int           // 0: the peer echoes the data; 1: no data; 2: one byte; 3: padded to 1215 bytes
	extras  []pingExtra
	// results
	id   uint16
	have bool
	err  error
	done time.Duration
}

var c19LastID = -1 // last echo identifier seen on the wire in this process

type pingExtra struct {
	at   time.Duration
	kind string // foreign, request-same-id, truncated, duplicate, other-type-same-id
	typ  int    // other-type-same-id: which message type
}

func echoFrame(nic mon.NIC, p *pingSpec, typ4, typ6 byte, id uint16, truncate bool) []byte {
	// the peer echoes the data it got, or part of it, or none (the match is on the identifier: an echo message of 8 bytes, without
	// data, is the smallest valid one), or pads it
	data := []byte("HELLO-NETFILTER")
	switch p.datalen {
	case 1:
		data = data[:0]
	case 2:
		data = data[:1]
	case 3:
		data = append(data, make([]byte, 1200)...)
	}
	body := refdec.EchoBody(id, 1, data)
	host := toMAC(nic.HostMAC)
	if p.v6 {
		msg := refdec.ICMP6(p.dst, nic.HostLLA, typ6, 0, body)
		if truncate && p.trailer {
			// the datagram ends after four bytes of the echo message (payload length 4); what follows in the frame - the rest of
			// the message, identifier first - is link layer trailer and belongs to nobody
			f := refdec.Ether(host, p.dmac, 0x86dd, 0, refdec.IP6(refdec.IP6Hdr{Class: p.tclass, Next: 58, Hop: 64, Src: p.dst, Dst: nic.HostLLA, PayloadLen: 4}, msg[:4]))
			return append(f, msg[4:]...)
		}
		if truncate {
			msg = msg[:6]
		}
		// traffic class and flow label are the peer's business (network control traffic is often sent as CS6/CS7)
		return refdec.Ether(host, p.dmac, 0x86dd, 0, refdec.IP6(refdec.IP6Hdr{Class: p.tclass, Flow: uint32(p.tclass) * 0x1357 & 0xfffff, Next: 58, Hop: 64, Src: p.dst, Dst: nic.HostLLA, PayloadLen: -1}, msg))
	}
	var rest [4]byte
	copy(rest[:], body[:4])
	msg := refdec.ICMP4(typ4, 0, rest, body[4:])
	if truncate {
		msg = msg[:6]
	}
	h := refdec.IP4Hdr{TOS: p.tclass, ID: uint16(p.tclass) * 257, TTL: 64, Proto: 1, Src: p.dst, Dst: nic.HostIP}
	if p.ipopts {
		// the peer's datagrams carry IPv4 options (record route / timestamp pings, or just padding): the ICMP message starts
		// at 4 x IHL. The option bytes are chosen to look like the echo reply this ping waits for (type 0, code 0, checksum,
		// identifier, sequence 1) to whoever reads the ICMP header at the wrong place; 0 is also the end-of-options octet.
		h.TOS, h.ID = 0xb8, id^0x5aa5
		h.Options = []byte{0, 0, 0x12, 0x34, byte(p.id >> 8), byte(p.id), 0, 1}
	}
	return refdec.Ether(host, p.dmac, 0x0800, 0, refdec.IP4(h, msg))
}

func c19Scenario(c *wk.Ctx, idx int64, r *rand.Rand) (nontrivial string, viol bool) {
	// the scenarios also run as a sub-stream of C01 and C08 (Parse / the packet loop must not panic whatever pings are pending):
	// there only panics are reported, under that property; the ping verdicts always belong to C19
	attr := "C19"
	if c.Prop == "C01" || c.Prop == "C08" {
		attr = c.Prop
	}
	nic := mon.DefaultNIC()
	rec := mon.NewRecorder(8)
	s, err := mon.NewSession(rec, nic, 30*time.Minute, 60*time.Minute, 24*time.Hour)
	if err != nil {
		panic("HARNESS BUG: " + err.Error())
	}
	defer func() {
		s.Close()
		synctest.Wait()
	}()
	n := 1 + r.Intn(8)
	pings := make([]*pingSpec, n)
	var maxT time.Duration
	for i := range pings {
		p := &pingSpec{v6: r.Intn(2) == 0, dmac: refdec.MAC{0x02, 0xd0, 0, 0, byte(i), byte(1 + i)}}
		if p.v6 {
			p.dst = netip.AddrFrom16([16]byte{0xfe, 0x80, 14: byte(i + 1), 15: 0x77})
		} else {
			p.dst = netip.AddrFrom4([4]byte{192, 168, 0, byte(50 + i)})
		}
		p.timeout = []time.Duration{500 * time.Millisecond, time.Second, 2 * time.Second, 3 * time.Second, 10 * time.Second, 0, -time.Second, 11 * time.Second}[r.Intn(8)]
		p.eff = p.timeout
		if p.timeout <= 0 || p.timeout > 10*time.Second {
			p.eff = 2 * time.Second
		}
		p.sendErr = r.Intn(10) == 0
		p.trailer = r.Intn(2) == 0
		p.ipopts = !p.v6 && r.Intn(3) == 0
		p.datalen = []int{0, 0, 0, 1, 2, 3}[r.Intn(6)]
		p.tclass = []byte{0, 0, 0xc0, 0xe0, 0x28, byte(r.Intn(256))}[r.Intn(6)]
		p.matchAt = -1
		switch r.Intn(5) {
		case 4:
			p.matchAt = 0 // the peer answers before the sender is back from its write: reply parsed inside WriteTo
		case 0:
			p.matchAt = p.eff / 2
		case 1:
			p.matchAt = p.eff - time.Millisecond
		case 2:
			p.matchAt = p.eff + time.Millisecond // too late
		}
		for k := r.Intn(3); k > 0; k-- {
			at := time.Duration(1+r.Intn(int(p.eff/time.Millisecond)-2)) * time.Millisecond
			if at == p.matchAt {
				at++
			}
			p.extras = append(p.extras, pingExtra{at: at + 17*time.Microsecond, kind: []string{"foreign", "request-same-id", "truncated", "duplicate", "other-type-same-id"}[r.Intn(5)], typ: r.Intn(64)})
		}
		if p.eff > maxT {
			maxT = p.eff
		}
		pings[i] = p
	}
	cs := func() map[string]any {
		var ps []string
		for _, p := range pings {
			ps = append(ps, fmt.Sprintf("{v6=%v dst=%v timeout=%v sendErr=%v ipoptions=%v echo-data=%d matchAt=%v extras=%v -> id=%d err=%v returned@%v}", p.v6, p.dst, p.timeout, p.sendErr, p.ipopts, p.datalen, p.matchAt, p.extras, p.id, p.err, p.done))
		}
		return map[string]any{"index": idx, "pings": ps}
	}
	fail := func(key, detail string) {
		if !viol {
			c.ViolP("C19", key, detail, cs())
		}
		viol = true
	}
	if w := packet.VerifICMPWaiters(); w != 0 {
		panic(fmt.Sprintf("HARNESS BUG: %d waiters left from the previous scenario", w))
	}
	t0 := time.Now()
	immediate, dupInside := 0, 0
	var wg sync.WaitGroup
	var mu sync.Mutex
	// identifiers are handed out sequentially: remember the last one seen on the wire (process wide)
	rec.OnWrite(func(f mon.TxFrame) {
		d := refdec.Decode(f.Data)
		if d.Err || (d.PayloadID != refdec.PICMP4 && d.PayloadID != refdec.PICMP6) {
			return
		}
		off := d.OffIP4 + 20
		if d.OffIP6 != 0 {
			off = d.OffIP6 + 40
		}
		if icmp := f.Data[off:]; icmp[0] == 8 || icmp[0] == 128 {
			c19LastID = int(icmp[4])<<8 | int(icmp[5])
		}
	})
	rx := newRx()
	// start the pings one after the other so that an injected send error hits the intended one
	slowFail := false
	for i, p := range pings {
		p := p
		stale := c19LastID >= 0 && r.Intn(4) == 0
		if stale {
			// an echo reply that already carries the identifier the next ping will get is parsed while nobody waits for it
			// (it is ignored) and stays in the receive buffer ...
			premature := echoFrame(nic, p, 0, 129, uint16(c19LastID+1), false)
			c.Guard(attr, func() any { return cs() }, func() { s.Parse(rx.load(premature)) })
		}
		if p.sendErr {
			rec.FailNext(1, mon.ErrInjected)
			rec.FailSlowly(0)
			if i%2 == 1 {
				// the write takes a millisecond before it fails (a driver timing out): the pings started meanwhile take their
				// identifiers while this one is still inside its write
				rec.FailSlowly(time.Millisecond)
				slowFail = true
			}
		}
		rec.AfterWrite(nil)
		if p.matchAt == 0 {
			rec.AfterWrite(func(f mon.TxFrame) {
				d := refdec.Decode(f.Data)
				if d.Err || d.DstIP != p.dst || (d.PayloadID != refdec.PICMP4 && d.PayloadID != refdec.PICMP6) {
					return
				}
				off := d.OffIP4 + 20
				if d.OffIP6 != 0 {
					off = d.OffIP6 + 40
				}
				if icmp := f.Data[off:]; icmp[0] == 8 || icmp[0] == 128 {
					reply := echoFrame(nic, p, 0, 129, uint16(icmp[4])<<8|uint16(icmp[5]), false)
					n := 1
					for _, x := range p.extras {
						if x.kind == "duplicate" {
							n = 2 // the duplicate arrives before the pinger had any chance to run: it is still inside its write
						}
					}
					for k := 0; k < n; k++ {
						if c.Guard(attr, func() any { return cs() }, func() { s.Parse(append([]byte(nil), reply...)) }) != nil {
							// Parse panicked while notifying the waiter: the package level waiter table may stay locked
							c.Restart()
						}
					}
					immediate++
					if n == 2 {
						dupInside++
					}
				}
			})
		}
		wg.Add(1)
		go func() {
			defer wg.Done()
			var err error
			if p.v6 {
				err = s.Ping6(packet.Addr{MAC: nic.HostMAC, IP: nic.HostLLA}, packet.Addr{MAC: hw(p.dmac), IP: p.dst}, p.timeout)
			} else {
				err = s.Ping(packet.Addr{MAC: hw(p.dmac), IP: p.dst}, p.timeout)
			}
			mu.Lock()
			p.err, p.done = err, time.Since(t0)
			mu.Unlock()
		}()
		synctest.Wait()
		if stale {
			// ... and the next frame in that buffer is a runt: an Ethernet header and nothing else. It is no echo reply
			runt := refdec.Ether(toMAC(nic.HostMAC), p.dmac, map[bool]uint16{false: 0x0800, true: 0x86dd}[p.v6], 0, nil)
			c.Guard(attr, func() any { return cs() }, func() { s.Parse(rx.load(runt)) })
			synctest.Wait()
			c.Obs("stale_reply_then_runt", 1)
		}
	}
	rec.OnWrite(nil)
	rec.AfterWrite(nil)
	if slowFail {
		// two more pings, started after the slow failure has been reported, while the others are still pending: their identifiers
		// must be fresh ones (they are not answered and not judged otherwise)
		time.Sleep(3 * time.Millisecond)
		synctest.Wait()
		for k := 0; k < 2; k++ {
			k, v6 := k, r.Intn(2) == 0
			wg.Add(1)
			go func() {
				defer wg.Done()
				if v6 {
					s.Ping6(packet.Addr{MAC: nic.HostMAC, IP: nic.HostLLA}, packet.Addr{MAC: hw(refdec.MAC{0x02, 0xd0, 0, 0, 0xee, byte(k)}), IP: netip.AddrFrom16([16]byte{0xfe, 0x80, 14: 0xee, 15: byte(k)})}, 200*time.Millisecond)
				} else {
					s.Ping(packet.Addr{MAC: hw(refdec.MAC{0x02, 0xd0, 0, 0, 0xee, byte(k)}), IP: netip.AddrFrom4([4]byte{192, 168, 0, byte(250 + k)})}, 200*time.Millisecond)
				}
			}()
			synctest.Wait()
		}
		c.Obs("late_pings_after_slow_send_failure", 2)
	}
	c.Obs("replies_inside_write", int64(immediate))
	c.Obs("duplicate_replies_inside_write", int64(dupInside))
	// identifiers from the echo requests on the wire, matched by destination
	ids := map[uint16]int{}
	onWire := map[uint16]int{}
	for _, f := range rec.Take() {
		d := refdec.Decode(f.Data)
		if d.Err || (d.PayloadID != refdec.PICMP4 && d.PayloadID != refdec.PICMP6) {
			continue
		}
		off := d.OffIP4 + 20
		if d.OffIP6 != 0 {
			off = d.OffIP6 + 40
		}
		icmp := f.Data[off:]
		if icmp[0] == 8 || icmp[0] == 128 {
			onWire[uint16(icmp[4])<<8|uint16(icmp[5])]++
		}
		for _, p := range pings {
			if p.dst == d.DstIP && (icmp[0] == 8 || icmp[0] == 128) {
				p.id, p.have = uint16(icmp[4])<<8|uint16(icmp[5]), true
				ids[p.id]++
			}
		}
	}
	for _, p := range pings {
		if !p.have && !p.sendErr {
			fail("ping:no-request", fmt.Sprintf("no echo request seen for the ping to %v", p.dst))
		}
		if p.have && p.sendErr {
			fail("ping:request-despite-send-error", "echo request recorded although the write failed")
		}
	}
	for id, cnt := range ids {
		if cnt > 1 {
			fail("ping:duplicate-identifier", fmt.Sprintf("identifier %d used by %d concurrent pings", id, cnt))
		}
	}
	for id, cnt := range onWire {
		if cnt > 1 { // every echo request of the scenario left within a few milliseconds, while the answered ones were all pending
			fail("ping:duplicate-identifier", fmt.Sprintf("identifier %d is on the wire in %d echo requests of concurrently pending pings", id, cnt))
		}
	}
	// arrival schedule
	type arrival struct {
		at    time.Duration
		frame []byte
	}
	var arr []arrival
	otherTypes := 0
	unused := uint16(40000 + r.Intn(20000))
	for ids[unused] > 0 {
		unused++
	}
	for _, p := range pings {
		if !p.have {
			continue
		}
		if p.matchAt > 0 {
			arr = append(arr, arrival{p.matchAt, echoFrame(nic, p, 0, 129, p.id, false)})
		}
		for _, x := range p.extras {
			switch x.kind {
			case "foreign":
				arr = append(arr, arrival{x.at, echoFrame(nic, p, 0, 129, unused, false)})
			case "request-same-id":
				arr = append(arr, arrival{x.at, echoFrame(nic, p, 8, 128, p.id, false)})
			case "truncated":
				arr = append(arr, arrival{x.at, echoFrame(nic, p, 0, 129, p.id, true)})
			case "other-type-same-id":
				// any other ICMP message whose bytes 4..5 happen to equal the identifier (flags of a neighbour advertisement,
				// the unused word of an error, an identifier of a timestamp request): only an echo reply answers a ping
				t4 := []byte{3, 4, 5, 9, 10, 11, 12, 13, 14, 15, 16, 17, 18, 30, 42, 43}
				t6 := []byte{1, 2, 3, 4, 127, 130, 131, 132, 133, 134, 135, 136, 137, 143, 200, 255}
				q := *p
				q.datalen = 0
				arr = append(arr, arrival{x.at, echoFrame(nic, &q, t4[x.typ%len(t4)], t6[x.typ%len(t6)], p.id, false)})
				otherTypes++
			case "duplicate":
				if p.matchAt >= 0 && p.matchAt < p.eff {
					arr = append(arr, arrival{p.matchAt + 29*time.Microsecond, echoFrame(nic, p, 0, 129, p.id, false)})
				}
			}
		}
	}
	sort.SliceStable(arr, func(i, j int) bool { return arr[i].at < arr[j].at })
	for _, a := range arr {
		if d := a.at - time.Since(t0); d > 0 {
			time.Sleep(d)
		}
		synctest.Wait()
		if c.Guard(attr, func() any { return cs() }, func() { s.Parse(a.frame) }) != nil {
			c.Restart() // see above
		}
		synctest.Wait()
	}
	if d := maxT + time.Second - time.Since(t0); d > 0 {
		time.Sleep(d)
	}
	synctest.Wait()
	wg.Wait()
	// verdicts
	kinds := map[string]bool{}
	for _, p := range pings {
		switch {
		case p.sendErr:
			if p.err == nil || errors.Is(p.err, packet.ErrTimeout) {
				fail("ping:send-error-not-reported", fmt.Sprintf("the write failed but Ping returned %v", p.err))
			}
			kinds["send-error"] = true
		case p.matchAt >= 0 && p.matchAt < p.eff:
			if p.err != nil {
				fail("ping:matching-reply-ignored", fmt.Sprintf("a reply with identifier %d was parsed %v after the request (time-out %v) but Ping returned %v", p.id, p.matchAt, p.eff, p.err))
			} else if p.done < p.matchAt || p.done > p.matchAt+time.Millisecond {
				fail("ping:completed-at-wrong-time", fmt.Sprintf("Ping returned nil after %v, its reply arrived at %v", p.done, p.matchAt))
			}
			kinds["completed"] = true
		default:
			if p.err == nil {
				fail("ping:completed-without-matching-reply", fmt.Sprintf("Ping to %v returned nil although no echo reply with its identifier %d was parsed before the time-out (matching reply at %v, extras %v)", p.dst, p.id, p.matchAt, p.extras))
			} else if !errors.Is(p.err, packet.ErrTimeout) {
				fail("ping:wrong-error", fmt.Sprintf("Ping returned %v instead of ErrTimeout", p.err))
			} else if p.done != p.eff {
				fail("ping:timeout-at-wrong-time", fmt.Sprintf("Ping timed out after %v, effective time-out is %v", p.done, p.eff))
			}
			kinds["timeout"] = true
			if p.matchAt > p.eff {
				kinds["late-reply"] = true
			}
		}
		if p.matchAt == 0 && !p.sendErr {
			kinds["reply-inside-write"] = true
		}
		for _, x := range p.extras {
			kinds[x.kind] = true
		}
	}
	if w := packet.VerifICMPWaiters(); w != 0 {
		fail("ping:waiter-leaked", fmt.Sprintf("%d waiter entries are left in the table after all pings returned", w))
		// do not let the leak poison the following scenarios
		for i := 0; i < 70000 && packet.VerifICMPWaiters() > 0; i++ {
			s.Parse(echoFrame(nic, &pingSpec{dst: netip.AddrFrom4([4]byte{192, 168, 0, 200}), dmac: refdec.MAC{2, 0xd0, 0, 0, 9, 9}}, 0, 129, uint16(i), false))
		}
	}
	c.Obs("pings", int64(n))
	c.Obs("other_icmp_types_carrying_the_identifier", int64(otherTypes))
	if c.WantSample() && !viol && n <= 3 {
		c.Sample(cs())
	}
	var ks []string
	for k := range kinds {
		ks = append(ks, k)
	}
	sort.Strings(ks)
	return fmt.Sprintf("n=%d %v", n, ks), viol
}

func runC19(c *wk.Ctx) { runPingStream(c, c.N(3_000, 200_000), 0) }

// runPingStream runs n ping scenarios (case indexes base+1..).
func runPingStream(c *wk.Ctx, n, base int64) {
	for i := int64(0); i < n; i++ {
		idx := base + i + 1
		if !c.Mine(idx) {
			continue
		}
		r := c.Rand("c19", i)
		c.Begin(idx, "ping-scenario", nil)
		c.Eval()
		var cls string
		var viol bool
		runBubble(c, idx, func() { cls, viol = c19Scenario(c, idx, r) })
		if !viol && cls != "" {
			c.Class(cls)
			c.Obs("scenarios_ok", 1)
		}
	}
}
