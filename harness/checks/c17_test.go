package checks

import (
	"bytes"
	"fmt"
	"math/rand"
	"net/netip"
	"sort"
	"strings"

	"golang.org/x/net/dns/dnsmessage"

	"github.com/irai/packet"
	"github.com/irai/packet/handlers/dns_naming"

	"verif/harness/gen"
	"verif/harness/mon"
	"verif/harness/refdec"
	"verif/harness/wk"
)

func init() { register("C17", runC17) }

// randName returns a name of nl labels with total length <= maxLen.
func randName(r *rand.Rand) string {
	const alpha = "abcdefghijklmnopqrstuvwxyzABCDEFGHIJKLMNOPQRSTUVWXYZ0123456789-_"
	var labels []string
	total := 0
	nl := []int{1, 2, 3, 4, 6, 10, 40, 127}[r.Intn(8)]
	for i := 0; i < nl; i++ {
		l := []int{1, 2, 5, 12, 63}[r.Intn(5)]
		if nl > 10 {
			l = 1
		}
		if total+l+1 > 235 {
			break
		}
		b := make([]byte, l)
		for k := range b {
			b[k] = alpha[r.Intn(len(alpha))]
		}
		labels = append(labels, string(b))
		total += l + 1
	}
	return strings.Join(labels, ".")
}

// exactName returns a name of exactly n characters made of labels of up to 63.
func exactName(r *rand.Rand, n int) string {
	const alpha = "abcdefghijklmnopqrstuvwxyz0123456789"
	var labels []string
	for left := n; left > 0; {
		k := 1 + r.Intn(63)
		if k > left {
			k = left
		}
		if left-k == 1 {
			if k > 1 {
				k--
			} else {
				k = 2
			}
		}
		b := make([]byte, k)
		for i := range b {
			b[i] = alpha[r.Intn(len(alpha))]
		}
		labels = append(labels, string(b))
		left -= k + 1
	}
	return strings.Join(labels, ".")
}

type dnsTruth struct {
	q      string
	a      map[netip.Addr]string // addr -> owner (first occurrence)
	aaaa   map[netip.Addr]string
	cname  map[string]string       // owner -> target (first occurrence)
	ptr    map[string]netip.Addr   // target -> ip (first occurrence)
	nAns   int
}

func sortedKeys[V any](m map[string]V) []string {
	k := make([]string, 0, len(m))
	for x := range m {
		k = append(k, x)
	}
	sort.Strings(k)
	return k
}

type c17 struct {
	gen int
	c     *wk.Ctx
	e     gen.Env
	s     *packet.Session
	h     *dns_naming.DNSHandler
	n     int
	idx   int64
	macNo int
	rx    *rxBuf
	// mDNS duplicate suppression: what was sent to the current handler
	lastMDNSMAC refdec.MAC
	lastMDNSID  uint16
	mdnsSeen    map[string]bool
}

func (t *c17) fresh() {
	if t.s != nil {
		go t.s.Close()
	}
	var err error
	if t.s, err = mon.NewSession(mon.NewRecorder(1), mon.DefaultNIC(), 0, 0, 0); err != nil {
		panic("HARNESS BUG: " + err.Error())
	}
	t.h = dns_naming.VerifNew(t.s)
	t.n = 0
	// every second handler lives with the library's loggers and the naming handlers' debug switch on: what is logged about a
	// message is computed from the message too
	t.gen++
	setLogLevels(t.gen%2 == 0)
	t.lastMDNSMAC, t.mdnsSeen = refdec.MAC{}, nil
}

func (t *c17) frame(sp, dp uint16, payload []byte, mac refdec.MAC) (packet.Frame, []byte, error) {
	b := refdec.Ether(t.e.HostMAC, mac, 0x0800, 0, refdec.IP4(refdec.IP4Hdr{TTL: 64, Proto: 17, Src: t.e.LANIP(rand.New(rand.NewSource(t.idx))), Dst: t.e.HostIP}, refdec.UDP(sp, dp, payload)))
	if t.rx == nil {
		t.rx = newRx()
	}
	f, err := t.s.Parse(t.rx.load(b)) // delivered in the read loop's receive buffer, overwritten after the handler returns
	return f, b, err
}

// dnsCase builds a well-formed response with both builders and compares DNSFind with the ground truth.
func (t *c17) dnsCase(r *rand.Rand) {
	c := t.c
	// the handler merges answers per question name: keep question names unique within a handler's life
	truth := dnsTruth{q: fmt.Sprintf("q%d.", t.idx) + randName(r), a: map[netip.Addr]string{}, aaaa: map[netip.Addr]string{}, cname: map[string]string{}, ptr: map[string]netip.Addr{}}
	names := []string{truth.q, randName(r), randName(r)}
	if r.Intn(6) == 0 {
		names[1+r.Intn(2)] = exactName(r, 253-r.Intn(3)) // at and just below the RFC 1035 limit
		c.Obs("dns_names_near_limit", 1)
	}
	m := refdec.NewDNSMsg(uint16(r.Intn(65536)), 0x8180)
	m.Q = []refdec.DNSQ{{Name: truth.q, Type: 1, Class: 1}}
	nrec := 1 + r.Intn(6)
	// one message in eight is a large response (many records, long names that first appear late in the message), so that
	// compression pointers target offsets beyond the first kilobyte
	large := r.Intn(8) == 0
	if large {
		nrec = 14 + r.Intn(16)
		for k := 0; k < 5; k++ {
			names = append(names, exactName(r, 50+r.Intn(60)))
		}
	}
	for i := 0; i < nrec; i++ {
		owner := names[r.Intn(len(names))]
		if large {
			owner = names[r.Intn(min(len(names), 2+i/3))] // later names are introduced late and then referenced
		}
		switch r.Intn(7) {
		case 0, 1:
			a, _ := t.e.IP4(r)
			m.An = append(m.An, refdec.DNSRR{Name: owner, Type: refdec.TypeA, Class: 1, TTL: r.Uint32(), Addr: a})
			if _, ok := truth.a[a]; !ok {
				truth.a[a] = owner
			}
		case 2:
			a, _ := t.e.IP6(r)
			m.An = append(m.An, refdec.DNSRR{Name: owner, Type: refdec.TypeAAAA, Class: 1, TTL: r.Uint32(), Addr: a})
			if _, ok := truth.aaaa[a]; !ok {
				truth.aaaa[a] = owner
			}
		case 3:
			tg := names[r.Intn(len(names))]
			m.An = append(m.An, refdec.DNSRR{Name: owner, Type: refdec.TypeCNAME, Class: 1, TTL: r.Uint32(), Target: tg})
			if _, ok := truth.cname[owner]; !ok {
				truth.cname[owner] = tg
			}
		case 4:
			ip := netip.AddrFrom4([4]byte{byte(r.Intn(256)), byte(r.Intn(256)), byte(r.Intn(256)), byte(r.Intn(256))})
			x := ip.As4()
			tg := names[r.Intn(len(names))]
			m.An = append(m.An, refdec.DNSRR{Name: fmt.Sprintf("%d.%d.%d.%d.in-addr.arpa", x[3], x[2], x[1], x[0]), Type: refdec.TypePTR, Class: 1, TTL: r.Uint32(), Target: tg})
			if _, ok := truth.ptr[tg]; !ok {
				truth.ptr[tg] = ip
			}
		case 5:
			m.An = append(m.An, refdec.DNSRR{Name: owner, Type: refdec.TypeMX, Class: 1, TTL: 5, RData: append([]byte{0, 10}, wireName("mx.example.com")...)})
		default:
			m.An = append(m.An, refdec.DNSRR{Name: owner, Type: refdec.TypeTXT, Class: 1, TTL: 5, RData: []byte{3, 'a', '=', 'b'}})
		}
	}
	if large {
		// keep the message inside one Ethernet frame: drop records from the end until it fits
		for len((&refdec.DNSBuilder{Compress: true}).Build(m)) > 1400 && len(m.An) > 1 {
			m.An = m.An[:len(m.An)-1]
		}
		truth.a, truth.aaaa, truth.cname, truth.ptr = map[netip.Addr]string{}, map[netip.Addr]string{}, map[string]string{}, map[string]netip.Addr{}
		for _, rr := range m.An {
			switch rr.Type {
			case refdec.TypeA:
				if _, ok := truth.a[rr.Addr]; !ok {
					truth.a[rr.Addr] = rr.Name
				}
			case refdec.TypeAAAA:
				if _, ok := truth.aaaa[rr.Addr]; !ok {
					truth.aaaa[rr.Addr] = rr.Name
				}
			case refdec.TypeCNAME:
				if _, ok := truth.cname[rr.Name]; !ok {
					truth.cname[rr.Name] = rr.Target
				}
			case refdec.TypePTR:
				if _, ok := truth.ptr[rr.Target]; !ok {
					var x [4]int
					fmt.Sscanf(rr.Name, "%d.%d.%d.%d.in-addr.arpa", &x[3], &x[2], &x[1], &x[0])
					truth.ptr[rr.Target] = netip.AddrFrom4([4]byte{byte(x[0]), byte(x[1]), byte(x[2]), byte(x[3])})
				}
			}
		}
	}
	truth.nAns = len(m.An)
	// records in the other sections must not be stored (and must not disturb the answers)
	if r.Intn(3) == 0 {
		a, _ := t.e.IP4(r)
		m.Ns = append(m.Ns, refdec.DNSRR{Name: "ns.example.net", Type: refdec.TypeNS, Class: 1, TTL: 9, Target: "a.ns.example.net"})
		m.Ar = append(m.Ar, refdec.DNSRR{Name: "a.ns.example.net", Type: refdec.TypeA, Class: 1, TTL: 9, Addr: a})
	}
	builder := r.Intn(3)
	if large {
		builder = 1 + r.Intn(2) // the uncompressed form would not fit the frame
	}
	var wire []byte
	switch builder {
	case 0:
		wire = (&refdec.DNSBuilder{Compress: false}).Build(m)
	case 1:
		wire = (&refdec.DNSBuilder{Compress: true}).Build(m)
	default:
		// third implementation: x/net builder (compression on)
		var xm dnsmessage.Message
		if err := xm.Unpack((&refdec.DNSBuilder{}).Build(m)); err != nil {
			panic("HARNESS BUG: x/net cannot unpack refdec message: " + err.Error())
		}
		var err error
		if wire, err = xm.Pack(); err != nil {
			panic("HARNESS BUG: x/net pack: " + err.Error())
		}
	}
	if back, err := refdec.ParseDNS(wire); err != nil || len(back.An) != truth.nAns {
		panic(fmt.Sprintf("HARNESS BUG: reference parser rejects the generated message: %v", err))
	}
	cs := func() any {
		return map[string]any{"index": t.idx, "message_hex": wk.Hex(wire), "builder": []string{"refdec", "refdec+compression", "x/net"}[builder], "question": truth.q}
	}
	frame, _, err := t.frame(53, uint16(1024+r.Intn(60000)), wire, t.e.RouterMAC)
	if err != nil {
		return
	}
	if len(wire) > 1024 {
		c.Obs("dns_messages_over_1k", 1)
		if far := farPointers(wire); far > 0 {
			c.Obs("dns_compression_pointers_beyond_1k", int64(far))
		}
	}
	var perr error
	if pi := c.Guard("C08", cs, func() { _, perr = t.h.ProcessDNS(frame); t.rx.scribble() }); pi != nil {
		return
	}
	if perr != nil {
		c.Viol("dns:wellformed-rejected", "ProcessDNS rejects a well-formed message: "+perr.Error(), cs())
		return
	}
	ent := t.h.DNSFind(truth.q)
	hasStorable := len(truth.a)+len(truth.aaaa)+len(truth.cname)+len(truth.ptr) > 0
	if !hasStorable {
		c.Class("dns:nothing-storable")
		return
	}
	if ent.Name != truth.q {
		c.Viol("dns:question-name", fmt.Sprintf("DNSFind(%q).Name = %q", truth.q, ent.Name), cs())
		return
	}
	fail := func(what, detail string) { c.Viol("dns:"+what, detail, cs()) }
	if len(ent.IP4Records) != len(truth.a) {
		fail("A-set", fmt.Sprintf("stored %d A records, message has %d distinct", len(ent.IP4Records), len(truth.a)))
		return
	}
	for ip, owner := range truth.a {
		if rr, ok := ent.IP4Records[ip]; !ok || rr.Name != owner || rr.IP != ip {
			fail("A-record", fmt.Sprintf("A %v owner %q stored as %+v (present=%v)", ip, owner, rr, ok))
			return
		}
	}
	if len(ent.IP6Records) != len(truth.aaaa) {
		fail("AAAA-set", fmt.Sprintf("stored %d AAAA records, message has %d distinct", len(ent.IP6Records), len(truth.aaaa)))
		return
	}
	for ip, owner := range truth.aaaa {
		if rr, ok := ent.IP6Records[ip]; !ok || rr.Name != owner || rr.IP != ip {
			fail("AAAA-record", fmt.Sprintf("AAAA %v owner %q stored as %+v (present=%v)", ip, owner, rr, ok))
			return
		}
	}
	if len(ent.CNameRecords) != len(truth.cname) {
		fail("CNAME-set", fmt.Sprintf("stored %d CNAME records, message has %d distinct owners", len(ent.CNameRecords), len(truth.cname)))
		return
	}
	for owner, tg := range truth.cname {
		if rr, ok := ent.CNameRecords[owner]; !ok || rr.CName != tg || rr.Name != owner {
			fail("CNAME-record", fmt.Sprintf("CNAME %q -> %q stored as %+v (present=%v)", owner, tg, rr, ok))
			return
		}
	}
	if len(ent.PTRRecords) != len(truth.ptr) {
		fail("PTR-set", fmt.Sprintf("stored %d PTR records, message has %d distinct targets", len(ent.PTRRecords), len(truth.ptr)))
		return
	}
	for tg, ip := range truth.ptr {
		if rr, ok := ent.PTRRecords[tg]; !ok || rr.IP != ip || rr.Name != tg {
			fail("PTR-record", fmt.Sprintf("PTR -> %q ip %v stored as %+v (present=%v)", tg, ip, rr, ok))
			return
		}
	}
	// the read accessors of the stored entry and of the table agree with the records
	set := func(as []netip.Addr) string {
		x := make([]string, len(as))
		for i, a := range as {
			x[i] = a.String()
		}
		sort.Strings(x)
		return strings.Join(x, ",")
	}
	var a4, a6 []netip.Addr
	for ip := range truth.a {
		a4 = append(a4, ip)
		if !t.h.DNSExist(ip) {
			fail("DNSExist", fmt.Sprintf("DNSExist(%v) is false for a stored A record", ip))
			return
		}
	}
	for ip := range truth.aaaa {
		a6 = append(a6, ip)
	}
	var cn []string
	for _, tg := range truth.cname {
		cn = append(cn, tg)
	}
	gcn := ent.CNameList()
	sort.Strings(cn)
	sort.Strings(gcn)
	if set(ent.IP4List()) != set(a4) || set(ent.IP6List()) != set(a6) || strings.Join(gcn, ",") != strings.Join(cn, ",") {
		fail("list-accessors", fmt.Sprintf("IP4List/IP6List/CNameList = %v / %v / %v, the message has %v / %v / %v", ent.IP4List(), ent.IP6List(), gcn, a4, a6, cn))
		return
	}
	nl := strings.Count(truth.q, ".") + 1
	c.Class(fmt.Sprintf("dns builder=%d labels~%d a=%v aaaa=%v cname=%v ptr=%v", builder, nl/4*4, len(truth.a) > 0, len(truth.aaaa) > 0, len(truth.cname) > 0, len(truth.ptr) > 0))
	c.Obs("dns_records_compared", int64(len(truth.a)+len(truth.aaaa)+len(truth.cname)+len(truth.ptr)))
	if c.WantSample() && len(wire) < 120 {
		c.Sample(map[string]any{"message_hex": wk.Hex(wire), "question": truth.q, "A": len(truth.a), "AAAA": len(truth.aaaa), "CNAME": len(truth.cname), "PTR": len(truth.ptr)})
	}
}

// farPointers counts two-byte sequences that look like compression pointers to an offset of 1024 or more (0xc4.. and up): an
// upper bound, good enough to show the workload reaches them.
func farPointers(wire []byte) (n int) {
	for i := 1024; i+1 < len(wire); i++ {
		if wire[i] >= 0xc4 && int(wire[i]&0x3f)<<8|int(wire[i+1]) < i {
			n++
		}
	}
	return n
}

// illFormed: names with pointer loops, pointers beyond the message, over-long labels, truncated records must be rejected.
func (t *c17) illFormed(r *rand.Rand) {
	c := t.c
	kind := []string{"ptr-self", "ptr-beyond", "ptr-loop2", "label64", "label-overrun", "rdlen-long", "truncated-header", "truncated-name", "count-high"}[r.Intn(9)]
	a, _ := t.e.IP4(r)
	m := refdec.NewDNSMsg(uint16(r.Intn(65536)), 0x8180)
	q := randName(r)
	m.Q = []refdec.DNSQ{{Name: q, Type: 1, Class: 1}}
	good := refdec.DNSRR{Name: q, Type: refdec.TypeA, Class: 1, TTL: 1, Addr: a}
	bld := refdec.DNSBuilder{}
	var wire []byte
	switch kind {
	case "ptr-self":
		off := 12 + len(wireName(q)) + 4
		m.An = []refdec.DNSRR{{RawName: []byte{0xc0 | byte(off>>8), byte(off)}, Type: refdec.TypeA, Class: 1, TTL: 1, Addr: a}}
		wire = bld.Build(m)
	case "ptr-beyond":
		m.An = []refdec.DNSRR{{RawName: []byte{1, 'x', 0xff, 0xff}, Type: refdec.TypeA, Class: 1, TTL: 1, Addr: a}}
		wire = bld.Build(m)
	case "ptr-loop2":
		off := 12 + len(wireName(q)) + 4
		// name A = "x" + pointer to B ; B (in rdata of a CNAME) = pointer to A
		m.An = []refdec.DNSRR{{RawName: []byte{1, 'x', 0xc0 | byte((off+14)>>8), byte(off + 14)}, Type: refdec.TypeCNAME, Class: 1, TTL: 1, TargetRaw: []byte{0xc0 | byte(off>>8), byte(off)}}}
		wire = bld.Build(m)
	case "label64":
		m.An = []refdec.DNSRR{{RawName: append(append([]byte{64 + byte(r.Intn(60))}, make([]byte, 70)...), 0), Type: refdec.TypeA, Class: 1, TTL: 1, Addr: a}}
		wire = bld.Build(m)
	case "label-overrun":
		m.An = []refdec.DNSRR{good}
		wire = bld.Build(m)
		wire = append(wire[:len(wire)-14-len(wireName(q))], 63, 'a', 'b') // a label that runs off the end
	case "rdlen-long":
		good.RDLenDelta = 1 + r.Intn(200)
		m.An = []refdec.DNSRR{good}
		wire = bld.Build(m)
	case "truncated-header":
		m.An = []refdec.DNSRR{good}
		wire = bld.Build(m)
		wire = wire[:len(wire)-4-1-r.Intn(9)]
	case "truncated-name":
		m.An = []refdec.DNSRR{good}
		wire = bld.Build(m)
		wire = wire[:len(wire)-14-1-r.Intn(len(wireName(q))-1)]
	case "count-high":
		m.An = []refdec.DNSRR{good}
		m.AN = 2 + r.Intn(100)
		wire = bld.Build(m)
	}
	if _, err := refdec.ParseDNS(wire); err == nil {
		panic("HARNESS BUG: the reference parser accepts the ill-formed message " + kind)
	}
	cs := func() any { return map[string]any{"index": t.idx, "message_hex": wk.Hex(wire), "ill_formed": kind} }
	frame, _, err := t.frame(53, 40000, wire, t.e.RouterMAC)
	if err != nil {
		return
	}
	var perr error
	if pi := c.Guard("C08", cs, func() { _, perr = t.h.ProcessDNS(frame); t.rx.scribble() }); pi != nil {
		return
	}
	if perr == nil {
		c.Viol("dns:illformed-accepted:"+kind, "ProcessDNS returned no error for an ill-formed message ("+kind+")", cs())
		return
	}
	c.Class("dns-illformed:" + kind)
	c.Obs("illformed_rejected", 1)
}

// mdnsCase: A/AAAA records in every section; ProcessMDNS must return exactly those names and addresses.
func (t *c17) mdnsCase(r *rand.Rand) {
	c := t.c
	host := randName(r)
	if len(host) > 200 {
		host = host[:200]
		host = strings.Trim(host, ".")
	}
	owner := host + ".local"
	// the handler suppresses a repeated (station, transaction id) for some minutes; every other message must be decoded. A
	// third of the messages come from the station of the previous one, with the byte-swapped id or the next one
	id := uint16(t.idx)
	reuse := t.lastMDNSMAC != (refdec.MAC{}) && r.Intn(3) == 0
	if reuse {
		id = t.lastMDNSID<<8 | t.lastMDNSID>>8
		if t.mdnsSeen[string(t.lastMDNSMAC[:])+string([]byte{byte(id >> 8), byte(id)})] {
			id = t.lastMDNSID + 1
		}
		if t.mdnsSeen[string(t.lastMDNSMAC[:])+string([]byte{byte(id >> 8), byte(id)})] {
			reuse = false
			id = uint16(t.idx)
		}
	}
	m := refdec.NewDNSMsg(id, 0x8400)
	type rec struct {
		name string
		ip   netip.Addr
	}
	var want4, want6 []rec
	add := func(sec int, rr refdec.DNSRR) {
		switch sec {
		case 0:
			m.An = append(m.An, rr)
		case 1:
			m.Ns = append(m.Ns, rr)
		default:
			m.Ar = append(m.Ar, rr)
		}
	}
	type txtRec struct {
		sec   int
		model string
	}
	var txtRecs []txtRec
	n := 1 + r.Intn(5)
	secs := make([]int, n)
	for i := range secs {
		secs[i] = r.Intn(3)
	}
	sort.Ints(secs)
	for _, sec := range secs {
		switch r.Intn(6) {
		case 0, 1:
			a, _ := t.e.IP4(r)
			add(sec, refdec.DNSRR{Name: owner, Type: refdec.TypeA, Class: 0x8001, TTL: 120, Addr: a})
			want4 = append(want4, rec{host, a})
		case 2:
			a, _ := t.e.IP6(r)
			add(sec, refdec.DNSRR{Name: owner, Type: refdec.TypeAAAA, Class: 0x8001, TTL: 120, Addr: a})
			want6 = append(want6, rec{host, a})
		case 3:
			add(sec, refdec.DNSRR{Name: "_svc._tcp.local", Type: refdec.TypePTR, Class: 1, TTL: 10, Target: "inst._svc._tcp.local"})
		case 4:
			add(sec, refdec.DNSRR{Name: owner, Type: refdec.TypeNSEC, Class: 0x8001, TTL: 120, RData: append(wireName(owner), 0, 4, 0x40, 0, 0, 8)})
		default:
			if r.Intn(2) == 0 {
				add(sec, refdec.DNSRR{Name: "inst._svc._tcp.local", Type: refdec.TypeTXT, Class: 1, TTL: 10, RData: []byte{1, 'a'}})
				break
			}
			// a DNS-SD TXT record (RFC 6763 6.4) of three to six strings: key=value pairs, boolean attributes without "=",
			// empty strings, and in most of them one of the keys the handler reads the device model from. The last TXT
			// record of a response that names a model decides the model of every entry the response yields
			var strs []string
			for k, nstr := 0, 2+r.Intn(4); k < nstr; k++ {
				strs = append(strs, []string{"Duplex", "Color", "", "osxvers=20", "a=b", "rp=ipp/print", "flags", "txtvers=1"}[r.Intn(8)])
			}
			mv := ""
			if r.Intn(4) != 0 {
				mv = []string{"MacBookPro14,1", "Chromecast Ultra", "J105aAP", "HP LaserJet 400", "x"}[r.Intn(5)]
				at := r.Intn(len(strs) + 1)
				strs = append(strs[:at], append([]string{[]string{"model", "ty", "DvTy", "md"}[r.Intn(4)] + "=" + mv}, strs[at:]...)...)
			} else {
				strs = append(strs, "vers=1")
			}
			var rd []byte
			for _, x := range strs {
				rd = append(append(rd, byte(len(x))), x...)
			}
			add(sec, refdec.DNSRR{Name: "inst._svc._tcp.local", Type: refdec.TypeTXT, Class: 1, TTL: 10, RData: rd})
			txtRecs = append(txtRecs, txtRec{sec, mv})
		}
	}
	// sections are decoded in order (the records were added in section order): the last TXT record with a model wins
	wantModel := ""
	for _, x := range txtRecs {
		if x.model != "" {
			wantModel = x.model
		}
	}
	compress := r.Intn(2) == 0
	wire := (&refdec.DNSBuilder{Compress: compress}).Build(m)
	if _, err := refdec.ParseDNS(wire); err != nil {
		panic("HARNESS BUG: reference parser rejects generated mdns message: " + err.Error())
	}
	t.macNo++
	mac := refdec.MAC{0x02, 0xbb, byte(t.macNo >> 24), byte(t.macNo >> 16), byte(t.macNo >> 8), byte(t.macNo)}
	if reuse {
		mac = t.lastMDNSMAC
		c.Obs("mdns_same_station_other_id", 1)
	}
	if t.mdnsSeen == nil {
		t.mdnsSeen = map[string]bool{}
	}
	t.mdnsSeen[string(mac[:])+string([]byte{byte(id >> 8), byte(id)})] = true
	t.lastMDNSMAC, t.lastMDNSID = mac, id
	cs := func() any {
		return map[string]any{"index": t.idx, "message_hex": wk.Hex(wire), "compressed": compress, "owner": owner}
	}
	frame, _, err := t.frame(5353, 5353, wire, mac)
	if err != nil {
		return
	}
	var v4, v6 []packet.IPNameEntry
	var perr error
	if pi := c.Guard("C08", cs, func() { v4, v6, perr = t.h.ProcessMDNS(frame) }); pi != nil {
		return
	}
	if perr != nil {
		c.Viol("mdns:wellformed-rejected", "ProcessMDNS rejects a well-formed response: "+perr.Error(), cs())
		return
	}
	cmp := func(fam string, got []packet.IPNameEntry, want []rec) bool {
		if len(got) != len(want) {
			c.Viol("mdns:"+fam+"-count", fmt.Sprintf("ProcessMDNS returned %d %s entries, the message carries %d", len(got), fam, len(want)), cs())
			return false
		}
		for i := range want {
			if got[i].NameEntry.Name != want[i].name || got[i].Addr.IP != want[i].ip || !bytes.Equal(got[i].Addr.MAC, mac[:]) {
				c.Viol("mdns:"+fam+"-entry", fmt.Sprintf("entry %d = {%q %v %v}, want {%q %v %v}", i, got[i].NameEntry.Name, got[i].Addr.IP, got[i].Addr.MAC, want[i].name, want[i].ip, mac), cs())
				return false
			}
			if got[i].NameEntry.Model != wantModel {
				c.Viol("mdns:"+fam+"-model", fmt.Sprintf("entry %d carries model %q, the TXT records of the response say %q", i, got[i].NameEntry.Model, wantModel), cs())
				return false
			}
			if wantModel != "" {
				c.Obs("mdns_entries_with_a_model_compared", 1)
			}
		}
		return true
	}
	if !cmp("A", v4, want4) || !cmp("AAAA", v6, want6) {
		return
	}
	c.Class(fmt.Sprintf("mdns compressed=%v sections=%v a=%v aaaa=%v", compress, secs[len(secs)-1], len(want4) > 0, len(want6) > 0))
	c.Obs("mdns_entries_compared", int64(len(want4)+len(want6)))
}

// nbnsCase: node status responses; the returned name is the first unique (non-group) name.
func (t *c17) nbnsCase(r *rand.Rand) {
	c := t.c
	nn := 1 + r.Intn(5)
	var names []refdec.NBNodeName
	want := ""
	for i := 0; i < nn; i++ {
		nm := []string{"WORKGROUP", "LAPTOP-7", "DESKTOP-ABCDEF", "MSHOME", "PRINTER", "X"}[r.Intn(6)] + fmt.Sprint(i)
		fl := uint16(0x0400)
		group := r.Intn(2) == 0
		if group {
			fl |= 0x8000
		}
		names = append(names, refdec.NBNodeName{Name: refdec.NBName(nm, []byte{0, 0x20, 0x03}[r.Intn(3)]), Flags: fl})
		if !group && want == "" {
			want = nm
		}
	}
	raw := refdec.EncodeNBName(refdec.NBName("*", 0))
	m := refdec.NewDNSMsg(uint16(r.Intn(65536)), 0x8400)
	m.An = []refdec.DNSRR{{RawName: raw, Type: refdec.TypeNBSTAT, Class: 1, RData: refdec.NBStatRData(names, 46)}}
	if r.Intn(3) == 0 {
		// the name array spread over two or three node status records (one of them may hold no name at all, or group names
		// only): the answer is still the first unique name of the response
		m.An = nil
		cut1 := r.Intn(len(names) + 1)
		cut2 := cut1 + r.Intn(len(names)-cut1+1)
		for _, part := range [][]refdec.NBNodeName{names[:cut1], names[cut1:cut2], names[cut2:]} {
			if len(part) > 0 || r.Intn(2) == 0 {
				m.An = append(m.An, refdec.DNSRR{RawName: raw, Type: refdec.TypeNBSTAT, Class: 1, RData: refdec.NBStatRData(part, 46)})
			}
		}
		if len(m.An) > 1 {
			c.Obs("nbns_responses_with_several_status_records", 1)
		}
	}
	wire := (&refdec.DNSBuilder{}).Build(m)
	cs := func() any {
		var ns []string
		for _, n := range names {
			ns = append(ns, fmt.Sprintf("%q group=%v", strings.TrimRight(string(n.Name[:15]), " "), n.Flags&0x8000 != 0))
		}
		return map[string]any{"index": t.idx, "message_hex": wk.Hex(wire), "names": ns}
	}
	frame, _, err := t.frame(137, 137, wire, t.e.Clients[0])
	if err != nil {
		return
	}
	var ne packet.NameEntry
	var perr error
	if pi := c.Guard("C08", cs, func() { ne, perr = t.h.ProcessNBNS(frame.Host, frame.Ether(), frame.Payload()) }); pi != nil {
		return
	}
	if perr != nil {
		c.Viol("nbns:wellformed-rejected", "ProcessNBNS rejects a well-formed node status response: "+perr.Error(), cs())
		return
	}
	// the library keeps the 16th byte (suffix) trimmed only of spaces/NULs: compare the 15 character name part
	got := ne.Name
	if len(got) > 0 && got[len(got)-1] < 0x21 {
		got = strings.TrimRight(got[:len(got)-1], " ")
	}
	if got != want {
		c.Viol("nbns:name", fmt.Sprintf("ProcessNBNS returned %q, the first unique name in the node status array is %q", ne.Name, want), cs())
		return
	}
	c.Class(fmt.Sprintf("nbns names=%d firstUniqueAt>0=%v", nn, want != "" && !strings.HasSuffix(want, "0")))
	c.Obs("nbns_names_compared", 1)
}

// mergeLaws checks NameEntry.Merge and Host.Update*Name against the three stated laws.
func (t *c17) mergeLaws(r *rand.Rand, exhaustive int) {
	c := t.c
	vals := []string{"", "a", "b"}
	mk := func(code int, typ string) packet.NameEntry {
		return packet.NameEntry{Type: typ, Name: vals[code%3], Model: vals[code/3%3], OS: vals[code/9%3], Manufacturer: vals[code/27%3]}
	}
	attrs := func(e packet.NameEntry) [4]string { return [4]string{e.Name, e.Model, e.OS, e.Manufacturer} }
	check := func(e, n packet.NameEntry) {
		c.Eval()
		out, mod := e.Merge(n)
		cs := map[string]any{"index": t.idx, "entry": fmt.Sprintf("%+v", attrs(e)), "merged_with": fmt.Sprintf("%+v", attrs(n)), "result": fmt.Sprintf("%+v", attrs(out)), "modified": mod}
		ea, na, oa := attrs(e), attrs(n), attrs(out)
		changed := false
		for i := 0; i < 4; i++ {
			want := ea[i]
			if na[i] != "" {
				want = na[i]
			}
			if ea[i] != "" && oa[i] == "" {
				c.Viol("merge:erased", "a known non-empty attribute was erased", cs)
				return
			}
			if oa[i] != want {
				c.Viol("merge:value", fmt.Sprintf("attribute %d = %q want %q", i, oa[i], want), cs)
				return
			}
			if oa[i] != ea[i] {
				changed = true
			}
		}
		if mod != changed {
			c.Viol("merge:modified-flag", fmt.Sprintf("modified=%v but attributes changed=%v", mod, changed), cs)
			return
		}
		out2, mod2 := out.Merge(n)
		if mod2 || attrs(out2) != oa {
			c.Viol("merge:idempotent", "merging the same entry twice changes the result or reports a change", cs)
			return
		}
		c.Class(fmt.Sprintf("merge changed=%v", changed))
	}
	if exhaustive >= 0 {
		for b := 0; b < 81; b++ {
			check(mk(exhaustive, "x"), mk(b, "y"))
		}
		return
	}
	// update sequences from the five sources on two tracked hosts of one MAC (its IPv4 and its link-local address): the
	// host level name and the MAC level name (the one notifications carry for most sources) are both followed
	hostA := t.s.FindIP(t.e.RouterIP)
	if hostA == nil {
		return
	}
	lla := netip.MustParseAddr("fe80::66")
	if f, err := t.s.Parse(refdec.Ether(refdec.MAC{0x33, 0x33, 0, 0, 0, 1}, t.e.RouterMAC, 0x86dd, 0, refdec.IP6(refdec.IP6Hdr{Next: 17, Hop: 64, Src: lla, Dst: netip.MustParseAddr("ff02::1"), PayloadLen: -1}, refdec.UDP(1234, 4321, nil)))); err == nil {
		t.s.Notify(f)
	}
	hostB := t.s.FindIP(lla)
	if hostB == nil || hostB.MACEntry != hostA.MACEntry {
		hostB = hostA
	}
	for k := 0; k < 12; k++ {
		host := hostA
		if r.Intn(2) == 0 {
			host = hostB
		}
		n := mk(r.Intn(81), []string{"dhcp4", "mdns", "ssdp", "llmnr", "nbns"}[r.Intn(5)])
		src := r.Intn(5)
		get := func() packet.NameEntry {
			host.MACEntry.Row.RLock()
			defer host.MACEntry.Row.RUnlock()
			return []packet.NameEntry{host.DHCP4Name, host.MDNSName, host.SSDPName, host.LLMNRName, host.NBNSName}[src]
		}
		getMAC := func() packet.NameEntry {
			host.MACEntry.Row.RLock()
			defer host.MACEntry.Row.RUnlock()
			e := host.MACEntry
			return []packet.NameEntry{e.DHCP4Name, e.MDNSName, e.SSDPName, e.LLMNRName, e.NBNSName}[src]
		}
		before := get()
		macBefore := getMAC()
		// clear the dirty flag through the documented path: Parse + Notify on a frame of this host
		fb := refdec.Ether(t.e.HostMAC, t.e.RouterMAC, 0x0800, 0, refdec.IP4(refdec.IP4Hdr{TTL: 64, Proto: 17, Src: t.e.RouterIP, Dst: t.e.HostIP}, refdec.UDP(1234, 4321, nil)))
		if f, err := t.s.Parse(fb); err == nil {
			t.s.Notify(f)
		}
		for len(t.s.C) > 0 {
			<-t.s.C
		}
		wasDirty := host.Dirty()
		[]func(packet.NameEntry){host.UpdateDHCP4Name, host.UpdateMDNSName, host.UpdateSSDPName, host.UpdateLLMNRName, host.UpdateNBNSName}[src](n)
		after := get()
		c.Eval()
		ba, aa, na := attrs(before), attrs(after), attrs(n)
		changed := false
		for i := 0; i < 4; i++ {
			want := ba[i]
			if na[i] != "" {
				want = na[i]
			}
			if aa[i] != want {
				c.Viol("merge:host-value", fmt.Sprintf("source %d attribute %d = %q want %q", src, i, aa[i], want), map[string]any{"index": t.idx})
				return
			}
			if aa[i] != ba[i] {
				changed = true
			}
		}
		// MAC level: merged with the host's name when the host's name changed, untouched otherwise
		ma, mb := attrs(getMAC()), attrs(macBefore)
		for i := 0; i < 4; i++ {
			want := mb[i]
			if changed && aa[i] != "" {
				want = aa[i]
			}
			if mb[i] != "" && ma[i] == "" {
				c.Viol("merge:mac-erased", fmt.Sprintf("source %d: MAC level attribute %d was %q and is empty after an update of one of the MAC's hosts", src, i, mb[i]), map[string]any{"index": t.idx, "update": fmt.Sprintf("%+v", n), "host": host.Addr.IP.String()})
				return
			}
			if ma[i] != want {
				c.Viol("merge:mac-value", fmt.Sprintf("source %d: MAC level attribute %d = %q want %q (before %q, host after %q)", src, i, ma[i], want, mb[i], aa[i]), map[string]any{"index": t.idx, "update": fmt.Sprintf("%+v", n), "host": host.Addr.IP.String()})
				return
			}
		}
		c.Obs("mac_level_merges_checked", 1)
		if changed && !host.Dirty() {
			c.Viol("merge:host-dirty-missing", "a name attribute changed but Dirty() is false", map[string]any{"index": t.idx, "source": src})
			return
		}
		if !changed && !wasDirty && host.Dirty() {
			c.Viol("merge:host-dirty-spurious", "nothing changed but Dirty() became true", map[string]any{"index": t.idx, "source": src})
			return
		}
		// idempotence seen from outside: the same update once more changes neither the values nor what is pending - a
		// change that has not been reported yet stays to be reported
		pending := host.Dirty()
		[]func(packet.NameEntry){host.UpdateDHCP4Name, host.UpdateMDNSName, host.UpdateSSDPName, host.UpdateLLMNRName, host.UpdateNBNSName}[src](n)
		if again := attrs(get()); again != aa {
			c.Viol("merge:host-idempotent", fmt.Sprintf("source %d: applying the same update again changed the host's entry from %v to %v", src, aa, again), map[string]any{"index": t.idx})
			return
		}
		if host.Dirty() != pending {
			c.Viol("merge:host-pending-changed", fmt.Sprintf("source %d: applying the same update again turned Dirty() from %v to %v", src, pending, host.Dirty()), map[string]any{"index": t.idx, "update": fmt.Sprintf("%+v", n)})
			return
		}
		c.Class(fmt.Sprintf("hostmerge src=%d changed=%v", src, changed))
	}
}

func runC17(c *wk.Ctx) {
	if c.Shard == 0 {
		if err := refdec.SelfTest(); err != nil {
			fmt.Println("SELFTEST FAILED:", err)
			panic("SELFTEST FAILED")
		}
	}
	t := &c17{c: c, e: gen.DefaultEnv()}
	t.fresh()
	// exhaustive merge algebra: (∅,a,b)^4 x same
	for a := 0; a < 81; a++ {
		t.idx++
		if c.Mine(t.idx) {
			c.Begin(t.idx, "Merge", nil)
			t.mergeLaws(nil, a)
		}
	}
	n := c.N(60_000, 3_000_000)
	for i := int64(0); i < n; i++ {
		t.idx++
		if !c.Mine(t.idx) {
			continue
		}
		if t.n++; t.n > 300 {
			t.fresh()
		}
		r := c.Rand("c17", i)
		c.Begin(t.idx, "dns_naming", nil)
		c.Eval()
		switch i % 8 {
		case 0, 1, 2:
			t.dnsCase(r)
		case 3:
			t.illFormed(r)
		case 4, 5:
			t.mdnsCase(r)
		case 6:
			t.nbnsCase(r)
		default:
			t.mergeLaws(r, -1)
		}
	}
}
