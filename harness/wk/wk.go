// Package wk is the worker side of the check driver protocol (DESIGN.md 2.4, 3).
package wk

import (
	"encoding/binary"
	"encoding/hex"
	"encoding/json"
	"fmt"
	"hash/fnv"
	"io"
	"math/rand"
	"os"
	"os/signal"
	"runtime"
	"strconv"
	"strings"
	"sync"
	"syscall"
	"time"
)

// Viol is one violation class observed by a worker.
type Viol struct {
	Prop   string `json:"prop"`
	Key    string `json:"key"`
	Count  int64  `json:"count"`
	Detail string `json:"detail"`
	Case   any    `json:"case"`
}

// Summary is what a worker hands to the driver.
type Summary struct {
	Prop     string           `json:"prop"`
	Shard    int              `json:"shard"`
	Evals    int64            `json:"evals"`
	Classes  map[string]int64 `json:"classes"`
	Obs      map[string]int64 `json:"obs"`
	Viols    []*Viol          `json:"viols"`
	Samples  []any            `json:"samples"`
	Inconcl  []string         `json:"inconclusive"`
	Done     bool             `json:"done"`
	LastCase int64            `json:"last_case"`
}

// Ctx is the per-worker context.
type Ctx struct {
	Prop    string
	Tier    string
	Seed    int64
	Shard   int
	NShards int
	Resume  int64 // skip cases with index <= Resume (set after a crash/hang)
	Only    int64 // if >=0 run only this case index (replay)
	Replay  string

	mu       sync.Mutex
	sum      Summary
	viols    map[string]*Viol
	outPath  string
	curF     *os.File
	curBuf   []byte
	lastSnap time.Time
	maxSamp  int
}

func envInt(name string, def int64) int64 {
	if v := os.Getenv(name); v != "" {
		if n, err := strconv.ParseInt(v, 10, 64); err == nil {
			return n
		}
	}
	return def
}

// New builds the context from the environment set by the driver.
func New() *Ctx {
	c := &Ctx{
		Prop:    os.Getenv("VERIF_PROP"),
		Tier:    os.Getenv("VERIF_TIER"),
		Seed:    envInt("VERIF_SEED", 1),
		Shard:   int(envInt("VERIF_SHARD", 0)),
		NShards: int(envInt("VERIF_NSHARDS", 1)),
		Resume:  envInt("VERIF_RESUME", -1),
		Only:    envInt("VERIF_ONLY", -1),
		Replay:  os.Getenv("VERIF_REPLAY"),
		outPath: os.Getenv("VERIF_OUT"),
		viols:   map[string]*Viol{},
		maxSamp: 6,
	}
	if c.Tier == "" {
		c.Tier = "quick"
	}
	if c.NShards < 1 {
		c.NShards = 1
	}
	c.sum.Prop = c.Prop
	c.sum.Shard = c.Shard
	c.sum.Classes = map[string]int64{}
	c.sum.Obs = map[string]int64{}
	c.sum.LastCase = -1
	if p := os.Getenv("VERIF_CUR"); p != "" {
		f, err := os.OpenFile(p, os.O_CREATE|os.O_RDWR, 0o644)
		if err == nil {
			c.curF = f
		}
	}
	// the session NIC monitor SIGTERMs its own process (DESIGN 2.1)
	signal.Ignore(syscall.SIGTERM)
	return c
}

// Quick reports whether this is the quick tier.
func (c *Ctx) Quick() bool { return c.Tier != "thorough" }

// N picks a size by tier.
func (c *Ctx) N(quick, thorough int64) int64 {
	if c.Quick() {
		return quick
	}
	return thorough
}

// Mine reports whether case idx belongs to this shard and is not skipped.
func (c *Ctx) Mine(idx int64) bool {
	if c.Only >= 0 {
		return idx == c.Only
	}
	if idx <= c.Resume {
		return false
	}
	return int(idx%int64(c.NShards)) == c.Shard
}

// Rand returns the deterministic PRNG of a case: depends only on seed, stream and index.
func (c *Ctx) Rand(stream string, idx int64) *rand.Rand {
	h := fnv.New64a()
	io.WriteString(h, stream)
	var b [16]byte
	binary.LittleEndian.PutUint64(b[:8], uint64(c.Seed))
	binary.LittleEndian.PutUint64(b[8:], uint64(idx))
	h.Write(b[:])
	return rand.New(rand.NewSource(int64(h.Sum64())))
}

// Begin records "about to run case idx of entry point entry on input" where the driver's
// watchdog can see it even if the process hangs or dies.
func (c *Ctx) Begin(idx int64, entry string, input []byte) {
	c.sum.LastCase = idx
	if c.curF == nil {
		return
	}
	if len(entry) > 60 {
		entry = entry[:60]
	}
	n := 8 + 1 + len(entry) + 4 + len(input)
	if cap(c.curBuf) < n {
		c.curBuf = make([]byte, n*2)
	}
	b := c.curBuf[:n]
	binary.LittleEndian.PutUint64(b, uint64(idx))
	b[8] = byte(len(entry))
	copy(b[9:], entry)
	binary.LittleEndian.PutUint32(b[9+len(entry):], uint32(len(input)))
	copy(b[13+len(entry):], input)
	c.curF.WriteAt(b, 0)
}

// Eval counts one evaluated case.
func (c *Ctx) Eval() {
	c.mu.Lock()
	c.sum.Evals++
	c.mu.Unlock()
	c.maybeSnap()
}

// Class counts a non-trivial case under its class key.
func (c *Ctx) Class(key string) {
	c.mu.Lock()
	c.sum.Classes[key]++
	c.mu.Unlock()
}

// Obs adds to an observation counter.
func (c *Ctx) Obs(k string, n int64) {
	c.mu.Lock()
	c.sum.Obs[k] += n
	c.mu.Unlock()
}

// ObsMax keeps the maximum.
func (c *Ctx) ObsMax(k string, n int64) {
	c.mu.Lock()
	if n > c.sum.Obs[k] {
		c.sum.Obs[k] = n
	}
	c.mu.Unlock()
}

// Sample keeps a few actual cases for the evidence file.
func (c *Ctx) Sample(v any) {
	c.mu.Lock()
	if len(c.sum.Samples) < c.maxSamp {
		c.sum.Samples = append(c.sum.Samples, v)
	}
	c.mu.Unlock()
}

// WantSample tells whether another sample is still wanted (avoid building them for nothing).
func (c *Ctx) WantSample() bool {
	c.mu.Lock()
	defer c.mu.Unlock()
	return len(c.sum.Samples) < c.maxSamp
}

// Inconclusive records an inconclusive case.
func (c *Ctx) Inconclusive(what string) {
	c.mu.Lock()
	if len(c.sum.Inconcl) < 50 {
		c.sum.Inconcl = append(c.sum.Inconcl, what)
	}
	c.sum.Obs["inconclusive"]++
	c.mu.Unlock()
}

// Viol records a violation of property prop ("" = the worker's own property).
func (c *Ctx) Viol(key, detail string, cs any) { c.ViolP(c.Prop, key, detail, cs) }

// ViolP records a violation for an explicit property (shared workloads).
func (c *Ctx) ViolP(prop, key, detail string, cs any) {
	c.mu.Lock()
	k := prop + "\x00" + key
	v := c.viols[k]
	if v == nil {
		if len(detail) > 4000 {
			detail = detail[:4000] + "…"
		}
		v = &Viol{Prop: prop, Key: key, Detail: detail, Case: cs}
		c.viols[k] = v
		c.sum.Viols = append(c.sum.Viols, v)
		v.Count++
		c.mu.Unlock()
		c.write(false) // a new kind of violation is on disk at once: the worker may hang or die right after it
		return
	}
	v.Count++
	c.mu.Unlock()
}

// Restart ends this worker process after the current case and asks the driver for a fresh one that resumes behind it: used
// when a recovered panic may have left process-global library state behind (a package level lock held by the panicking
// goroutine), which would make every following case hang.
func (c *Ctx) Restart() {
	c.write(false)
	os.Exit(86)
}

// Hex is a helper for case payloads.
func Hex(b []byte) string { return hex.EncodeToString(b) }

// PanicInfo describes a recovered panic.
type PanicInfo struct {
	Value string
	Frame string // innermost github.com/irai/packet frame (pkg.Func), "" if none
	Class string
	Stack string
}

// Key builds the violation key of a panic.
func (p *PanicInfo) Key() string {
	f := p.Frame
	if f == "" {
		f = "?"
	}
	return "panic:" + f + ":" + p.Class
}

const modPrefix = "github.com/irai/packet"

func classify(v any) string {
	s := fmt.Sprint(v)
	switch {
	case strings.Contains(s, "index out of range"):
		return "index"
	case strings.Contains(s, "slice bounds out of range"):
		return "slice-bounds"
	case strings.Contains(s, "nil pointer"):
		return "nil-deref"
	case strings.Contains(s, "nil map"):
		return "nil-map"
	case strings.Contains(s, "cannot convert slice"):
		return "slice-to-array"
	case strings.Contains(s, "closed channel"):
		return "closed-channel"
	case strings.Contains(s, "divide by zero"):
		return "div-zero"
	case strings.Contains(s, "makeslice"):
		return "makeslice"
	}
	return "explicit"
}

// Capture must be called from a deferred function with the value of recover().
func Capture(r any) *PanicInfo {
	pcs := make([]uintptr, 64)
	n := runtime.Callers(2, pcs)
	frames := runtime.CallersFrames(pcs[:n])
	info := &PanicInfo{Value: fmt.Sprint(r), Class: classify(r)}
	var sb strings.Builder
	for {
		fr, more := frames.Next()
		fmt.Fprintf(&sb, "%s\n\t%s:%d\n", fr.Function, shortFile(fr.File), fr.Line)
		if info.Frame == "" && strings.HasPrefix(fr.Function, modPrefix) {
			f := strings.TrimPrefix(fr.Function, modPrefix)
			f = strings.TrimPrefix(f, "/")
			f = strings.TrimPrefix(f, "handlers/")
			if strings.HasPrefix(f, ".") {
				f = "packet" + f
			}
			// strip closure suffixes such as .func1
			info.Frame = f
		}
		if !more {
			break
		}
	}
	info.Stack = sb.String()
	return info
}

func shortFile(f string) string {
	if i := strings.LastIndex(f, "/"); i >= 0 {
		if j := strings.LastIndex(f[:i], "/"); j >= 0 {
			return f[j+1:]
		}
	}
	return f
}

// Guard runs f, converting a panic into a violation "panic:<frame>:<class>".
// It returns the panic info (nil if f returned normally).
func (c *Ctx) Guard(prop string, cs func() any, f func()) (pi *PanicInfo) {
	defer func() {
		if r := recover(); r != nil {
			pi = Capture(r)
			var data any
			if cs != nil {
				data = cs()
			}
			c.ViolP(prop, pi.Key(), pi.Value+"\n"+pi.Stack, data)
		}
	}()
	f()
	return nil
}

func (c *Ctx) maybeSnap() {
	if c.outPath == "" {
		return
	}
	c.mu.Lock()
	due := time.Since(c.lastSnap) > 2*time.Second
	if due {
		c.lastSnap = time.Now()
	}
	c.mu.Unlock()
	if due {
		c.write(false)
	}
}

var writeMu sync.Mutex

func (c *Ctx) write(done bool) {
	writeMu.Lock()
	defer writeMu.Unlock()
	c.mu.Lock()
	c.sum.Done = done
	b, err := json.Marshal(&c.sum)
	c.mu.Unlock()
	if err != nil {
		fmt.Fprintln(os.Stderr, "wk: marshal:", err)
		b, _ = json.Marshal(map[string]any{"prop": c.Prop, "shard": c.Shard, "marshal_error": err.Error()})
	}
	if c.outPath == "" {
		os.Stdout.Write(append(b, '\n'))
		return
	}
	tmp := c.outPath + ".tmp"
	if os.WriteFile(tmp, b, 0o644) == nil {
		os.Rename(tmp, c.outPath)
	}
}

// Finish writes the final summary.
func (c *Ctx) Finish() { c.write(true) }
