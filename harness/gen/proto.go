// Package gen holds the seeded frame / message generators and mutators (DESIGN.md section 3).
// Everything is a pure function of the *rand.Rand it is handed.
package gen

import (
	"fmt"
	"math/rand"
	"net/netip"
	"strings"

	"verif/harness/refdec"
)

// Env is the LAN the frames are generated for.
type Env struct {
	HostMAC, RouterMAC refdec.MAC
	HostIP, RouterIP   netip.Addr
	LAN                netip.Prefix
	HostLLA            netip.Addr
	Clients            []refdec.MAC
}

// DefaultEnv matches mon.DefaultNIC.
func DefaultEnv() Env {
	return Env{
		HostMAC: refdec.MAC{0x02, 0x55, 0x55, 0x55, 0x55, 0x55}, RouterMAC: refdec.MAC{0x02, 0x66, 0x66, 0x66, 0x66, 0x66},
		HostIP: netip.MustParseAddr("192.168.0.129"), RouterIP: netip.MustParseAddr("192.168.0.1"),
		LAN: netip.MustParsePrefix("192.168.0.0/24"), HostLLA: netip.MustParseAddr("fe80::55:55ff:fe55:5555"),
		Clients: []refdec.MAC{{0x02, 0xaa, 0, 0, 0, 1}, {0x02, 0xaa, 0, 0, 0, 2}, {0x02, 0xaa, 0, 0, 0, 3}, {0x00, 0x17, 0xf2, 0, 0, 4}},
	}
}

func pick[T any](r *rand.Rand, xs ...T) T { return xs[r.Intn(len(xs))] }

// RandBytes returns n PRNG bytes.
func RandBytes(r *rand.Rand, n int) []byte {
	b := make([]byte, n)
	r.Read(b)
	return b
}

// LANIP returns an address inside the LAN (host part 2..250, never network/broadcast for /24).
func (e Env) LANIP(r *rand.Rand) netip.Addr {
	a := e.LAN.Addr().As4()
	hostBits := 32 - e.LAN.Bits()
	n := uint32(1)<<hostBits - 2
	v := uint32(1 + r.Intn(int(n)))
	base := uint32(a[0])<<24 | uint32(a[1])<<16 | uint32(a[2])<<8 | uint32(a[3])
	x := base | v
	return netip.AddrFrom4([4]byte{byte(x >> 24), byte(x >> 16), byte(x >> 8), byte(x)})
}

// IP4 picks an IPv4 address of some class.
func (e Env) IP4(r *rand.Rand) (netip.Addr, string) {
	switch r.Intn(10) {
	case 0:
		return netip.AddrFrom4([4]byte{}), "zero"
	case 1:
		return netip.AddrFrom4([4]byte{255, 255, 255, 255}), "bcast"
	case 2:
		return netip.AddrFrom4([4]byte{8, 8, byte(r.Intn(256)), byte(r.Intn(256))}), "offlan"
	case 3:
		return e.HostIP, "own"
	case 4:
		return e.RouterIP, "router"
	case 5:
		return netip.AddrFrom4([4]byte{224, 0, 0, byte(r.Intn(256))}), "mcast"
	case 6:
		return netip.AddrFrom4([4]byte{169, 254, byte(r.Intn(256)), byte(r.Intn(256))}), "linklocal"
	}
	return e.LANIP(r), "lan"
}

// IP6 picks an IPv6 address of some class.
func (e Env) IP6(r *rand.Rand) (netip.Addr, string) {
	var a [16]byte
	r.Read(a[8:])
	switch r.Intn(10) {
	case 8:
		// IPv4-mapped (::ffff:a.b.c.d), of a LAN address or of an arbitrary one: 128 bit addresses like any other on the wire
		x, _ := e.IP4(r)
		return netip.AddrFrom16(netip.AddrFrom4(x.As4()).As16()), "v4mapped"
	case 9:
		switch r.Intn(4) {
		case 0:
			return netip.IPv6Loopback(), "loopback"
		case 1:
			a[0], a[1] = 0x20, 0x02 // 6to4
			return netip.AddrFrom16(a), "6to4"
		case 2:
			return netip.MustParseAddr("ff05::1:3"), "site-multicast"
		}
		a = [16]byte{12: a[12], 13: a[13], 14: a[14], 15: a[15]} // IPv4-compatible (deprecated) ::a.b.c.d
		return netip.AddrFrom16(a), "v4compat"
	case 0:
		return netip.IPv6Unspecified(), "zero"
	case 1:
		return netip.MustParseAddr("ff02::1"), "allnodes"
	case 2:
		a[0], a[1], a[11], a[12] = 0xff, 0x02, 0x01, 0xff
		copy(a[2:11], make([]byte, 9))
		return netip.AddrFrom16(a), "solicited"
	case 3, 4:
		a[0], a[1] = 0x20, 0x01
		a[2], a[3] = 0x0d, 0xb8
		return netip.AddrFrom16(a), "gua"
	case 5:
		a[0] = 0xfd
		return netip.AddrFrom16(a), "ula"
	}
	a[0], a[1] = 0xfe, 0x80
	return netip.AddrFrom16(a), "lla"
}

// ---- ARP ----------------------------------------------------------------------------------------

// ARP returns an ARP message of the named kind from (sha, spa).
func ARP(r *rand.Rand, e Env, kind string, sha refdec.MAC, spa netip.Addr) []byte {
	a := refdec.ARPPkt{HType: 1, PType: 0x0800, HLen: 6, PLen: 4, Op: 1, SHA: sha, SPA: spa}
	tpa, _ := e.IP4(r)
	switch kind {
	case "request":
		a.TPA = tpa
		if r.Intn(2) == 0 {
			a.THA = refdec.MAC{0xff, 0xff, 0xff, 0xff, 0xff, 0xff}
		}
	case "request-router":
		a.TPA = e.RouterIP
	case "reply":
		a.Op = 2
		a.THA, a.TPA = e.HostMAC, e.HostIP
	case "probe":
		a.SPA = netip.AddrFrom4([4]byte{})
		a.TPA = tpa
	case "announce":
		a.TPA = spa
		a.THA = refdec.MAC{0xff, 0xff, 0xff, 0xff, 0xff, 0xff}
	case "gratuitous":
		a.Op = 2
		a.TPA = spa
		a.THA = refdec.MAC{0xff, 0xff, 0xff, 0xff, 0xff, 0xff}
	default: // odd
		a.Op = uint16(r.Intn(65536))
		a.HType, a.PType = uint16(r.Intn(3)), pick(r, uint16(0x0800), uint16(0x86dd), uint16(r.Intn(65536)))
		a.HLen, a.PLen = byte(r.Intn(8)), byte(r.Intn(6))
		a.TPA = tpa
	}
	return refdec.ARP(a)
}

var ARPKinds = []string{"request", "request-router", "reply", "probe", "announce", "gratuitous", "odd"}

// ---- DHCP ---------------------------------------------------------------------------------------

var DHCPKinds = []string{"discover", "request-selecting", "request-renew", "request-rebind", "request-reboot", "decline", "release", "inform", "offer", "ack", "nak", "notype", "badtype"}

// DHCP returns a DHCP message of the named kind for client mac.
func DHCP(r *rand.Rand, e Env, kind string, mac refdec.MAC) refdec.DHCPMsg {
	m := refdec.DHCPMsg{Op: 1, HType: 1, HLen: 6}
	r.Read(m.XID[:])
	copy(m.CHAddr[:], mac[:])
	lanip := e.LANIP(r)
	opt := func(c byte, d ...byte) { m.Options = append(m.Options, refdec.DHCPOpt{Code: c, Data: d}) }
	ip4 := func(a netip.Addr) []byte { x := a.As4(); return x[:] }
	server := pick(r, e.HostIP, e.RouterIP, netip.AddrFrom4([4]byte{10, 0, 0, 1}))
	if r.Intn(3) == 0 {
		opt(61, append([]byte{1}, mac[:]...)...)
	}
	if r.Intn(2) == 0 {
		opt(12, []byte(pick(r, "laptop", "iPhone-de-x", "a", strings.Repeat("n", 40)))...)
	}
	switch kind {
	case "discover":
		opt(53, 1)
		if r.Intn(2) == 0 {
			a, _ := e.IP4(r)
			opt(50, ip4(a)...)
		}
	case "request-selecting":
		opt(53, 3)
		opt(54, ip4(server)...)
		opt(50, ip4(lanip)...)
	case "request-renew":
		opt(53, 3)
		m.CI = lanip
	case "request-rebind":
		opt(53, 3)
		m.CI = lanip
		m.Flags = 0x8000
	case "request-reboot":
		opt(53, 3)
		opt(50, ip4(lanip)...)
	case "decline":
		opt(53, 4)
		opt(54, ip4(server)...)
		opt(50, ip4(lanip)...)
	case "release":
		opt(53, 7)
		opt(54, ip4(server)...)
		m.CI = lanip
	case "inform":
		opt(53, 8)
		m.CI = lanip
	case "offer", "ack", "nak":
		m.Op = 2
		opt(53, map[string]byte{"offer": 2, "ack": 5, "nak": 6}[kind])
		opt(54, ip4(server)...)
		m.YI = lanip
		opt(51, 0, 0, 14, 16)
		opt(1, 255, 255, 255, 0)
		opt(3, ip4(e.RouterIP)...)
	case "notype":
	case "badtype":
		opt(53, byte(r.Intn(256)))
		if r.Intn(2) == 0 {
			m.Options[len(m.Options)-1].Data = []byte{1, 2}
		}
	}
	if r.Intn(2) == 0 {
		opt(55, 1, 121, 3, 6, 15, 119, 252)
	}
	if r.Intn(4) == 0 {
		m.Options = append([]refdec.DHCPOpt{{Code: 0}}, m.Options...) // leading pad
	}
	if r.Intn(4) == 0 {
		m.Flags |= 0x8000
	}
	if r.Intn(10) == 0 {
		// options as long as the one byte length allows: vendor information, class identifiers, a long request list and an
		// (unusual, legal) zero length client identifier
		for _, c := range []byte{43, 60, 77, 55} {
			if r.Intn(2) == 0 {
				opt(c, RandBytes(r, 200+r.Intn(56))...)
			}
		}
		if r.Intn(4) == 0 {
			opt(61)
		}
	}
	return m
}

// ---- ICMP ---------------------------------------------------------------------------------------

var ICMP4Kinds = []string{"echo", "echoreply", "unreach-udp", "unreach-tcp", "unreach-short", "redirect", "timex", "other"}

// ICMP4Msg builds an ICMPv4 message.
func ICMP4Msg(r *rand.Rand, e Env, kind string) []byte {
	var rest [4]byte
	r.Read(rest[:])
	data := RandBytes(r, r.Intn(48))
	inner := func(proto uint8, l4 []byte) []byte {
		src, _ := e.IP4(r)
		dst, _ := e.IP4(r)
		return refdec.IP4(refdec.IP4Hdr{TTL: 64, Proto: proto, Src: src, Dst: dst}, l4)
	}
	switch kind {
	case "echo":
		return refdec.ICMP4(8, 0, rest, data)
	case "echoreply":
		return refdec.ICMP4(0, 0, rest, data)
	case "unreach-udp":
		return refdec.ICMP4(3, byte(r.Intn(6)), [4]byte{}, inner(17, refdec.UDP(1234, 53, data)[:8]))
	case "unreach-tcp":
		return refdec.ICMP4(3, 3, [4]byte{}, inner(6, refdec.TCP(refdec.TCPHdr{Src: 1, Dst: 80}, nil)))
	case "unreach-short":
		return refdec.ICMP4(3, 1, [4]byte{}, RandBytes(r, r.Intn(28)))
	case "redirect":
		gw := e.LANIP(r).As4()
		return refdec.ICMP4(5, byte(r.Intn(4)), gw, inner(17, refdec.UDP(1, 2, nil)))
	case "timex":
		return refdec.ICMP4(11, 0, [4]byte{}, inner(17, refdec.UDP(1, 2, nil)))
	}
	return refdec.ICMP4(byte(r.Intn(256)), byte(r.Intn(256)), rest, data)
}

var ICMP6Kinds = []string{"echo", "echoreply", "rs", "ra", "ra-min", "ns", "ns-dad", "na", "na-nolla", "redirect", "mld-query", "mld-report", "mld2-report", "unreach", "other"}

// RAOpts builds a random RA option list (each single-valued option at most once).
func RAOpts(r *rand.Rand, mac refdec.MAC) []refdec.NDPOpt {
	var o []refdec.NDPOpt
	if r.Intn(4) != 0 {
		o = append(o, refdec.OptLLA(refdec.OptSLLA, mac))
	}
	if r.Intn(5) == 0 {
		// a target link-layer address option has no meaning in an advertisement (RFC 4861 4.2: options that are not defined
		// for a message are ignored): it must not be taken for anything else
		o = append(o, refdec.OptLLA(refdec.OptTLLA, refdec.MAC{0x02, 0x77, 0x77, byte(r.Intn(256)), byte(r.Intn(256)), 0x02}))
	}
	for i := r.Intn(4); i > 0; i-- {
		var a [16]byte
		a[0], a[1], a[2], a[3] = 0x20, 0x01, 0x0d, 0xb8
		a[5] = byte(r.Intn(256))
		plen := uint8(64)
		if r.Intn(3) == 0 {
			// other prefix lengths, the boundaries included; with bits set beyond the prefix (receivers ignore them)
			plen = pick(r, uint8(0), uint8(1), uint8(48), uint8(56), uint8(63), uint8(65), uint8(96), uint8(127), uint8(128))
			r.Read(a[8:])
		}
		o = append(o, refdec.OptPrefixInfo(refdec.PrefixInfo{Len: plen, OnLink: r.Intn(2) == 0, Auto: r.Intn(2) == 0,
			Valid: r.Uint32(), Preferred: r.Uint32(), Prefix: netip.AddrFrom16(a)}))
	}
	if r.Intn(2) == 0 {
		o = append(o, refdec.OptMTUv(uint32(1280+r.Intn(8000))))
	}
	if r.Intn(8) == 0 {
		// an MTU option of the wrong length (two units instead of one) with a plausible value where the MTU would be: to be
		// ignored, also when a valid one came before it
		b := make([]byte, 14)
		b[2], b[3], b[4], b[5] = 0, 0, 0x23, 0x28 // 9000
		o = append(o, refdec.NDPOpt{Type: refdec.OptMTU, Len: 2, Body: b})
	}
	if r.Intn(2) == 0 {
		x := refdec.RDNSS{Lifetime: r.Uint32()}
		n := 1 + r.Intn(3)
		if r.Intn(6) == 0 {
			n = 15 + r.Intn(10) // 16 servers and more make an option of 256 bytes and more (length field >= 32 units)
		}
		for i := n; i > 0; i-- {
			var a [16]byte
			r.Read(a[:])
			a[0] = 0x20
			x.Servers = append(x.Servers, netip.AddrFrom16(a))
		}
		o = append(o, refdec.OptRDNSSv(x))
	}
	if r.Intn(2) == 0 {
		x := refdec.DNSSL{Lifetime: r.Uint32()}
		for i := 1 + r.Intn(3); i > 0; i-- {
			x.Domains = append(x.Domains, pick(r, "lan", "home.arpa", "example.com", "a.b.c.d.example.org", "x"))
		}
		o = append(o, refdec.OptDNSSLv(x))
	}
	// route information options (RFC 4191): none, one, or several in one advertisement (a specific route and the default route)
	for k := pick(r, 0, 0, 1, 1, 2, 3); k > 0; k-- {
		pl := pick(r, uint8(0), uint8(0), uint8(7), uint8(48), uint8(64), uint8(96), uint8(128))
		var a [16]byte
		if pl > 0 {
			a[0], a[1] = 0x20, 0x01
		}
		for i := 2; i < int(pl)/8; i++ {
			a[i] = byte(r.Intn(256))
		}
		o = append(o, refdec.OptRouteInfo(refdec.RouteInfo{Len: pl, Pref: pick(r, uint8(0), uint8(1), uint8(3), uint8(0), uint8(1), uint8(3), uint8(2)), Lifetime: r.Uint32(), Prefix: netip.AddrFrom16(a)}))
	}
	if r.Intn(4) == 0 {
		k := r.Intn(3)
		if r.Intn(4) == 0 {
			k = 28 + r.Intn(30) // long unknown option around and beyond the 256 byte mark
		}
		o = append(o, refdec.NDPOpt{Type: pick(r, byte(14), byte(38), byte(200)), Len: -1, Body: RandBytes(r, 6+8*k)})
	}
	r.Shuffle(len(o), func(i, j int) { o[i], o[j] = o[j], o[i] })
	return o
}

// ICMP6Msg builds an ICMPv6 message (needs the IP addresses for the checksum).
func ICMP6Msg(r *rand.Rand, e Env, kind string, src, dst netip.Addr, mac refdec.MAC) []byte {
	data := RandBytes(r, r.Intn(48))
	tgt, _ := e.IP6(r)
	switch kind {
	case "echo":
		return refdec.ICMP6(src, dst, 128, 0, refdec.EchoBody(uint16(r.Intn(65536)), 1, data))
	case "echoreply":
		return refdec.ICMP6(src, dst, 129, 0, refdec.EchoBody(uint16(r.Intn(65536)), 1, data))
	case "rs":
		if r.Intn(2) == 0 {
			return refdec.ICMP6(src, dst, 133, 0, refdec.RSBody())
		}
		return refdec.ICMP6(src, dst, 133, 0, refdec.RSBody(refdec.OptLLA(refdec.OptSLLA, mac)))
	case "ra":
		ra := refdec.RA{HopLimit: byte(r.Intn(256)), Flags: byte(r.Intn(256)) &^ 0x10, Lifetime: uint16(r.Intn(65536)), Reachable: r.Uint32(), Retrans: r.Uint32(), Opts: RAOpts(r, mac)}
		return refdec.ICMP6(src, dst, 134, 0, ra.Body())
	case "ra-min":
		return refdec.ICMP6(src, dst, 134, 0, refdec.RA{HopLimit: 64}.Body())
	case "ns":
		return refdec.ICMP6(src, dst, 135, 0, refdec.NSBody(tgt, refdec.OptLLA(refdec.OptSLLA, mac)))
	case "ns-dad":
		return refdec.ICMP6(src, dst, 135, 0, refdec.NSBody(tgt))
	case "na":
		return refdec.ICMP6(src, dst, 136, 0, refdec.NABody(r.Intn(2) == 0, r.Intn(2) == 0, r.Intn(2) == 0, tgt, refdec.OptLLA(refdec.OptTLLA, mac)))
	case "na-nolla":
		return refdec.ICMP6(src, dst, 136, 0, refdec.NABody(false, false, true, tgt))
	case "redirect":
		if r.Intn(2) == 0 {
			return refdec.ICMP6(src, dst, 137, 0, refdec.RedirectBody(tgt, tgt))
		}
		return refdec.ICMP6(src, dst, 137, 0, refdec.RedirectBody(tgt, tgt, refdec.OptLLA(refdec.OptTLLA, mac)))
	case "mld-query":
		return refdec.ICMP6(src, dst, 130, 0, make([]byte, 20))
	case "mld-report":
		return refdec.ICMP6(src, dst, 131, 0, make([]byte, 20))
	case "mld2-report":
		return refdec.ICMP6(src, dst, 143, 0, make([]byte, 4+20*r.Intn(3)))
	case "unreach":
		return refdec.ICMP6(src, dst, 1, byte(r.Intn(7)), append(make([]byte, 4), data...))
	}
	return refdec.ICMP6(src, dst, byte(r.Intn(256)), byte(r.Intn(256)), data)
}

// ---- DNS / mDNS / NBNS --------------------------------------------------------------------------

var hostNames = []string{"www.example.com", "example.com", "cdn.a.b.example.com", "mail.example.org", "Test-iPad.local", "printer.local",
	"sonosB8E9372ACF56.local", "_services._dns-sd._udp.local", "_airplay._tcp.local", "_sleep-proxy._udp.local", "x", "a.b"}

func rrRandom(r *rand.Rand, e Env) refdec.DNSRR {
	n := pick(r, hostNames...)
	ttl := uint32(r.Intn(100000))
	switch r.Intn(10) {
	case 0, 1:
		a, _ := e.IP4(r)
		return refdec.DNSRR{Name: n, Type: refdec.TypeA, Class: 1, TTL: ttl, Addr: a}
	case 2:
		a, _ := e.IP6(r)
		return refdec.DNSRR{Name: n, Type: refdec.TypeAAAA, Class: 1, TTL: ttl, Addr: a}
	case 3:
		return refdec.DNSRR{Name: n, Type: refdec.TypeCNAME, Class: 1, TTL: ttl, Target: pick(r, hostNames...)}
	case 4:
		owner := fmt.Sprintf("%d.%d.168.192.in-addr.arpa", r.Intn(256), r.Intn(256))
		if r.Intn(3) == 0 {
			// reverse names of every shape a resolver may be asked about or a hostile peer may send: address literals of both
			// families in one label or spread over labels, with and without the arpa suffix, too few / too many / too large parts
			owner = pick(r, "::1.in-addr.arpa", "fe80::1.in-addr.arpa", "::1", "2001:db8::7", "::ffff:10.0.0.1.in-addr.arpa", "::.in-addr.arpa",
				"1.0.0.0.0.0.0.0.0.0.0.0.0.0.0.0.0.0.0.0.0.0.0.0.0.0.0.0.0.0.0.0.ip6.arpa", "b.a.9.8.ip6.arpa", "10.0.0.1", "1.2.3.in-addr.arpa",
				"1.2.3.4.5.in-addr.arpa", "300.1.1.1.in-addr.arpa", "in-addr.arpa", "1.1.1.1.in-addr.arpa.in-addr.arpa", "01.02.03.04.in-addr.arpa",
				"0x7f.1.in-addr.arpa", "1.2.3.4.IN-ADDR.ARPA", fmt.Sprintf("%x::%x.in-addr.arpa", r.Intn(65536), r.Intn(65536)))
		}
		return refdec.DNSRR{Name: owner, Type: refdec.TypePTR, Class: 1, TTL: ttl, Target: pick(r, hostNames...)}
	case 5:
		return refdec.DNSRR{Name: n, Type: refdec.TypePTR, Class: 1, TTL: ttl, Target: pick(r, hostNames...)}
	case 6:
		return refdec.DNSRR{Name: n, Type: refdec.TypeSRV, Class: 1, TTL: ttl, Target: pick(r, hostNames...)}
	case 7:
		txt := []byte{}
		strs := []string{"model=MacBookPro14,1", "osxvers=20", "ty=HP LaserJet", "md=Chromecast"}[:1+r.Intn(4)]
		if r.Intn(2) == 0 {
			// DNS-SD attributes recombined from the keys the handlers know and the forms RFC 6763 6.4 allows: key=value,
			// boolean key without '=', empty value, value containing '=', missing key, empty string
			strs = nil
			for k := r.Intn(7); k > 0; k-- {
				key := pick(r, "model", "ty", "DvTy", "md", "osxvers", "txtvers", "note", "")
				val := pick(r, "1", "MacBookPro14,1", "HP LaserJet", "a=b", "")
				switch r.Intn(5) {
				case 0:
					strs = append(strs, key) // boolean attribute
				case 1:
					strs = append(strs, key+"=")
				case 2:
					strs = append(strs, "")
				default:
					strs = append(strs, key+"="+val)
				}
			}
		}
		for _, s := range strs {
			txt = append(txt, byte(len(s)))
			txt = append(txt, s...)
		}
		return refdec.DNSRR{Name: n, Type: refdec.TypeTXT, Class: 1, TTL: ttl, RData: txt}
	case 8:
		// NSEC: next domain name (uncompressed) + type bitmap
		return refdec.DNSRR{Name: n, Type: refdec.TypeNSEC, Class: 0x8001, TTL: ttl, RData: append([]byte{1, 'x', 0}, 0, 4, 0, 0, 0, 8)}
	}
	return refdec.DNSRR{Name: "", Type: pick(r, uint16(refdec.TypeOPT), uint16(refdec.TypeMX), uint16(99)), Class: 1440, TTL: ttl, RData: RandBytes(r, r.Intn(12))}
}

var DNSKinds = []string{"query", "response", "response-sections", "response-multi", "empty"}

// DNS builds a DNS / mDNS / LLMNR message.
func DNS(r *rand.Rand, e Env, kind string) []byte {
	m := refdec.NewDNSMsg(uint16(r.Intn(65536)), 0x0100)
	b := refdec.DNSBuilder{Compress: r.Intn(2) == 0}
	q := refdec.DNSQ{Name: pick(r, hostNames...), Type: pick(r, uint16(1), uint16(28), uint16(12), uint16(255)), Class: 1}
	switch kind {
	case "query":
		m.Q = []refdec.DNSQ{q}
		if r.Intn(4) == 0 {
			m.Q = append(m.Q, refdec.DNSQ{Name: pick(r, hostNames...), Type: 255, Class: 0x8001})
		}
	case "response":
		m.Flags = 0x8180
		m.Q = []refdec.DNSQ{q}
		for i := 1 + r.Intn(4); i > 0; i-- {
			m.An = append(m.An, rrRandom(r, e))
		}
	case "response-sections":
		m.Flags = 0x8400
		if r.Intn(2) == 0 {
			m.Q = []refdec.DNSQ{q}
		}
		for i := r.Intn(3); i > 0; i-- {
			m.An = append(m.An, rrRandom(r, e))
		}
		for i := r.Intn(3); i > 0; i-- {
			m.Ns = append(m.Ns, rrRandom(r, e))
		}
		for i := 1 + r.Intn(3); i > 0; i-- {
			m.Ar = append(m.Ar, rrRandom(r, e))
		}
	case "response-multi":
		m.Flags = 0x8400
		for i := 3 + r.Intn(8); i > 0; i-- {
			m.An = append(m.An, rrRandom(r, e))
		}
	}
	return b.Build(m)
}

var NBNSKinds = []string{"query", "nodestatus", "nameresponse", "otherresponse"}

// NBNS builds a NetBIOS name service message.
func NBNS(r *rand.Rand, kind string) []byte {
	name := string(refdec.EncodeNBName(refdec.NBName(pick(r, "WORKSTATION", "LAPTOP-1", "*"), 0)))
	raw := []byte(name)
	m := refdec.NewDNSMsg(uint16(r.Intn(65536)), 0)
	b := refdec.DNSBuilder{}
	switch kind {
	case "query":
		m.Flags = 0x0110
		// a question with a raw (already encoded) name: build by hand below
		out := b.Build(m)
		out[5] = 1
		out = append(out, raw...)
		return append(out, 0, 0x20, 0, 1)
	case "nodestatus":
		m.Flags = 0x8400
		var names []refdec.NBNodeName
		for i := 1 + r.Intn(4); i > 0; i-- {
			fl := uint16(0x0400)
			if r.Intn(3) == 0 {
				fl |= 0x8000
			}
			names = append(names, refdec.NBNodeName{Name: refdec.NBName(pick(r, "WORKGROUP", "LAPTOP-1", "DESKTOP-ABC", "MSHOME"), pick(r, byte(0), byte(0x20), byte(0x1e))), Flags: fl})
		}
		m.An = []refdec.DNSRR{{RawName: raw, Type: refdec.TypeNBSTAT, Class: 1, RData: refdec.NBStatRData(names, 46)}}
	case "nameresponse":
		m.Flags = 0x8500
		m.An = []refdec.DNSRR{{RawName: raw, Type: refdec.TypeNB, Class: 1, TTL: 300, RData: []byte{0, 0, 192, 168, 0, 5}}}
	default:
		m.Flags = 0x8500
		m.An = []refdec.DNSRR{{RawName: raw, Type: uint16(r.Intn(64)), Class: 1, TTL: 300, RData: RandBytes(r, r.Intn(16))}}
	}
	return b.Build(m)
}

var SSDPKinds = []string{"alive", "byebye", "msearch", "ok", "garbage", "hostile", "hostile", "hostile"}

// ssdpHostile builds a syntactically valid HTTP-over-UDP message whose header values are recombined from the tokens the
// parsers look for (byte flips of a canned message practically never produce "x=max-age" or an empty USER-AGENT product).
func ssdpHostile(r *rand.Rand) []byte {
	crlf := "\r\n"
	tok := []string{"max-age", "MAX-AGE", "no-cache", "1800", "0", "-1", "99999999999999999999", "x", "", " ", "ssdp:alive", "ssdp:byebye", "ssdp:all", "upnp:rootdevice",
		"uuid:RINCON_1::upnp:rootdevice", "http://192.168.0.5:1400/xml/device_description.xml", "http://[fe80::1]:80/", "Linux", "UPnP/1.0", "Sonos/63.2-90210", "Chromium/74.0.3729.131",
		"Microsoft Edge/91.0.864.64 Windows", "(iPhone; iOS 12.4)", "/", "\"ssdp:discover\"", "239.255.255.250:1900"}
	seps := []string{"=", " = ", "=", ",", ", ", " ", ";", ""}
	val := func() string {
		var sb strings.Builder
		for n := r.Intn(5); n >= 0; n-- {
			sb.WriteString(tok[r.Intn(len(tok))])
			if n > 0 {
				sb.WriteString(seps[r.Intn(len(seps))])
			}
		}
		return sb.String()
	}
	var sb strings.Builder
	switch r.Intn(6) {
	case 0, 1, 2:
		sb.WriteString(pick(r, "NOTIFY", "NOTIFY", "notify", "GET", "M-SEARCH") + " * HTTP/1.1" + crlf)
	case 3, 4:
		sb.WriteString(pick(r, "M-SEARCH", "M-SEARCH", "NOTIFY", "m-search") + " * HTTP/1.1" + crlf)
	default:
		sb.WriteString("HTTP/1.1 " + pick(r, "200 OK", "404 Not Found", "200", "abc") + crlf)
	}
	for _, h := range []string{"HOST", "CACHE-CONTROL", "LOCATION", "NT", "NTS", "SERVER", "USN", "MAN", "MX", "ST", "USER-AGENT"} {
		switch r.Intn(4) {
		case 0: // header missing
		case 1:
			if h == "NTS" {
				sb.WriteString("NTS: " + pick(r, "ssdp:alive", "ssdp:alive", "ssdp:byebye", "ssdp:update") + crlf)
			} else {
				sb.WriteString(h + ": " + val() + crlf)
			}
		default:
			canned := map[string]string{"HOST": "239.255.255.250:1900", "CACHE-CONTROL": "max-age=1800", "LOCATION": "http://192.168.0.5:1400/d.xml", "NT": "upnp:rootdevice",
				"NTS": "ssdp:alive", "SERVER": "Linux UPnP/1.0 Sonos/63.2", "USN": "uuid:x", "MAN": "\"ssdp:discover\"", "MX": "1", "ST": "ssdp:all", "USER-AGENT": "Chromium/74 Linux"}
			v := canned[h]
			if h == "CACHE-CONTROL" && r.Intn(2) == 0 {
				// the directive parser splits at '=' and looks for "max-age": every small arrangement of those pieces
				small := []string{"max-age", "MAX-AGE", "x", "", "1800", "no-cache", " max-age", "max-age "}
				var cc strings.Builder
				for n := r.Intn(4); n >= 0; n-- {
					cc.WriteString(small[r.Intn(len(small))])
					if n > 0 {
						cc.WriteString(pick(r, "=", "=", "=", " = ", ","))
					}
				}
				v = cc.String()
			}
			sb.WriteString(h + ": " + v + crlf)
		}
	}
	sb.WriteString(crlf)
	return []byte(sb.String())
}

// SSDP builds an SSDP message.
func SSDP(r *rand.Rand, kind string) []byte {
	crlf := "\r\n"
	switch kind {
	case "alive":
		return []byte("NOTIFY * HTTP/1.1" + crlf + "HOST: 239.255.255.250:1900" + crlf + "CACHE-CONTROL: max-age=" + fmt.Sprint(r.Intn(4000)) + crlf +
			"LOCATION: http://192.168.0.5:1400/xml/device_description.xml" + crlf + "NT: upnp:rootdevice" + crlf + "NTS: ssdp:alive" + crlf +
			"SERVER: Linux UPnP/1.0 Sonos/63.2-90210" + crlf + "USN: uuid:RINCON_1::upnp:rootdevice" + crlf + crlf)
	case "byebye":
		return []byte("NOTIFY * HTTP/1.1" + crlf + "HOST: 239.255.255.250:1900" + crlf + "NT: upnp:rootdevice" + crlf + "NTS: ssdp:byebye" + crlf + "USN: uuid:x" + crlf + crlf)
	case "msearch":
		ua := pick(r, "Chromium/74.0.3729.131 Linux", "Microsoft Edge/91.0.864.64 Windows", "My App/4 (iPhone; iOS 12.4) CocoaSSDP/0.1.0/1", "")
		return []byte("M-SEARCH * HTTP/1.1" + crlf + "HOST: 239.255.255.250:1900" + crlf + "MAN: \"ssdp:discover\"" + crlf + "MX: 1" + crlf + "ST: ssdp:all" + crlf + "USER-AGENT: " + ua + crlf + crlf)
	case "hostile":
		return ssdpHostile(r)
	case "ok":
		return []byte("HTTP/1.1 200 OK" + crlf + "CACHE-CONTROL: max-age=1800" + crlf + "LOCATION: http://192.168.0.1:5000/rootDesc.xml" + crlf + "ST: upnp:rootdevice" + crlf + crlf)
	}
	return RandBytes(r, r.Intn(80))
}

// ---- layer 2 odds and ends ----------------------------------------------------------------------

var L2Kinds = []string{"stp", "snap", "ipx", "llc-i", "llc-s", "llc-short"}

// LLC builds an 802.2 LLC payload.
func LLC(r *rand.Rand, kind string) []byte {
	switch kind {
	case "stp":
		return append([]byte{0x42, 0x42, 0x03}, RandBytes(r, pick(r, 35, 35, 35, 700, 1400))...) // a BPDU is 35 bytes; the length field allows 1500
	case "snap":
		return append([]byte{0xaa, 0xaa, 0x03, 0, 0, 0x0c, 0x20, 0x00}, RandBytes(r, pick(r, r.Intn(40), r.Intn(40), 1200))...)
	case "ipx":
		return append([]byte{0xe0, 0xe0, 0x03}, RandBytes(r, pick(r, 30, 30, 1300))...)
	case "llc-i":
		return append([]byte{byte(r.Intn(256)), byte(r.Intn(256)), byte(r.Intn(128)) << 1}, RandBytes(r, r.Intn(20))...)
	case "llc-s":
		return append([]byte{byte(r.Intn(256)), byte(r.Intn(256)), 0x01}, RandBytes(r, r.Intn(20))...)
	}
	return RandBytes(r, r.Intn(4))
}

// LLDP builds a chain of LLDP TLVs.
func LLDP(r *rand.Rand) []byte {
	var b []byte
	// one unit in three has TLVs whose value is shorter than the standard says for that type (a capabilities TLV of one byte, a
	// TTL of none, an identifier without its subtype): the TLV chain itself stays well-formed
	irregular := r.Intn(3) == 0
	tlv := func(t int, v []byte) {
		if irregular && len(v) > 0 && r.Intn(3) == 0 {
			v = v[:r.Intn(min(len(v), 4))]
		}
		b = append(b, byte(t<<1)|byte(len(v)>>8&1), byte(len(v)))
		b = append(b, v...)
	}
	if r.Intn(8) == 0 {
		// as large as the 9 bit TLV length field allows: identifiers of up to 511 bytes, long names and descriptions
		tlv(1, append([]byte{7}, RandBytes(r, []int{254, 400, 510}[r.Intn(3)])...))
		tlv(2, append([]byte{7}, RandBytes(r, []int{254, 400, 510}[r.Intn(3)])...))
		tlv(3, []byte{0, 120})
		for k := r.Intn(4); k > 0; k-- {
			tlv(5+r.Intn(2), []byte(strings.Repeat("n", 1+r.Intn(300))))
		}
		if r.Intn(2) == 0 {
			tlv(7, []byte{0, 0x14, 0, 0x04})
		}
		tlv(0, nil)
		return b
	}
	tlv(1, append([]byte{4}, RandBytes(r, 6)...))
	tlv(2, append([]byte{3}, RandBytes(r, 6)...))
	tlv(3, []byte{0, 120})
	if r.Intn(2) == 0 {
		tlv(5, []byte("switch-1"))
	}
	if r.Intn(2) == 0 {
		tlv(6, []byte("a description of the system"))
	}
	if r.Intn(2) == 0 {
		tlv(7, []byte{0, 0x14, 0, 0x04})
	}
	if r.Intn(2) == 0 {
		tlv(8, RandBytes(r, 12))
	}
	if r.Intn(3) == 0 {
		tlv(127, RandBytes(r, r.Intn(300)))
	}
	if r.Intn(4) != 0 {
		tlv(0, nil)
	}
	return b
}

// RRCP builds a Realtek 0x8899 payload.
func RRCP(r *rand.Rand) []byte {
	b := RandBytes(r, 16+r.Intn(40))
	b[0] = pick(r, byte(0x01), byte(0x23), byte(0x90), byte(r.Intn(256)))
	return b
}

// Pause builds an Ethernet pause payload.
func Pause(r *rand.Rand) []byte {
	b := make([]byte, 46)
	b[1] = pick(r, byte(1), byte(1), byte(2))
	b[2], b[3] = byte(r.Intn(256)), byte(r.Intn(256))
	return b
}

// IEEE1905 builds a 1905 payload.
func IEEE1905(r *rand.Rand) []byte {
	return append([]byte{0, 0, 0, byte(r.Intn(12)), byte(r.Intn(256)), byte(r.Intn(256)), 0, 0x80}, RandBytes(r, r.Intn(40))...)
}

// DNSMutants are DNS messages built to be ill-formed in a specific way (or well-formed but unusual).
var DNSMutantKinds = []string{"ptr-self", "ptr-forward", "ptr-chain", "label64", "rdlen-short", "rdlen-long", "count-high", "count-low",
	"nsec-additional", "unknown-authority", "opt-additional", "srv-compressed", "txt-additional", "question-only-response", "name-255"}

// DNSMutant builds one of the special messages.
func DNSMutant(r *rand.Rand, e Env, kind string) []byte {
	m := refdec.NewDNSMsg(uint16(r.Intn(65536)), 0x8400)
	b := refdec.DNSBuilder{Compress: r.Intn(2) == 0}
	a, _ := e.IP4(r)
	good := refdec.DNSRR{Name: "host.local", Type: refdec.TypeA, Class: 1, TTL: 120, Addr: a}
	switch kind {
	case "ptr-self":
		m.An = []refdec.DNSRR{{RawName: []byte{0xc0, 12}, Type: refdec.TypeA, Class: 1, TTL: 1, Addr: a}}
	case "ptr-forward":
		m.An = []refdec.DNSRR{{RawName: []byte{3, 'a', 'b', 'c', 0xc0, 0xff}, Type: refdec.TypeA, Class: 1, TTL: 1, Addr: a}}
	case "ptr-chain":
		// question name at 12, then records whose names are pointers to pointers
		m.Q = []refdec.DNSQ{{Name: "a.very.long.name.example.com", Type: 1, Class: 1}}
		m.An = []refdec.DNSRR{{RawName: []byte{0xc0, 12}, Type: refdec.TypeCNAME, Class: 1, TTL: 1, TargetRaw: []byte{1, 'x', 0xc0, 14}},
			{RawName: []byte{1, 'y', 0xc0, 12 + 34}, Type: refdec.TypeA, Class: 1, TTL: 1, Addr: a}}
	case "label64":
		raw := append([]byte{64}, make([]byte, 64)...)
		m.An = []refdec.DNSRR{{RawName: append(raw, 0), Type: refdec.TypeA, Class: 1, TTL: 1, Addr: a}}
	case "rdlen-short":
		good.RDLenDelta = -1 - r.Intn(3)
		m.An = []refdec.DNSRR{good, good}
	case "rdlen-long":
		good.RDLenDelta = 1 + r.Intn(300)
		m.An = []refdec.DNSRR{good}
	case "count-high":
		m.An = []refdec.DNSRR{good}
		m.AN = 2 + r.Intn(65000)
	case "count-low":
		m.An = []refdec.DNSRR{good, good, good}
		m.AN = 1
	case "nsec-additional":
		m.An = []refdec.DNSRR{good}
		m.Ar = []refdec.DNSRR{{Name: "host.local", Type: refdec.TypeNSEC, Class: 0x8001, TTL: 120, RData: []byte{0xc0, 12, 0, 4, 0x40, 0, 0, 8}}}
	case "unknown-authority":
		m.Ns = []refdec.DNSRR{{Name: "host.local", Type: uint16(60 + r.Intn(100)), Class: 1, TTL: 1, RData: RandBytes(r, r.Intn(20))}, good}
	case "opt-additional":
		m.An = []refdec.DNSRR{good}
		m.Ar = []refdec.DNSRR{{Name: "", Type: refdec.TypeOPT, Class: 1440, TTL: 0x1194, RData: []byte{0, 4, 0, 14, 0, 0, 1, 2, 3, 4, 5, 6, 7, 8, 9, 10, 11, 12}}}
	case "srv-compressed":
		b.Compress = true
		m.An = []refdec.DNSRR{{Name: "svc._tcp.local", Type: refdec.TypeSRV, Class: 1, TTL: 120, Target: "host.local"}, good}
		m.Ar = []refdec.DNSRR{{Name: "svc._tcp.local", Type: refdec.TypeSRV, Class: 1, TTL: 120, Target: "host.local"}}
	case "txt-additional":
		m.Ar = []refdec.DNSRR{{Name: "dev._device-info._tcp.local", Type: refdec.TypeTXT, Class: 1, TTL: 1, RData: []byte{19, 'm', 'o', 'd', 'e', 'l', '=', 'M', 'a', 'c', 'B', 'o', 'o', 'k', 'P', 'r', 'o', '1', '4', ',', 1, 'a', 1, 'b'}}, good}
	case "question-only-response":
		m.Q = []refdec.DNSQ{{Name: "host.local", Type: 255, Class: 1}}
	case "name-255":
		var raw []byte
		for i := 0; i < 5; i++ {
			raw = append(raw, 63)
			raw = append(raw, make([]byte, 63)...)
		}
		m.An = []refdec.DNSRR{{RawName: append(raw, 0), Type: refdec.TypeA, Class: 1, TTL: 1, Addr: a}}
	}
	return b.Build(m)
}
