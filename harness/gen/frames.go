package gen

import (
	"math/rand"
	"net/netip"

	"verif/harness/refdec"
)

// Frame is a generated Ethernet frame with its generator's ground truth.
type Frame struct {
	B       []byte
	Kind    string // e.g. "ip4/udp/dns:response", "arp:probe", "8023:stp"
	L3      string // ip4, ip6, arp, other...
	L4      string // udp, tcp, icmp4, icmp6, igmp, other, ""
	App     string // application class for udp
	SrcKind string // own, router, mcast, bcast, client
	SrcMAC  refdec.MAC
	Tags    int
	Pad     int // trailing bytes after the packet
	Mut     string
}

// PortClasses are the UDP port classes of the documented table plus "other".
var PortClasses = []struct {
	Name string
	Port uint16
}{
	{"443", 443}, {"67", 67}, {"68", 68}, {"546", 546}, {"547", 547}, {"53", 53}, {"5353", 5353}, {"5355", 5355}, {"123", 123},
	{"1900", 1900}, {"3702", 3702}, {"137", 137}, {"138", 138}, {"32412", 32412}, {"32414", 32414}, {"10001", 10001}, {"other", 40000},
}

func (e Env) srcMAC(r *rand.Rand) (refdec.MAC, string) {
	switch r.Intn(12) {
	case 0:
		return e.HostMAC, "own"
	case 1, 2:
		return e.RouterMAC, "router"
	case 3:
		return refdec.MAC{0x01, 0x00, 0x5e, 0, 0, 0xfb}, "mcast"
	case 4:
		return refdec.MAC{0xff, 0xff, 0xff, 0xff, 0xff, 0xff}, "bcast"
	case 5:
		if r.Intn(3) == 0 {
			// addresses that look special and are ordinary unicast addresses by the table (group bit clear): all zero, locally
			// administered, the 00:00:5e range of VRRP
			return pick(r, refdec.MAC{}, refdec.MAC{0x02, 0, 0, 0, 0, 0}, refdec.MAC{0, 0, 0x5e, 0, 1, 7}, refdec.MAC{0xfe, 0xff, 0xff, 0xff, 0xff, 0xff}), "unicast-special"
		}
	}
	return e.Clients[r.Intn(len(e.Clients))], "client"
}

func (e Env) dstMAC(r *rand.Rand) refdec.MAC {
	switch r.Intn(5) {
	case 0:
		return refdec.MAC{0xff, 0xff, 0xff, 0xff, 0xff, 0xff}
	case 1:
		return e.HostMAC
	case 2:
		return refdec.MAC{0x33, 0x33, 0, 0, 0, 1}
	case 3:
		return e.RouterMAC
	}
	return e.Clients[r.Intn(len(e.Clients))]
}

// AppPayload returns an application payload appropriate for the UDP port class.
func AppPayload(r *rand.Rand, e Env, class int, mac refdec.MAC) (string, []byte) {
	if r.Intn(6) == 0 {
		// sizes around and beyond one Ethernet MTU: full size frames, baby giants, jumbo frames and what receive offload
		// hands to a packet socket (several segments merged into one buffer)
		return "random", RandBytes(r, pick(r, 0, 1, 7, 8, 11, 12, 13, 40, 240, 241, 300, 600, 1472, 1473, 1480, 1481, 1500, 2000, 8972, 17000))
	}
	switch class {
	case refdec.PDHCP4:
		k := pick(r, DHCPKinds...)
		return "dhcp:" + k, DHCP(r, e, k, mac).Bytes()
	case refdec.PDNS, refdec.PMDNS, refdec.PLLMNR:
		k := pick(r, DNSKinds...)
		return "dns:" + k, DNS(r, e, k)
	case refdec.PNBNS:
		k := pick(r, NBNSKinds...)
		return "nbns:" + k, NBNS(r, k)
	case refdec.PSSDP, refdec.PWSDP:
		k := pick(r, SSDPKinds...)
		return "ssdp:" + k, SSDP(r, k)
	case refdec.PNTP:
		b := RandBytes(r, 48)
		b[0] = 0x23
		return "ntp", b
	}
	return "random", RandBytes(r, r.Intn(120))
}

// Structural generates a valid frame of a random class.
func Structural(r *rand.Rand, e Env) Frame {
	f := Frame{}
	f.SrcMAC, f.SrcKind = e.srcMAC(r)
	dst := e.dstMAC(r)
	if r.Intn(12) == 0 {
		f.Tags = 1 + r.Intn(2)
	}
	switch c := r.Intn(20); {
	case c < 8:
		f.L3 = "ip4"
		src, sk := e.IP4(r)
		if r.Intn(2) == 0 {
			src, sk = e.LANIP(r), "lan"
		}
		dip, _ := e.IP4(r)
		l4, kind, proto := e.l4(r, false, src, dip, f.SrcMAC, &f)
		h := refdec.IP4Hdr{TOS: byte(r.Intn(256)), ID: uint16(r.Intn(65536)), Flags: byte(r.Intn(8)), FragOff: uint16(pick(r, 0, 0, 0, r.Intn(8192))),
			TTL: byte(r.Intn(256)), Proto: proto, Src: src, Dst: dip}
		if r.Intn(8) == 0 {
			h.Options = make([]byte, 4*(1+r.Intn(10)))
		}
		f.Kind = "ip4(" + sk + ")/" + kind
		if proto == 17 && len(l4) >= 8 && r.Intn(12) == 0 {
			// the first fragment of a datagram larger than the MTU: more-fragments flag, offset 0, and a UDP length field that
			// speaks for the whole datagram
			h.Flags, h.FragOff = 1, 0
			l4 = append([]byte(nil), l4...)
			whole := len(l4) + 1480*(1+r.Intn(3))
			l4[4], l4[5] = byte(whole>>8), byte(whole)
			f.Kind += "/first-fragment"
		}
		f.B = refdec.Ether(dst, f.SrcMAC, 0x0800, f.Tags, refdec.IP4(h, l4))
	case c < 13:
		f.L3 = "ip6"
		src, sk := e.IP6(r)
		dip, _ := e.IP6(r)
		l4, kind, proto := e.l4(r, true, src, dip, f.SrcMAC, &f)
		h := refdec.IP6Hdr{Class: byte(r.Intn(256)), Flow: uint32(r.Intn(1 << 20)), Next: proto, Hop: pick(r, byte(255), byte(64), byte(1), byte(r.Intn(256))), Src: src, Dst: dip, PayloadLen: -1}
		f.Kind = "ip6(" + sk + ")/" + kind
		f.B = refdec.Ether(dst, f.SrcMAC, 0x86dd, f.Tags, refdec.IP6(h, l4))
	case c < 15:
		f.L3 = "arp"
		k := pick(r, ARPKinds...)
		spa, sk := e.IP4(r)
		if r.Intn(2) == 0 {
			spa, sk = e.LANIP(r), "lan"
		}
		sha := f.SrcMAC
		if r.Intn(10) == 0 {
			sha = e.Clients[r.Intn(len(e.Clients))] // proxy arp: sender differs from ethernet source
			f.Kind = "arp(" + sk + "):" + k + ":proxy"
		} else {
			f.Kind = "arp(" + sk + "):" + k
		}
		f.B = refdec.Ether(dst, f.SrcMAC, 0x0806, f.Tags, ARP(r, e, k, sha, spa))
	case c < 16:
		f.L3 = "8023"
		k := pick(r, L2Kinds...)
		p := LLC(r, k)
		f.Kind = "8023:" + k
		f.B = refdec.Ether(dst, f.SrcMAC, uint16(len(p)), 0, p)
	default:
		et := pick(r, uint16(0x8808), uint16(0x8899), uint16(0x88cc), uint16(0x890d), uint16(0x893a), uint16(0x6970), uint16(0x880a), uint16(0x9000), uint16(0x1234), uint16(1536), uint16(1535), uint16(0xffff))
		var p []byte
		switch et {
		case 0x8808:
			p = Pause(r)
		case 0x8899:
			p = RRCP(r)
		case 0x88cc:
			p = LLDP(r)
		case 0x893a:
			p = IEEE1905(r)
		default:
			p = RandBytes(r, r.Intn(64))
		}
		f.L3 = "other"
		f.Kind = "ethertype:" + hex16(et)
		f.B = refdec.Ether(dst, f.SrcMAC, et, f.Tags, p)
	}
	if r.Intn(5) == 0 { // trailing link-layer padding
		f.Pad = 1 + r.Intn(18)
		f.B = append(f.B, make([]byte, f.Pad)...)
	}
	return f
}

func hex16(v uint16) string {
	const h = "0123456789abcdef"
	return string([]byte{h[v>>12], h[v>>8&15], h[v>>4&15], h[v&15]})
}

func (e Env) l4(r *rand.Rand, v6 bool, src, dst netip.Addr, mac refdec.MAC, f *Frame) ([]byte, string, uint8) {
	switch c := r.Intn(16); {
	case c < 8:
		f.L4 = "udp"
		sc, dc := PortClasses[r.Intn(len(PortClasses))], PortClasses[r.Intn(len(PortClasses))]
		if r.Intn(3) == 0 {
			sc = PortClasses[len(PortClasses)-1]
		} else if r.Intn(2) == 0 {
			dc = PortClasses[len(PortClasses)-1] // the reply direction: from the service's port to the client's ephemeral port
		}
		sp, dp := sc.Port, dc.Port
		if sc.Name == "other" {
			sp = uint16(1024 + r.Intn(60000))
			if refdec.UDPClass(sp, 0) != refdec.PUDP {
				sp = 40001
			}
		}
		if dc.Name == "other" {
			dp = uint16(1024 + r.Intn(60000))
			if refdec.UDPClass(0, dp) != refdec.PUDP || refdec.UDPClass(dp, 0) != refdec.PUDP {
				dp = 40002
			}
		}
		class := refdec.UDPClass(sp, dp)
		app, p := AppPayload(r, e, class, mac)
		f.App = app
		return refdec.UDP(sp, dp, p), "udp(" + sc.Name + ">" + dc.Name + ")/" + app, 17
	case c < 10:
		f.L4 = "tcp"
		h := refdec.TCPHdr{Src: uint16(r.Intn(65536)), Dst: pick(r, uint16(80), uint16(443), uint16(r.Intn(65536))), Seq: r.Uint32(), Ack: r.Uint32(),
			Flags: uint16(r.Intn(4096)), Window: uint16(r.Intn(65536)), Csum: uint16(r.Intn(65536)), Urgent: uint16(r.Intn(65536))}
		if r.Intn(3) == 0 {
			h.Options = make([]byte, 4*(1+r.Intn(10)))
		}
		n := r.Intn(100)
		if r.Intn(10) == 0 {
			n = pick(r, 1440, 1460, 1461, 1468, 1469, 2920, 8960, 32000) // full segments, and segments merged by receive offload
		}
		return refdec.TCP(h, RandBytes(r, n)), "tcp", 6
	case c < 13:
		if v6 {
			f.L4 = "icmp6"
			k := pick(r, ICMP6Kinds...)
			return ICMP6Msg(r, e, k, src, dst, mac), "icmp6:" + k, 58
		}
		f.L4 = "icmp4"
		k := pick(r, ICMP4Kinds...)
		return ICMP4Msg(r, e, k), "icmp4:" + k, 1
	case c < 14:
		f.L4 = "igmp"
		return append([]byte{0x16, 0, 0, 0}, 224, 0, 0, 251), "igmp", 2
	case c < 15:
		// the "other family's" ICMP number and hop-by-hop
		if v6 {
			f.L4 = "hopbyhop"
			return append([]byte{58, 0, 5, 2, 0, 0, 1, 0}, ICMP6Msg(r, e, "mld2-report", src, dst, mac)...), "hopbyhop", 0
		}
		f.L4 = "other"
		return RandBytes(r, r.Intn(40)), "proto58in4", 58
	}
	f.L4 = "other"
	return RandBytes(r, r.Intn(40)), "proto:other", pick(r, uint8(47), uint8(50), uint8(59), uint8(132), uint8(255))
}

// ---- mutators -----------------------------------------------------------------------------------

// Mutations names.
var Mutations = []string{"none", "truncate", "lenfield", "flip", "splice", "zerofill", "extend"}

// lengthFieldOffsets lists offsets (relative to the frame) of 1- and 2-byte length/count fields along the decoded path.
func lengthFieldOffsets(b []byte) (one []int, two []int) {
	d := refdec.Decode(b)
	hl := refdec.EtherHeaderLen(d.EtherType)
	one = append(one, 12, 13) // ethertype bytes
	switch {
	case d.OffIP4 != 0:
		o := d.OffIP4
		one = append(one, o, o+9) // version/IHL, protocol
		two = append(two, o+2, o+6)
	case d.OffIP6 != 0:
		o := d.OffIP6
		one = append(one, o, o+6)
		two = append(two, o+4)
	case d.PayloadID == refdec.PARP && len(b) >= hl+8:
		one = append(one, hl+4, hl+5)
		two = append(two, hl, hl+2, hl+6)
	}
	if d.OffUDP != 0 {
		two = append(two, d.OffUDP, d.OffUDP+2, d.OffUDP+4)
	}
	if d.OffTCP != 0 {
		one = append(one, d.OffTCP+12)
	}
	if len(d.OffPayload) > 0 {
		p := d.OffPayload[len(d.OffPayload)-1]
		// the first bytes of the application payload are counts/lengths in DNS, DHCP, NDP, LLDP...
		for i := 0; i < 14 && p+i < len(b); i++ {
			one = append(one, p+i)
		}
		for _, i := range []int{4, 6, 8, 10} {
			two = append(two, p+i)
		}
		// option / record length bytes deeper in the payload
		for k := 0; k < 6 && len(b) > p+16; k++ {
			one = append(one, p+16+(k*37)%(len(b)-p-16))
		}
		if len(b) > p+241 {
			one = append(one, p+240, p+241, p+242) // first DHCP option
		}
	}
	return one, two
}

// Mutate returns a mutated copy of f; the mutation is recorded in Mut.
func Mutate(r *rand.Rand, f Frame, kind string) Frame {
	b := append([]byte(nil), f.B...)
	g := f
	g.Mut = kind
	switch kind {
	case "none":
	case "truncate":
		if len(b) > 0 {
			b = b[:r.Intn(len(b))]
		}
	case "lenfield":
		one, two := lengthFieldOffsets(b)
		if r.Intn(2) == 0 && len(two) > 0 {
			o := two[r.Intn(len(two))]
			if o+1 < len(b) {
				v := int(b[o])<<8 | int(b[o+1])
				v = pick(r, 0, 1, v-1, v+1, 0xffff, v/2, len(b), len(b)-o)
				b[o], b[o+1] = byte(v>>8), byte(v)
			}
		} else if len(one) > 0 {
			o := one[r.Intn(len(one))]
			if o < len(b) {
				v := int(b[o])
				b[o] = byte(pick(r, 0, 1, v-1, v+1, 0xff, 0x0f, 0xf0, 0xc0, 0x40, v^0x80))
			}
		}
	case "flip":
		for k := 1 + r.Intn(4); k > 0 && len(b) > 0; k-- {
			b[r.Intn(len(b))] ^= byte(1 << r.Intn(8))
		}
	case "splice":
		other := RandBytes(r, r.Intn(60))
		if len(b) > 14 {
			cut := 14 + r.Intn(len(b)-14)
			b = append(b[:cut:cut], other...)
		}
	case "zerofill":
		if len(b) > 14 {
			cut := 14 + r.Intn(len(b)-14)
			for i := cut; i < len(b); i++ {
				b[i] = 0
			}
		}
	case "extend":
		b = append(b, RandBytes(r, 1+r.Intn(40))...)
	}
	g.B = b
	return g
}
