#!/usr/bin/env python3
"""regenerate the findings table in DESIGN.md (between the FINDINGS markers) from known_findings.json and /repo's fix: commits"""
import json, subprocess, re
K = json.load(open('/verif/known_findings.json'))
log = subprocess.check_output(['git', '-C', '/repo', 'log', '--reverse', '--format=%h %s']).decode().splitlines()
fixes = [(l.split()[0], l.split(' ', 1)[1]) for l in log if l.split(' ', 1)[1].startswith('fix:')]
by_commit = {}
for k in K:
    by_commit.setdefault(k.get('commit', '-'), []).append(k)
out = []
out.append('%d genuine defects were repaired with `fix:` commits (each additive/minimal, the repository suite re-run with the guard off); '
           '%d open known findings.\n' % (len(fixes), sum(1 for k in K if k['status'] == 'open')))
out.append('| commit | fix (subject) | violation keys that led to it (property: key) |')
out.append('|---|---|---|')
for sha, subj in fixes:
    ks = by_commit.get(sha, [])
    keys = '; '.join('%s: `%s`' % (k['property'], k['key']) for k in ks) or '(found together with the previous one / by replaying it)'
    out.append('| %s | %s | %s |' % (sha, subj[5:].strip().replace('|', '/'), keys.replace('|', '\\|')))
txt = '\n'.join(out)
p = '/verif/DESIGN.md'
s = open(p).read()
a, b = '<!-- FINDINGS-BEGIN -->', '<!-- FINDINGS-END -->'
if a in s:
    s = s[:s.index(a) + len(a)] + '\n' + txt + '\n' + s[s.index(b):]
    open(p, 'w').write(s)
print(len(fixes), 'fix commits;', len(K), 'finding entries')
