#!/usr/bin/env python3
"""coverage.py [props...]: statement coverage of irai/packet (non-test code) under the quick workloads of the given checks (default: all),
measured with go's -cover instrumentation in an extra run (VERIF_COVER; evidence of that run is discarded). Prints, per file, the
functions with blocks no workload reached - the places where a change could not be observed by any monitor. Writes
/verif/coverage.json (per check: covered/total statements; union; unreached blocks by function)."""
import json, os, re, subprocess, sys, shutil, glob, collections
props = sys.argv[1:] or ['C%02d' % i for i in range(1, 21)]
cov = '/var/tmp/verif-cover'
shutil.rmtree(cov, ignore_errors=True)
os.makedirs(cov)
per = {}
blocks = {}  # (file, range) -> [nstmt, hit]
for p in props:
    evd = cov + '/ev'
    r = subprocess.run(['./check', p, 'quick'], cwd='/verif', env=dict(os.environ, VERIF_COVER=cov, VERIF_EVIDENCE_DIR=evd), stdout=subprocess.PIPE, stderr=subprocess.STDOUT, text=True)
    mine = {}
    for f in glob.glob(cov + '/*.cov'):
        for l in open(f):
            if l.startswith('mode:'):
                continue
            m = re.match(r'(\S+):(\S+) (\d+) (\d+)$', l.strip())
            if not m or not m.group(1).startswith('github.com/irai/packet') or m.group(1).endswith('_test.go'):
                continue
            k = (m.group(1), m.group(2))
            n, c = int(m.group(3)), int(m.group(4))
            b = blocks.setdefault(k, [n, 0]); b[1] += c
            b2 = mine.setdefault(k, [n, 0]); b2[1] += c
        os.remove(f)
    tot = sum(b[0] for b in mine.values()); hit = sum(b[0] for b in mine.values() if b[1] > 0)
    per[p] = {'statements': tot, 'covered': hit, 'rc': r.returncode}
    print('%s rc=%d covered %d of %d statements (%.1f%%)' % (p, r.returncode, hit, tot, 100.0 * hit / max(tot, 1)), flush=True)
shutil.rmtree(cov, ignore_errors=True)
tot = sum(b[0] for b in blocks.values()); hit = sum(b[0] for b in blocks.values() if b[1] > 0)
print('union: %d of %d statements (%.1f%%)' % (hit, tot, 100.0 * hit / max(tot, 1)))
# map unreached blocks to functions
un = collections.defaultdict(list)
for (f, rng), (n, c) in blocks.items():
    if c == 0:
        un[f].append((int(rng.split('.')[0]), rng, n))
out = {}
for f in sorted(un):
    path = f.replace('github.com/irai/packet', '/repo')
    try:
        src = open(path).read().splitlines()
    except OSError:
        continue
    funcs = [(i + 1, re.match(r'func\s+(\([^)]*\)\s*)?(\w+)', l)) for i, l in enumerate(src) if l.startswith('func ')]
    byfn = collections.defaultdict(lambda: [0, []])
    for line, rng, n in sorted(un[f]):
        name = '?'
        for ln, m in funcs:
            if ln <= line and m:
                recv = re.sub(r'[()\s*]|^\w+\s', '', m.group(1) or '')
                name = (re.sub(r'^\w+\s+\*?', '', (m.group(1) or '').strip('() ')) + '.' if m.group(1) else '') + m.group(2)
        byfn[name][0] += n
        byfn[name][1].append(line)
    out[f.replace('github.com/irai/packet/', '')] = {k: {'statements': v[0], 'lines': v[1][:12]} for k, v in byfn.items()}
json.dump({'per_check': per, 'union': {'statements': tot, 'covered': hit}, 'unreached': out}, open('/verif/coverage.json', 'w'), indent=1)
for f, fn in out.items():
    print(f)
    for k, v in sorted(fn.items(), key=lambda x: -x[1]['statements']):
        print('   %-50s %3d stmts  lines %s' % (k, v['statements'], v['lines'][:8]))
