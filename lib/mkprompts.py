#!/usr/bin/env python3
"""write the prompts of the next seeded round: mkprompts.py <dir> (e.g. /tmp/mut14)
Each prompt holds the text of ONE property, the earlier attempts on it (file + what the change needed, from seeded/*/meta.json)
and the list of mechanisms that are not wanted again; nothing else from /verif. The sub-agent works in <dir>/Cxx (a scratch
worktree of /repo that the caller creates with `git -C /repo worktree add --detach <dir>/Cxx HEAD`)."""
import glob, json, os, sys

out = sys.argv[1]
os.makedirs(out, exist_ok=True)
props = [json.loads(l) for l in open('/verif/properties.jsonl')]
words = ['no', 'One', 'Two', 'Three', 'Four', 'Five', 'Six', 'Seven', 'Eight', 'Nine', 'Ten', 'Eleven', 'Twelve', 'Thirteen', 'Fourteen', 'Fifteen', 'Sixteen']

NOT_WANTED = ("dropped copies of packet-buffer bytes / reading spare capacity of the receive buffer; the ICMP echo waiter table; the shared frame buffer pool; "
              "log-level dependent code; lock-order inversions, recursive read locks and moved lock/unlock statements; off-by-one or narrow-integer wrap in a "
              "length/count guard; IPv4-mapped IPv6 addresses and Unmap(); the second carry fold of Checksum; lease-file persistence after a state change; same MAC "
              "hunted under another IP or another MAC under the same IP; StopHunt with another address family; configuration changes across a restart; a skipped "
              "Unlock; lookups by address over a map (iteration order); where a reply is addressed to; StartHunt after Close; nil versus empty slices; the own host "
              "entry's expiry; a line returned to the log pool too early; UDP port 443; Close called concurrently; the ping identifier counter; a scratch slice that "
              "is not reset between two lists; frames for which Parse creates no host (frame.Host == nil); the all zero MAC; fields of a forged DECLINE; StopHunt "
              "racing the spoof loop; the notification pending flag; SNAP/LLC lengths; DHCP option area size; a convenience view returning the wrong one of two "
              "sibling fields; a dropped method receiver that turns a call into a constant; an early return that skips a shared offset update; a length written as "
              "one byte; a body passed through a format string; a dropped break; append(x[:0], ...) sharing a backing array with a returned copy; the ageing cutoff "
              "computed from the wrong deadline; which address a renewal is compared with; the restore packet of the ARP spoofer; the probe-reject reply; a wrong "
              "named constant for a header length; a wrong bit mask in a header view; hardware addresses that are not six bytes; an upper bound on the frame size; "
              "wrong address family passed to a sender; a string-typed state compared with a misspelt literal; a channel replaced in a local copy; ICMP type "
              "comparisons (== versus >=, type versus code); the classification order of DHCP REQUEST forms; prefix bits beyond the prefix length; entry sizes of "
              "the ICMPv4 router advertisement table.")

for pr in props:
    p = pr['id']
    wt = '%s/%s' % (out, p)
    att = []
    for d in sorted(glob.glob('/verif/seeded/%s-*' % p)):
        m = json.load(open(d + '/meta.json'))
        f = (m.get('files_changed') or ['?'])[0]
        att.append('  (%d) %s: %s' % (len(att) + 1, f, (m.get('needs_to_manifest') or '')[:190].replace('\n', ' ')))
    n = len(att)
    nw = words[n] if n < len(words) else str(n)
    s = f"""You are working in a scratch git worktree of the Go library irai/packet located at {wt} (a pure-Go library for zero-copy parsing/encoding of Ethernet, IP, ARP, ICMP6/NDP, DHCP4 and DNS frames, with LAN host tracking in session.go/hosttable.go/mactable.go and ARP/DHCP/ICMP6 spoofing + DNS naming handlers under handlers/). Work ONLY inside {wt}. Do NOT read or write anything under /repo or /verif (they are off limits), and do not run git commands that affect other worktrees (no `git worktree`, no `git gc`, no commits needed).

Environment: no network. Prefix every go command with: export GOFLAGS=-mod=mod GOPROXY=off GOSUMDB=off GOTOOLCHAIN=local
Build: go build ./...
Existing test suite (takes ~10 s): go test -vet=off -count=1 . ./fastlog ./handlers/arp_spoofer ./handlers/icmp_spoofer ./handlers/dhcp4_spoofer   and   go test -vet=off -count=1 ./handlers/dns_naming >/dev/null 2>&1  (the dns_naming package prints a lot and has one test, TestDNS_reverseDNS, that always fails offline: ignore that one test; to see its results use: go test -json -vet=off -count=1 ./handlers/dns_naming 2>/dev/null | grep -v '"Action":"output"' | grep '"fail"'). Test_requestExhaust in dhcp4_spoofer is known to be flaky.
A build tag `verif` exists (files verif_hooks.go): with `-tags verif` you get test hooks such as Session.VerifPurge(now time.Time) (runs the ageing/purge pass with a chosen clock), packet.VerifICMPWaiters() (number of pending ping waiters) and dns_naming.VerifNew(session) (DNS handler without sockets). You may use them in your demonstration. Tests in the repo show how to build a Session without a real NIC (see setupTestHandler in session_test.go / handlers/*/setup_test.go: packet.Config{{Conn: ..., NICInfo: ...}}.NewSession("") with packet.TestNewBufferedConn()).

Here is a semantic property that currently HOLDS for this library:

Title: {pr['title']}

Statement: {pr['statement']}

Quantified over: {pr['quantifier']['text']}

Your task: make ONE realistic change to the library source (not to tests), of the kind a maintainer could plausibly introduce by mistake (refactoring slip, off-by-one, dropped lock / copy / bounds check, reordered statements, wrong constant or field, inverted condition on a rare path), that BREAKS this property while the code still compiles and the existing test suite above still passes. Strongly prefer a change that needs something specific in order to manifest - a particular interleaving, a fault at a particular point, a multi-step sequence of operations, an unusual input, or two cooperating sites that each look fine alone - rather than one that ordinary use would expose immediately.

Then write a demonstration: a new Go test file named zz_demo_test.go in the appropriate package directory (or a small program) that FAILS with your change and PASSES on the original code. Verify all of this yourself: (1) go build ./... succeeds, (2) the existing test suite still passes with your change, (3) the demo fails with the change and passes without it (to check the original behaviour save your change with `git diff > {out}/{p}.own.patch`, undo it with `git apply -R {out}/{p}.own.patch`, run the demo, then re-apply with `git apply {out}/{p}.own.patch`; NEVER use `git stash`: the stash is shared between all worktrees of this repository and other people work in sibling worktrees). Leave your change applied (uncommitted) in the working tree together with the demo file.

Additional facts: the library's supported concurrency pattern is ONE goroutine running the ReadFrom/Parse/handler ProcessPacket/Notify loop (reading every frame into the same receive buffer), concurrently with the library's own background goroutines (purge/minute ticker, spoof loops) and any number of goroutines calling the query/control API (FindIP, GetHosts, Capture, Release, StartHunt, StopHunt, Ping, MinuteTicker, Close ...); do not rely on two goroutines calling Parse or a handler's ProcessPacket at the same time. Several tests of the existing suite are timing sensitive and fail now and then on a loaded machine even on the unchanged code (Test_requestExhaust, TestHandler_SignalNICStopped, Test_declineSimple, TestDHCPHandler_exhaust): re-run before concluding that your change broke them. {nw} earlier attempts on this property were:
""" + '\n'.join(att) + f"""
Choose a DIFFERENT function and a different mechanism from all of them. Mechanisms that have been used a lot across the properties and are NOT wanted again: {NOT_WANTED} Look for something a careful reviewer could still wave through, for example: a wrong default or unit; a comparison of the wrong pair of fields or the wrong operator on a rarely true condition; a state machine transition that is only wrong on the second pass; an early return or `continue` that skips a required side effect on one branch; an error that is swallowed or a returned value that is ignored; a map/slice updated on one path but not on its sibling; a boundary at exactly the deadline/limit value (< versus <=); behaviour that is idempotent today and is not after the change; a timer/ticker/cycle detail; a field of a reply copied from the wrong source; a sort/order dependence (map iteration) made observable.

When you are done, ALSO write the file {out}/{p}.report.json containing a JSON object with exactly these keys: "demo_cmd" (the go test command that runs your demonstration from the worktree root, starting with `go test`, without any cd/export prefix), "needs" (one or two sentences: what the change needs in order to manifest).

Finally report concisely: the file(s) changed, the unified diff of the library change (git diff output without the demo), the demo file path and the exact command to run it, what the change needs in order to manifest, and confirmation of the three facts above. Keep the change small (a few lines).
"""
    open('%s/%s.prompt.txt' % (out, p), 'w').write(s)
print('wrote', len(props), 'prompts to', out)
