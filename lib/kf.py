#!/usr/bin/env python3
"""append an entry to known_findings.json: kf.py <prop> <key> <open|fixed> <commit-subject-substring|-> <what>"""
import json, subprocess, sys
prop, key, status, csub, what = sys.argv[1:6]
p = '/verif/known_findings.json'
K = json.load(open(p))
e = dict(property=prop, key=key, status=status, what=what)
if csub != '-':
    for l in subprocess.check_output(['git', '-C', '/repo', 'log', '--format=%h %s']).decode().splitlines():
        if csub in l:
            e['commit'] = l.split()[0]
            break
    else:
        raise SystemExit('commit not found: ' + csub)
K = [x for x in K if not (x['property'] == prop and x['key'] == key and (x.get('commit') == e.get('commit') or x['status'] == 'open'))]
K.append(e)
json.dump(K, open(p, 'w'), indent=1)
print('ok', e)
