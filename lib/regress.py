#!/usr/bin/env python3
"""regress.py [-j N] [ids...]: run every seeded change (default: all) against its own property's quick check in scratch worktrees
(lib/seeded.py evalwt), N at a time; prints the misses. The verdicts land in each meta.json ('evaluated')."""
import json, os, subprocess, sys, glob
from concurrent.futures import ThreadPoolExecutor
args = sys.argv[1:]
j = 3
if args and args[0] == '-j':
    j = int(args[1]); args = args[2:]
ids = args or sorted(os.path.basename(os.path.dirname(p)) for p in glob.glob('/verif/seeded/*/meta.json'))


SNAP = '/var/tmp/verif-harness-snap-%d' % os.getpid()
subprocess.check_call(['cp', '-a', '/verif/harness', SNAP])  # the harness as it is now: edits made while the regression runs do not leak in


def one(i):
    r = subprocess.run(['python3', '/verif/lib/seeded.py', 'evalwt', i, 'quick'], env=dict(os.environ, VERIF_HARNESS=SNAP), stdout=subprocess.PIPE, stderr=subprocess.STDOUT, text=True)
    line = [l for l in r.stdout.splitlines() if l.startswith(i + ' ')]
    res = json.loads(line[-1][len(i) + 1:]) if line else {'?': {'rc': -1, 'violations': [r.stdout[-300:]]}}
    print(i, json.dumps(res), flush=True)
    return i, res


# C09 is timing sensitive (stress + deadlock verdict on CPU time): those run alone afterwards
par = [i for i in ids if not i.startswith('C09')]
seq = [i for i in ids if i.startswith('C09')]
out = []
with ThreadPoolExecutor(j) as ex:
    out += list(ex.map(one, par))
for i in seq:
    out.append(one(i))
subprocess.call(['rm', '-rf', SNAP])
missed = [i for i, r in out if not any(v['rc'] == 1 for v in r.values())]
print('caught %d of %d; not caught: %s' % (len(out) - len(missed), len(out), ' '.join(missed)))
