#!/usr/bin/env python3
"""run the repository baseline (guard OFF) and compare with /root/.vp/BASELINE.json stable_pass"""
import json, os, subprocess, sys
env = dict(os.environ, GOFLAGS='-mod=mod', GOPROXY='off', GOSUMDB='off', GOTOOLCHAIN='local')
pkgs = sys.argv[1:] or ['./...']
p = subprocess.Popen(['go', 'test', '-json', '-vet=off', '-count=1', '-timeout', '25m'] + pkgs, cwd='/repo', env=env, stdout=subprocess.PIPE, stderr=subprocess.DEVNULL, text=True, errors='replace')
res = {}
for line in p.stdout:
    if '"Action":"output"' in line:
        continue
    try:
        e = json.loads(line)
    except Exception:
        continue
    if e.get('Test') and e.get('Action') in ('pass', 'fail', 'skip'):
        res['%s::%s' % (e['Package'], e['Test'])] = e['Action']
p.wait()
base = json.load(open('/root/.vp/BASELINE.json'))
stable = [t for t in base['stable_pass'] if any(t.startswith('github.com/irai/packet' + (pp[1:] if pp != './...' else '')) for pp in pkgs) or pkgs == ['./...']]
missing = [t for t in stable if res.get(t) != 'pass']
newfail = [t for t, a in res.items() if a == 'fail' and t not in base['stable_pass']]
print('ran %d tests; stable_pass expected %d; not passing now: %d' % (len(res), len(stable), len(missing)))
for t in missing:
    print('  MISSING/FAIL', t, res.get(t))
print('other failing tests (not in stable_pass):', newfail)
