# Per-property configuration of the driver (see DESIGN.md sections 4.1 and 5).
GO = 'go1.26.8'

def run(name, race=False, tool=GO, **kw):
    d = dict(name=name, race=race, tool=tool)
    d.update(kw)
    return d

PROPS = {}

PROPS['C15'] = dict(
    runs=[run('plain'), run('race', race=True, shards=1, restart=False, env={'VERIF_PART': 'concurrent'}, race_prop='C15',
                            race_prefixes=('packet.Checksum', 'packet.IP4.', 'packet.EncodeIP4', 'packet.ICMP.', 'packet.EncodeICMP'))],
    shards=16, watchdog=False, level='exploration',
    rule=('cases: every byte string of length 0..2 (quick) / 0..3 (thorough), single 16-bit-word perturbations '
          '{0000,ffff,8000,00ff,ff00} at every offset of carriers of length 20,21,1500,1521,1522, all-ff and ramp carriers of every '
          'length 0..1522, PRNG strings with length = index mod 1523 plus a split-point identity check, IPv4 headers through '
          'EncodeIP4+SetPayload/AppendPayload, ICMPv4/ICMPv6 echo requests through the send functions. Oracle: independent big-endian '
          'RFC 1071 sum (refdec.Sum1071), byte-swapped. A case is non-trivial if it is non-empty and agreed; distinct classes = '
          '(length parity, log2 of carry count, second fold needed) / split parities / encoder path'),
    assumptions=['refdec.Sum1071 (20 lines, 64-bit accumulator, big-endian words) is the trusted oracle',
                 'the library documents that it stores the checksum low byte first, so values are compared byte-swapped'],
    exhaustive={'quick': False, 'thorough': False},
    exhaustive_note='exhaustive only for strings of length <= exhaustive_len (observed counter)',
    obs_max=['exhaustive_len'],
    min_obs={'quick': {'icmp_frames_checked': 2000}, 'thorough': {'icmp_frames_checked': 2000}},
)

PROPS['C01'] = dict(
    runs=[run('plain')], shards=16, watchdog=True, level='exploration',
    rule=('inputs: (S1) structurally valid frames of every EtherType/IP-protocol/UDP-port class x 7 mutations (none, truncate, length/count '
          'field set to {0,1,v-1,v+1,max,...}, bit flips, splice, zero-fill, extend); (S2) truncation of structural frames at every offset; '
          '(S3) random / all-ff / zero strings of every length 0..1600 steered to each EtherType and IP protocol; (S4) every exported view type '
          'x {random strings of every length 0..min+64, generated valid messages, truncated and byte-corrupted ones}, all zero-argument methods '
          'enumerated by reflection. Each Parse input is parsed twice (cap==len, and in a larger buffer whose spare capacity holds 0xff / PRNG / '
          'the plausible continuation of the packet) and the two results compared. Non-trivial: Parse returned nil and decoded a layer above '
          'Ethernet, or returned an error past the Ethernet check, or a valid view had its getters called; distinct = '
          '(PayloadID, error class, length bucket, mutation) / (view type, mutation, length bucket)'),
    assumptions=['Go bounds checks turn every out-of-slice access into a recoverable panic (no cgo/unsafe on these paths)',
                 'hang verdict = worker burned >=5 CPU-seconds on one case (cases cost microseconds)',
                 'Ether.Payload() on a header-only frame deliberately returns the spare capacity (encoder idiom) and is exempt from the containment rule'],
    min_obs={'quick': {'views_valid': 5000, 'view_results_inside': 20000}, 'thorough': {'views_valid': 5000}},
    obs_max=['view_methods_' + n for n in ['Ether','IP4','IP6','UDP','TCP','ARP','ICMP','ICMPEcho','ICMP4Redirect','ICMP6RouterSolicitation',
             'ICMP6RouterAdvertisement','ICMP6NeighborAdvertisement','ICMP6NeighborSolicitation','ICMP6Redirect','DHCP4','DNS','LLC','SNAP','RRCP','LLDP',
             'IEEE1905','EthernetPause','HopByHopExtensionHeader']],
    timeout={'quick': 900, 'thorough': 6*3600},
)

PROPS['C02'] = dict(
    runs=[run('plain')], shards=16, watchdog=True, level='exploration',
    rule=('differential against the independent reference decoder refdec.Decode (documented EtherType / IP-protocol / UDP-port table, '
          'DESIGN appendix C acceptance rules): (A1) full cross product of the 17x17 UDP port classes x {IPv4,IPv6}, (A2) structural frames of every '
          'class x 7 mutations, (A3) truncation at every offset; compared: error-vs-success, PayloadID, MACs, IPs, ports, presence and start '
          'pointer of IP4()/IP6()/UDP()/TCP()/Payload(), Payload() running to the end of the frame. (B) getter tables: every field of every view '
          'set to boundary/random values by the refdec encoder and read back through the getter. Non-trivial = a compared frame (both sides ran); '
          'distinct = (generator kind incl. port-class pair and source class, length bucket, padding, mutation, reference error layer) / view type'),
    assumptions=['refdec (self-tested against golang.org/x/net ipv4/ipv6/icmp/dnsmessage at start) is the trusted oracle',
                 "don't-care zones where RFCs leave the receiver free: IPv6 with trailing padding, UDP length != bytes present, ARP hlen/plen != 6/4, "
                 'IPv4 version nibble != 4, 802.3 length 1501..1535; payload offset of an unknown IP protocol',
                 'ICMP4Redirect.Addrs() is not compared (the view mixes two message formats)'],
    min_obs={'quick': {'getter_comparisons': 20000}, 'thorough': {'getter_comparisons': 20000}},
    timeout={'quick': 900, 'thorough': 6*3600},
)

PROPS['C03'] = dict(
    runs=[run('plain')], shards=16, watchdog=True, level='exploration',
    rule=('round trips through every encoder: Ethernet/IPv4|IPv6/UDP chains composed exactly as the send paths do (AppendPayload and SetPayload '
          'variants, payload lengths 0..MTU, all UDP port classes; the frame completed by Ether.SetPayload, by Ether.AppendPayload in place (pads to 60 bytes) or by Ether.AppendPayload of a '
          'payload built elsewhere with 0..3000 bytes of spare capacity; padded frames go through Session.Parse and the views must not show the padding), Ethernet/IP AppendPayload with raw protocols, ARP, ICMP echo, DHCPv4 with '
          'PRNG option maps (0..11 options of length 0..254, arbitrary requested-parameter orders incl. router-before-mask and repeats, reused '
          'dirty buffers of capacity 300..1500), DNS queries with 1..6 labels, NDP NS/NA marshal; each result decoded by refdec (ground truth = '
          'the generator inputs) and by the library views / Session.Parse; capacity stream: AppendPayload on IPv4/IPv6/UDP into canary-guarded '
          'buffers whose remaining capacity is smaller/equal/larger than the payload. Non-trivial = a completed round trip; distinct = '
          '(encoder chain, family, length bucket, class / option-set shape)'),
    assumptions=['refdec decoders are the trusted oracle (self-tested against x/net)',
                 'inputs outside documented preconditions (buffers below the documented minimum, option values > 255 bytes, option sets > 1 KiB) are '
                 'exercised in a separate robustness stream whose panics are observations only'],
    min_obs={'quick': {}, 'thorough': {}},
    timeout={'quick': 900, 'thorough': 6*3600},
)

PROPS['C16'] = dict(
    runs=[run('go126-hooks', pkg='checks16'), run('go126-nohooks', pkg='checks16', hooks=False),
          run('go123-hooks', pkg='checks16', tool='go'), run('go123-nohooks', pkg='checks16', tool='go', hooks=False)],
    shards=8, watchdog=False, level='exploration',
    rule=('well-formed frames (reference decoder reports no error) of every EtherType / IP protocol / UDP port class, both address families, '
          'sources own / router / multicast / broadcast / client on and off LAN, with and without VLAN tags and padding, placed in an EthMaxSize '
          'buffer: after one warm-up Parse (a) every view must start at &buf[offset] for the reference offset, end inside the frame, and a '
          'write through view or buffer must be visible on the other side; (b) testing.AllocsPerRun(100, Parse) must be 0. Repeated under four '
          'builds: go1.26.8 and go1.23.5, verif tag on and off. Non-trivial = allocation measured on an accepted frame; distinct = '
          '(PayloadID, L3 family, source MAC class, tracked / untracked-by-rule)'),
    assumptions=['runtime allocation counters (testing.AllocsPerRun, GOMAXPROCS 1) are exact', 'refdec offsets are the trusted oracle'],
    min_obs={'quick': {'alloc_measurements': 2000, 'views_checked': 8000}, 'thorough': {'alloc_measurements': 2000}},
    timeout={'quick': 900, 'thorough': 3*3600},
)

PROPS['C20'] = dict(
    runs=[run('plain'), run('race', race=True, shards=1, restart=False, env={'VERIF_PART': 'concurrent'}, race_prop='C20')], shards=16, watchdog=True, level='exploration',
    rule=('lines built through the public fastlog API and compared with the concatenation of reference-rendered fields (strconv, fmt %02x/%04x, '
          'net.HardwareAddr.String, net.IP.String / netip.Addr.String, time.Duration.String, time.Format(StampMilli), fmt %+v): all 65536 uint16 in '
          'decimal and hex, all 256 bytes in decimal/hex/every MAC position/ByteArray, boundary uint32/int, all 256 zero/non-zero masks of the 8 IPv6 '
          'groups x 3 fill patterns through IPSlice, IP and IPArray, IPv4 / IPv4-mapped forms, PRNG field sequences grown to 60/200/800/1983 bytes; '
          'arrays (ByteArray, StringArray, IPArray) of 1..4096 elements appended at every 3rd (quick) / every (thorough) fill level 7..2047: no panic, '
          'output <= 2048 bytes, earlier fields intact, exact when the reference leaves 64 bytes of room; String()/FastLog of generated valid views, '
          'Host, MACEntry, Addr, Frame.Log, Notification, DNSEntry. Non-trivial = a compared line / array case; distinct = field kind and pattern class'),
    assumptions=['the standard library renderings are the oracle', 'list punctuation "[e1, e2,]" is taken from the library, only elements are compared with the standard library',
                 'arrays are compared exactly only when the reference rendering ends 64 bytes before the end of the 2048 byte buffer (the appenders reserve room conservatively)'],
    min_obs={'quick': {'truncations_observed': 300}, 'thorough': {'truncations_observed': 300}},
    timeout={'quick': 900, 'thorough': 6*3600},
)

# ---- manifest texts ---------------------------------------------------------------------------------------------------
META = {}
META['C01'] = dict(
    technique='runtime monitoring: recover/bounds-check sanitizer + CPU-time hang watchdog over worker processes, capacity-independence differential, reflection-enumerated view getters with pointer-containment oracle',
    level_text='Exploration: the real Parse and every exported view getter are executed on ~7*10^5 (quick) / ~3*10^7 (thorough) generated, truncated, corrupted and random inputs; monitors watch for panics, fatal errors, hangs, results outside the input and dependence on spare capacity. Held-on-what-was-run, not a proof.',
    level_note='Trusts Go bounds checking to surface every out-of-slice access as a panic, the CPU-time hang criterion (5 s on a microsecond case), and the generators reaching the relevant paths (class counts in the evidence).')
META['C02'] = dict(
    technique='runtime differential monitoring against an independent reference decoder (refdec) and getter tables',
    level_text='Exploration: every generated frame is decoded by the library and by an independently written RFC decoder applying the documented classification table; error-vs-success, PayloadID, addresses, ports and view start pointers are compared; every getter of every view is compared with the value the reference encoder placed at the RFC position.',
    level_note='Trusted base: refdec (self-tested against golang.org/x/net at the start of every run) and the documented dont-care zones listed in the evidence.')
META['C03'] = dict(
    technique='runtime round-trip monitoring: library encoders -> independent decoder + library views, canary-guarded capacity probes',
    level_text='Exploration: ~1.5*10^5 (quick) / ~8*10^6 (thorough) packets built with the library encoders from generated field values, decoded by refdec and by the library itself and compared with the generator ground truth; capacity probes in canary-guarded buffers.',
    level_note='Trusted base: refdec decoders; preconditions as documented by the encoders (buffers below the documented minimum only in an observation-only robustness stream).')
META['C15'] = dict(
    technique='runtime differential monitoring against an independent RFC 1071 implementation (bounded-exhaustive + random)',
    level_text='Exploration, exhaustive for all strings of length <= 2 (quick) / <= 3 (thorough): Checksum compared with an independent big-endian implementation, split identity, IPv4 headers and ICMP messages produced by the real encoders/send functions verified to sum to zero.',
    level_note='Trusted base: refdec.Sum1071 (cross-checked against the RFC 1071 worked example and x/net icmp marshal).')
META['C16'] = dict(
    technique='runtime monitoring: pointer-identity / write-through probes and the runtime allocation counter (testing.AllocsPerRun) under 4 builds',
    level_text='Exploration: for generated well-formed frames of every class the views returned by Parse are checked to alias the buffer at the reference offsets and Parse is measured to allocate 0 objects in steady state, under go1.26.8 and go1.23.5 with the verif tag on and off.',
    level_note='Trusts runtime allocation accounting; covers the frame classes listed in the evidence class counts.')
META['C20'] = dict(
    technique='runtime differential monitoring of fastlog against standard-library renderings, overflow probes at every fill level',
    level_text='Exploration with exhaustive sweeps of the small value domains (all uint16, all bytes, all 256 IPv6 zero-run layouts x 3 patterns): each line compared with the concatenated reference rendering; arrays longer than the buffer appended at every fill level must neither panic nor overflow.',
    level_note='Oracle: strconv/fmt/net/netip/time renderings; list punctuation taken from the library.')

PROPS['C08'] = dict(
    runs=[run('plain')], shards=16, watchdog=True, level='exploration',
    rule=('frames: valid messages of each protocol (ARP x7 kinds, DHCP x13, ICMPv4 x8, ICMPv6/NDP x15 with generated option lists, DNS/mDNS/LLMNR '
          'x5 with records in every section, 15 purpose-built DNS mutants (pointer self/forward/chain, label 64, RDLENGTH +-, counts +-, NSEC/unknown/OPT/'
          'TXT/SRV in authority/additional), NBNS x4, SSDP x5, LLC x6) and structural frames of every class, closed under 7 mutations and truncation at '
          'every offset; each accepted frame is dispatched by PayloadID to the real handler (arp, dhcp4 with a real lease file, icmp4, icmp6, ProcessDNS, '
          'ProcessMDNS, ProcessNBNS, ProcessSSDP, Process8023Frame) and Notify, exactly as the example loops do; plus the payload-level decoders '
          '(DecodeQuestion, DecodeAnswers, RS/RA Options, ParseHopByHopExtensions, DHCP4.ParseOptions, LLDP TLVs) on mutated byte strings. '
          'Non-trivial = the frame passed Parse and reached a handler entry point / a decoder call returned; distinct = (entry, message kind, mutation, outcome)'),
    assumptions=['a returned error is acceptable; only panic, fatal error or hang (>=5 s CPU on one case) refute', 'dns_naming.VerifNew builds the naming handler without sockets'],
    min_obs={'quick': {'decoder_calls': 20000, 'handled:arp.ProcessPacket': 1000, 'handled:dhcp4.ProcessPacket': 500, 'handled:icmp6.ProcessPacket': 1000,
                       'handled:dns.ProcessDNS': 500, 'handled:dns.ProcessMDNS': 500, 'handled:dns.ProcessNBNS': 300, 'handled:dns.ProcessSSDP': 300,
                       'handled:icmp4.ProcessPacket': 500, 'handled:Process8023Frame': 500}, 'thorough': {'decoder_calls': 20000}},
    timeout={'quick': 1200, 'thorough': 8*3600},
)

PROPS['C17'] = dict(
    runs=[run('plain')], shards=16, watchdog=True, level='exploration',
    rule=('DNS responses built from generated names (1..127 labels of 1..63 bytes, total <= 250) and record sets (A/AAAA/CNAME/PTR/MX/TXT in the answer '
          'section, NS/A in authority/additional) by three builders (refdec plain, refdec with RFC 1035 compression, x/net dnsmessage.Pack): after '
          'ProcessDNS the entry returned by DNSFind(question) must hold exactly the distinct A, AAAA, CNAME, PTR records of the answer section; nine kinds '
          'of ill-formed messages (self pointer, pointer beyond the message, two-step pointer loop, label > 63, label running off the end, RDLENGTH too '
          'long, truncated record header, truncated name, answer count too high) must be rejected; mDNS responses with A/AAAA/PTR/NSEC/TXT in every '
          'section: ProcessMDNS must return exactly the A/AAAA names (minus .local) and addresses; NBNS node status arrays with unique and group names in '
          'every order: ProcessNBNS must return the first unique name; NameEntry.Merge exhaustively over (empty,a,b)^4 x same against its three laws and '
          'PRNG update sequences from the five sources on a tracked host (Dirty flag). Ground truth = what the builders put in. '
          'Non-trivial = a compared message / merge; distinct = (builder, label-count bucket, record kinds present) etc.'),
    assumptions=['ground truth is the builder input; refdec.ParseDNS double-checks that each generated message is well-formed (or ill-formed) as intended',
                 'PTR records are generated only for IPv4 in-addr.arpa owners in the deciding stream', 'the NetBIOS suffix byte is not part of the compared name'],
    min_obs={'quick': {'dns_records_compared': 20000, 'mdns_entries_compared': 5000, 'nbns_names_compared': 1000, 'illformed_rejected': 1000}, 'thorough': {'dns_records_compared': 20000}},
    timeout={'quick': 900, 'thorough': 6*3600},
)
META['C17'] = dict(
    technique='runtime differential monitoring: messages from three independent DNS builders vs what the naming handler stores/returns; algebraic law checking of Merge',
    level_text='Exploration (merge algebra exhaustive over 3^4 x 3^4 attribute vectors): ~6*10^4 (quick) / ~3*10^6 (thorough) generated DNS/mDNS/NBNS messages processed by the real handlers and compared record by record with the builder ground truth; ill-formed names must be rejected.',
    level_note='Trusted base: refdec DNS builder/parser and x/net dnsmessage (cross-checked against each other in the self-test).')
META['C08'] = dict(
    technique='runtime monitoring: recover + CPU-time hang watchdog over killable worker processes running the real handlers on protocol-aware mutated traffic',
    level_text='Exploration: ~4*10^5 (quick) / ~2*10^7 (thorough) frames and decoder inputs dispatched exactly as the documented packet loop does; a panic, fatal error or a case burning >= 5 CPU-seconds refutes.',
    level_note='A returned error is acceptable. Trusts the watchdog criterion and the generators (handler entry counts in the evidence show what was reached).')

_HOSTS_RULE = ('histories over a small universe (MACs own/router/A/B/multicast; IPv4 three on-LAN, own, router, off-LAN, 0.0.0.0, LAN broadcast; IPv6 two LLA, two GUA, '
               'multicast source; names from the five sources), each run in its own synctest bubble on virtual time with the session created inside: steps are '
               'IPv4/ARP/IPv6 frames (Parse then Notify), DHCPv4Update + DHCP frame + Notify, bare DHCP frames, Update*Name, Capture/Release, SetDHCPv4IPOffer, and '
               'Advance(20 s .. Purge+1 min) which sleeps in the bubble so that the session\'s own minute ticker runs the real purge. Bounded-exhaustive over a 24-operation '
               'alphabet to depth 3 (quick, 13 824 histories) / 4 (thorough, 331 776) plus PRNG histories of length 20/40 under three deadline configurations. '
               'After every step: C04 model comparison of the (MAC, IP, online) set and FindIP/IPAddrs/FindByMAC/FindMACEntry/IsCaptured, C05 invariants I1-I7 on the exported '
               'tables, C06 notification obligations. Non-trivial = a history that changed the tracked set; distinct = multiset of operation kinds (capped at 3 each)')
for _p in ('C04', 'C05', 'C06'):
    PROPS[_p] = dict(
        runs=[run('plain')], shards=16, watchdog=True, level='exploration', workload='hosts', rule=_HOSTS_RULE,
        assumptions=['the reference model of DESIGN appendix A (written from the statement; executable, stepped next to the real session)',
                     'testing/synctest virtual time: timers fire in order, the bubble is quiescent at every comparison (synctest.Wait)',
                     'events are offset by 7 s so no comparison lands on a minute tick; ARP frames use equal Ethernet source and ARP sender'],
        exhaustive={'quick': True, 'thorough': True}, exhaustive_note='exhaustive only for the 24-operation alphabet up to exhaustive_depth (observed counter); the random part is sampled',
        obs_max=['exhaustive_depth'],
        min_obs={'quick': {'notifications_observed': 5000, 'ticks': 20000, 'invariant_evaluations': 50000, 'age_outs': 500, 'rebinds': 500, 'ip_changes': 500, 'deletes': 500},
                 'thorough': {'notifications_observed': 5000}},
        timeout={'quick': 1200, 'thorough': 8*3600},
    )
META['C04'] = dict(
    technique='runtime monitoring: executable reference model stepped next to the real session on virtual time (synctest), bounded-exhaustive + random histories',
    level_text='Exploration, exhaustive over a 24-operation alphabet to depth 3 (quick) / 4 (thorough): after every step of every history the tracked (MAC, IP, online) set and the query API are compared with a reference model of the discovery, IP-change, re-binding and ageing rules; the real minute ticker drives purge on virtual time.',
    level_note='Trusted base: the model (appendix A, ~250 lines, no import of the library) and synctest virtual time. Model mismatches are reported only under C04.')
META['C05'] = dict(
    technique='runtime monitoring: structural invariants I1-I7 asserted on the live exported tables at every quiescent point',
    level_text='Exploration: invariants evaluated after every step of the C04 histories (>= 5*10^4 evaluations in quick) and at the barriers of the C09 stress.',
    level_note='Invariants are checked only at quiescence (bubble idle / all harness goroutines parked), never mid-update.')
META['C06'] = dict(
    technique='runtime trace-specification monitor over the notification channel (obligations derived from the reference model), virtual time',
    level_text='Exploration (same histories as C04): every notification received after a step must be justified by an open obligation, carry the tracked address/flag/names/router flag, respect the offline-before-online order, and every obligation must be discharged; repeat traffic must be silent.',
    level_note='Order inside one purge tick is compared as a multiset (the library iterates a map). Each name field may equal the host-level or the MAC-level tracked value.')

PROPS['C07'] = dict(
    runs=[run('plain')], shards=16, watchdog=True, level='exploration',
    rule=('(1) direct sweep of the exported send functions with generated arguments, 40 calls per synctest bubble, four NIC configurations (/24, /28, /16, with and without IPv6 '
          'link-local): arp Request/RequestTo/Probe/AnnounceTo/Reply/RequestRaw/WhoIs/Scan, ICMP4SendEchoRequest, ICMP6SendEchoRequest/NeighborAdvertisement/NeighbourSolicitation/'
          'RouterSolicitation/RouterAdvertisement, Ping, Ping6, dhcp SendDiscoverPacket, SendMDNSQuery/SendLLMNRQuery/SendNBNSQuery/SendNBNSNodeStatus/SendSSDPSearch/SendSleepProxyResponse, '
          'PingAll, StartRADVS; the frames recorded between the call and the next quiescent point belong to the call and are matched field by field against the arguments (intent log). '
          '(2) the session\'s purge probes along host-tracking histories. Every frame additionally passes the universal rules (refdec strict decode, lengths, Ethernet source, IPv4/ICMP '
          'checksums, NDP hop limit 255 and option area, 33:33 group MAC mapping, DHCP/DNS payload decode). Frames of C11-C14 workloads are judged by the same monitor inside those checks. '
          'Non-trivial = a frame whose intent matched; distinct = (send path, protocol class, destination class, NIC configuration)'),
    assumptions=['refdec is the trusted decoder', 'frames emitted between two quiescent points of the bubble belong to the call made in between',
                 'well-known destinations: mDNS 224.0.0.251:5353, LLMNR 224.0.0.252:5355, SSDP 239.255.255.250:1900; UDP checksums are not part of the property'],
    min_obs={'quick': {'tx_frames_checked': 5000, 'tx_ok:purge-probe': 200}, 'thorough': {'tx_frames_checked': 5000}},
    timeout={'quick': 1200, 'thorough': 6*3600},
)
META['C07'] = dict(
    technique='runtime monitoring of every frame reaching Conn.WriteTo (recording PacketConn): reference-decoder rule monitor + intent log matching per send call, virtual time',
    level_text='Exploration: ~2*10^4 (quick) / ~10^6 (thorough) send-API calls with generated parameters plus the frames emitted along host-tracking histories; each frame must decode strictly under refdec, carry the NIC MAC as source, verify its checksums, and match the fields the call asked for.',
    level_note='Trusted base: refdec and the quiescence-based attribution of frames to calls inside the synctest bubble.')

_DHCP_RULE = ('histories of client messages to the real dhcp4_spoofer handler, each in a synctest bubble with a real lease file: per client DISCOVER (without / with requested-IP = free, '
              'another client\'s offered address, another client\'s leased address, own, router, network, broadcast, off-subnet), repeated DISCOVER, selecting REQUEST (our server id, requested = '
              'offered / other), selecting another server, renewing, rebooting, DECLINE, RELEASE, INFORM, with and without client-id option and parameter request list; Capture/Release toggles; '
              'time advances 5 s / 1 min / lease/2 / lease+ followed by MinuteTicker; a foreign server\'s OFFER on port 68; frames that make the session track an address. Three network '
              'configurations (home /28 + netfilter /29, /24 + /25, /28 + /30: small pools so wrap-around and exhaustion happen) and one whose netfilter subnet shares the network address of the home LAN '
              '(/24 + /25 low half), each of the four also - one history in seven - with a netfilter gateway (Config.NetfilterIP) that is not the host address but the next one, three modes, DNS configured or not; mid-history server restarts from the lease file (handler only, or session + handler: empty host table, capture flags gone). '
              'Bounded-exhaustive over a 15-operation alphabet on two clients to depth 3 (quick) / 5 (thorough) plus PRNG histories of length 30 on three clients. Oracle: wire-only monitor (requests built and replies '
              'decoded by refdec) with a shadow table of acknowledged bindings. Non-trivial = a history with at least one ACK; distinct = (operation-kind multiset, network configuration)')
for _p in ('C11', 'C12'):
    PROPS[_p] = dict(
        runs=[run('plain')], shards=16, watchdog=True, level='exploration', workload='dhcp', rule=_DHCP_RULE,
        assumptions=['the wire monitor of DESIGN appendix B; the capture state is known to the harness because it toggles it',
                     'C11 shadow ends a binding generously (expiry, DECLINE/RELEASE, NAK, re-ACK, the client\'s next DISCOVER); C12 "current lease" ends only on expiry, DECLINE/RELEASE, NAK, re-ACK',
                     'MinuteTicker is called by the harness after every time advance (documented usage)'],
        exhaustive={'quick': True, 'thorough': True}, exhaustive_note='exhaustive only for the 14-operation alphabet up to exhaustive_depth', obs_max=['exhaustive_depth'],
        min_obs={'quick': {'dhcp_acks': 2000, 'dhcp_offers': 5000, 'dhcp_naks': 500, 'capture_toggles': 500, 'dhcp_expiries': 100, 'histories_with_a_netfilter_gateway_other_than_the_host_address': 100}, 'thorough': {'dhcp_acks': 2000}},
        timeout={'quick': 1200, 'thorough': 8*3600},
    )
META['C11'] = dict(
    technique='runtime monitoring: online wire monitor with a shadow binding table over the DHCP replies of the real handler, virtual time, bounded-exhaustive + random histories',
    level_text='Exploration, exhaustive over a 14-operation alphabet to depth 3 (quick) / 5 (thorough): every OFFER/ACK on the wire is checked against the shadow of acknowledged bindings and the reserved-address rules (own LAN address, own netfilter gateway address, router, network, broadcast, outside the subnet, tracked for another MAC).',
    level_note='Trusted base: refdec DHCP codec, the shadow-table rules of appendix B, synctest virtual time for lease expiry.')
META['C12'] = dict(
    technique='runtime monitoring: online wire monitor of reply options and transaction conformance per capture state, virtual time',
    level_text='Exploration (same histories as C11): every OFFER/ACK must carry the options of the subnet selected by the capture state at that moment, echo xid/chaddr, and an ACK must confirm the offer of this transaction or the current lease; un-honourable requests must get NAK or silence.',
    level_note='Trusted base: as C11; the monitor knows the capture state because the harness toggles it.')

PROPS['C18'] = dict(
    runs=[run('plain')], shards=16, watchdog=True, level='fault_enumeration',
    rule=('(restart) DHCP histories that acknowledge, renew, decline, release and expire leases under capture toggles (synctest bubbles, real lease file); at the end the saved file must hold exactly '
          'the acknowledged (client id, IP) bindings of the wire monitor\'s shadow table, a new handler constructed from it must rewrite the same bindings, ACK the renewal of every bound client '
          'and not offer a bound address to a new client. (damage) for lease files saved after ACKs of 5 (quick) / 60 (thorough) histories: every prefix (each byte offset = crash point of the '
          'truncate-and-write), single-byte substitutions from {00, space, LF, colon, dash, 9, x, ff} at 250 sampled (quick) / all (thorough) offsets, deletion and duplication of every line, structured '
          'faults (state 0/1/3, ip moved to network/broadcast/other subnet/off-LAN/garbage, blocks renamed/removed/swapped, lease duplicated under another client id, client id removed/emptied, empty, '
          'non-YAML, random bytes); dhcp4_spoofer.Config.New is run on each damaged file in a killable worker and the bindings it loads are read from the file it rewrites at construction: allowed '
          'outcomes are the intact set or none. Non-trivial = a fault whose file still parses as YAML; distinct = (fault kind, YAML path of the fault site, outcome class)'),
    assumptions=['the harness reads lease files with its own YAML struct (gopkg.in/yaml.v2), not with the handler\'s loader',
                 'the restarted handler shares the session (capture state lives in the session)', 'MinuteTicker runs after a restart before the probes (documented usage)'],
    exhaustive={'quick': False, 'thorough': True}, exhaustive_note='thorough enumerates every prefix, every listed substitution at every offset and every line fault of each snapshot; quick samples the substitution offsets',
    min_obs={'quick': {'restarts_checked': 300, 'renewals_after_restart': 300, 'lease_file_snapshots': 3, 'histories_with_a_netfilter_gateway_other_than_the_host_address': 20, 'outcome:empty': 500, 'outcome:intact': 50},
             'thorough': {'restarts_checked': 300}},
    timeout={'quick': 1200, 'thorough': 8*3600},
)
META['C18'] = dict(
    technique='runtime fault injection: enumerated lease-file damage (every crash prefix, byte substitutions, line and structured faults) fed to the real loader in killable workers; restart probes on virtual time',
    level_text='Fault enumeration: every crash point of the non-atomic rewrite (every prefix) and the listed substitution / line / structured faults of lease files produced by real DHCP histories are loaded by the real constructor; plus restart probes (renewals, new client) after ~1.5*10^3 (quick) / 6*10^4 (thorough) histories.',
    level_note='Bindings are observed through the file the handler rewrites at construction and through probe replies; the fault model is single faults on files as written by the handler.')

PROPS['C13'] = dict(
    runs=[run('race', race=True)], shards=16, watchdog=True, level='exploration',
    rule=('histories of StartHunt/StopHunt/Close over three targets and two bystanders at PRNG-chosen virtual instants (delays 0, 1 ns, 100 ms, 1 s, one cycle -1 ns / exactly / +1 ns, 7 s, 13 s) '
          'interleaved with received ARP requests for the router and for other addresses, probes (with and without a different outstanding DHCP offer, probed address on and off the home LAN), '
          'announcements and replies from hunted and non-hunted hosts, and requests for the router relayed by another station (Ethernet source and ARP sender hardware address differ, one hunted and '
          'the other not); the real arp_spoofer handler with its real 6 s tickers runs in a synctest bubble under the race detector. Oracle: the call log '
          '(with frame-sequence watermarks) joined with the frames on the recorder, classified by refdec: forged frames only to MACs hunted at that point, one forged frame per cycle per hunted MAC, '
          'exactly one immediate reply to a hunted requester of the router and none otherwise, probe-reject iff different offer and on-LAN address, a packet restoring the router\'s real MAC within '
          'one cycle of StopHunt and nothing forged afterwards, a single loop per MAC, nothing after Close. Non-trivial = a history with forged frames and a corrective packet; distinct = '
          '(forged count bucket, corrective count, replies seen, rejects seen)'),
    assumptions=['synctest virtual time; the harness waits for quiescence before every call so "in the hunt list at that time" is exact',
                 'a StartHunt less than one cycle after a StopHunt of the same MAC legitimately leaves the old loop alive: cycle / corrective / single-loop rules are not applied to such intervals'],
    min_obs={'quick': {'forged_frames': 2000, 'corrective_packets': 300, 'immediate_replies': 100, 'probe_rejects': 30, 'spoof_cycles': 2000}, 'thorough': {'forged_frames': 2000}},
    timeout={'quick': 1200, 'thorough': 6*3600},
)
META['C13'] = dict(
    technique='runtime trace monitoring under the race detector: call log joined with recorded ARP frames on virtual time (synctest), real spoof loops and tickers',
    level_text='Exploration: 600 (quick) / 3*10^4 (thorough) hunt histories; every ARP frame the handler emits is classified by the reference decoder and checked against the hunt list at its sequence point, the 6 s cycle, the corrective packet bound and the reply rules; built with -race.',
    level_note='Bounded liveness only (one cycle on the virtual clock). Trusted base: refdec ARP decoding and the quiescent stepping of the bubble.')

PROPS['C14'] = dict(
    runs=[run('race', race=True)], shards=16, watchdog=True, level='exploration',
    rule=('(hunt) histories of StartHunt/StopHunt/Close over a link-local target, an address-less target, a second link-local target, an IPv4 target and a global target at PRNG-chosen virtual '
          'instants, interleaved with router advertisements from two routers (each delivered 4x because the handler samples every 4th RA) and neighbour solicitations; the real Handler6 with its '
          'real 2.0-2.8 s spoof timers runs in a synctest bubble under the race detector; every forged NA (TLLA = our MAC, target = a router) must carry override and hop limit 255, go only to a MAC '
          'hunted at that sequence point, only for routers learned by then, never after StopHunt/Close, at most one loop per MAC (>= 2 s between frames unless an RA woke the loop), and a hunted MAC '
          'must get a forged NA for every learned router within one period; StartHunt must reject IPv4 and ignore global targets. (learning) RAs built from generated option lists (prefix x0..3, '
          'MTU, RDNSS 1..3, DNSSL 1..3 domains, route information /0../128, source LLA, unknown types, random order) through Parse -> ProcessPacket, all delivered in one receive buffer that is overwritten afterwards (as the read loop does): FindRouter/LANRouters compared field by field '
          'with refdec.DecodeRA. Non-trivial = a hunt history with forged NAs / a compared RA; distinct = forged-count bucket / option-set shape'),
    assumptions=['refdec NDP codec is the trusted oracle', 'each single-valued option appears at most once per RA', 'quiescent stepping of the bubble makes "in the hunt list at that point" exact'],
    min_obs={'quick': {'forged_nas': 1500, 'ra_compared': 3000, 'hunt_spans': 500}, 'thorough': {'forged_nas': 1500}},
    timeout={'quick': 1200, 'thorough': 6*3600},
)
META['C14'] = dict(
    technique='runtime trace monitoring under the race detector on virtual time (hunt confinement) + differential monitoring of the learned router table against refdec',
    level_text='Exploration: 600 (quick) / 3*10^4 (thorough) hunt histories with the real spoof loops, and 5*10^3 / 5*10^5 generated router advertisements whose recorded router entry is compared field by field with an independent decoder.',
    level_note='Bounded liveness only (one spoof period on the virtual clock). Trusted base: refdec and the bubble stepping.')

PROPS['C19'] = dict(
    runs=[run('race', race=True)], shards=16, watchdog=True, level='exploration',
    rule=('scenarios in synctest bubbles under the race detector: 1..8 concurrent Ping / Ping6 calls to distinct destinations with time-outs 0.5 s .. 10 s and out-of-range values (0, negative, 11 s: '
          'documented default 2 s); the identifier of each is read from its own echo request on the recorder; generated arrivals are parsed at chosen virtual instants strictly before or after each '
          'time-out: the matching echo reply (parsed inside the WriteTo of the request itself, i.e. before the sender is back from its write; half-way; 1 ms before; 1 ms after the time-out; or never), replies with an unused identifier, echo requests carrying the same identifier, truncated '
          'ICMP, duplicate replies; a send error is injected into some pings. Oracle: nil iff a matching reply was parsed before the time-out (and the call returns at that instant), ErrTimeout '
          'exactly at the time-out otherwise, the send error on a failed write, distinct identifiers, no waiter left (hook VerifICMPWaiters). Non-trivial = a scenario whose pings all returned; '
          'distinct = (number of pings, set of outcome/arrival kinds)'),
    assumptions=['synctest virtual time: arrivals and time-outs never coincide', 'cross-family replies (ICMPv6 reply carrying the identifier of an ICMPv4 ping) are not generated: the statement does not say'],
    min_obs={'quick': {'pings': 8000, 'scenarios_ok': 1500}, 'thorough': {'pings': 8000}},
    timeout={'quick': 1200, 'thorough': 6*3600},
)
META['C19'] = dict(
    technique='runtime scenario monitoring under the race detector on virtual time: concurrent pings vs scheduled matching / foreign / malformed replies, waiter-table hook',
    level_text='Exploration: 3*10^3 (quick) / 2*10^5 (thorough) scenarios of up to 8 concurrent pings; each ping result and return instant is compared with what the arrival schedule implies; the waiter table must be empty afterwards.',
    level_note='Trusted base: the scenario generator never schedules an arrival at a time-out instant; identifiers are read from the wire.')

PROPS['C10'] = dict(
    runs=[run('plain')], shards=16, watchdog=True, level='exploration',
    rule=('packet histories of 24 steps through the full stack (session + arp, dhcp4 with a real lease file, icmp6, dns handlers) in synctest bubbles: DHCP DISCOVER / selecting REQUEST (using the '
          'offer seen) / renew with client-id, host name and parameter list, router advertisements with generated option lists (x4), DNS and mDNS responses, NBNS, SSDP, ARP, IPv4 and IPv6 host '
          'frames, Capture/Release, time advances with MinuteTicker. Each history is executed twice with identical virtual times: (A) every packet is delivered in ONE shared receive buffer that is '
          'overwritten with a5 / 5a / PRNG bytes as soon as Parse+ProcessPacket+Notify return, (B) every packet in a private never-modified buffer. Per step the two runs are compared on: notification '
          'multiset, emitted frames (DHCP canonicalised by sorted options), host and MAC tables with all five names, DHCP offers, DNSFind of every name seen, FindRouter with all option fields, the entries ProcessMDNS returned so far (= its duplicate cache; re-read after the overwrite), and the '
          'lease file. Non-trivial = a history in which some handler retained something (lease, router, DNS entry); distinct = number of retention points'),
    assumptions=['both runs see identical virtual time (synctest), so any difference is caused by the buffer reuse', 'map iteration order differences are removed by canonicalisation (sorting)'],
    min_obs={'quick': {'retention_points_compared': 3000, 'transcript_lines_compared': 100000, 'mdns_entries_reread_after_overwrite': 1000}, 'thorough': {'retention_points_compared': 3000}},
    timeout={'quick': 1200, 'thorough': 6*3600},
)
META['C10'] = dict(
    technique='runtime differential monitoring: identical packet histories with a scribbled shared receive buffer vs private immutable buffers, compared per step on all retention points (virtual time)',
    level_text='Exploration: 1.5*10^3 (quick) / 10^5 (thorough) histories x 2 runs through the whole handler stack; any retained slice of the caller buffer shows up as a difference in tables, names, leases, routers, DNS entries, later replies or notifications.',
    level_note='Trusted base: determinism of the two bubbles (same virtual clock, same PRNG); canonicalisation removes map-order differences only.')

PROPS['C09'] = dict(
    runs=[run('race', race=True, shards=8, restart=False)], shards=8, watchdog=True, level='exploration',
    rule=('randomized multi-core stress of the supported pattern under the Go race detector, one run per worker process (8 runs in quick, 48 in thorough): one packet-loop goroutine '
          '(ReadFrom on the recorder -> Parse -> arp/dhcp4/icmp4/icmp6/ProcessMDNS (+UpdateMDNSName) -> Notify) fed a frame mix over 6 MACs x 12 addresses (IPv4, ARP, IPv6 LLA/GUA, DHCP, RA, mDNS); '
          'a purge goroutine calling the hook VerifPurge(now) with now alternating present / +6 min / +62 min so hosts continuously age, die and are re-created; the real spoof loops of both '
          'spoofers; a channel drainer; a wire goroutine that collects the transmitted frames and plays the DHCP clients (real DISCOVER/OFFER/REQUEST/ACK handshakes, then renewals, DECLINEs and RELEASEs of the leases that exist); 8-14 API goroutines that work for the whole run, drawing from FindIP (+row-locked field reads), GetHosts, IPAddrs, FindByMAC, FindMACEntry, PrintTable, Capture, Release, IsCaptured, '
          'SetDHCPv4IPOffer, DHCPv4IPOffer, arp/icmp6/dhcp StartHunt/StopHunt (one goroutine concentrates on hunts of leased addresses), IsHunting, dhcp MinuteTicker, handler PrintTable, FindRouter; finally Close of handlers and session while traffic flows. '
          'The harness keeps out of the detector\'s way: no shared counter, lock or log writer is touched on the operation path after the first 2 s (statistics phase), the recorder is sharded, half of the runs are silent (library loggers at error level; a quarter each at info / debug), the porcupine history (shared clock) is recorded in every third run only. Per run a different GOMAXPROCS (2/4/16) and a different perturbation vector over the 8 tag-guarded yield points (nothing / Gosched / sleep 50-500 us). Oracles: race-detector reports parsed '
          'from GORACE logs (key = pair of innermost irai/packet frames), process-fatal errors and panics, a progress monitor that cannot be blocked by the operations it watches (no completed operation, or a barrier request not granted, for 25 s AND >= 2 goroutines blocked on locks inside library frames AND < 0.3 s of process CPU in a 3 s window = deadlock, keyed by the nested blocked frames; otherwise inconclusive), C05 '
          'invariants at barriers where all harness goroutines are parked, goroutines still running library code 1.5 s after Close, a deterministic Close/leak check in synctest bubbles, and a porcupine '
          'linearizability check of Capture/Release/IsCaptured and offer accessors on two never-purged MACs. Non-trivial = a completed run; distinct = (GOMAXPROCS, API goroutines, yield vector)'),
    assumptions=['the race detector only sees races that occurred on paths the stress reached', 'harness goroutines follow the documented contract (row lock to read Host/MACEntry fields obtained from FindIP, a single Parse goroutine)',
                 'barriers are skipped after 55 s because the session\'s own minute ticker is an ungated table writer'],
    min_obs={'quick': {'barriers': 100, 'frames_handled': 10000, 'purges': 2000, 'harness_ops': 300000, 'close_bubbles': 20, 'history_ops_checked': 2000,
                      'dhcp_leases_acknowledged_in_stress': 50, 'dhcp_hunts_of_leased_addresses': 20000}, 'thorough': {'barriers': 100, 'dhcp_leases_acknowledged_in_stress': 50}},
    timeout={'quick': 1200, 'thorough': 6*3600},
)
META['C09'] = dict(
    technique='Go race detector + invariant barriers + deadlock/leak monitors over a randomized multi-core stress with tag-guarded schedule perturbation; porcupine linearizability check of register-like API; synctest bubble leak detector',
    level_text='Exploration: 8 (quick) / 48 (thorough) stress runs of ~15-40 s each, every run with its own GOMAXPROCS and yield-point perturbation vector; reports are de-duplicated by the pair of innermost library frames. Says nothing about interleavings the scheduler did not produce.',
    level_note='Trusted base: the race detector, the harness gate (barriers are quiescent), the contract-conforming API goroutines.')

# thresholds for the observation counters of the workload features added after the seeded-change rounds (about 1/10 of
# what a quick run observes): a feature that silently stops being exercised makes the check inconclusive, not green
_EXTRA_MIN_OBS = {'C01': {'stale_reply_then_runt': 40, 'replies_inside_write': 30}, 'C02': {'frames_with_link_padding': 2000}, 'C03': {'dns_names_of_253': 100, 'ip4_headers_checksummed': 100000, 'padded_frames': 700}, 'C04': {'named_frames': 250, 'relayed_arp_frames': 120, 'runt_frames': 120}, 'C05': {'named_frames': 250, 'relayed_arp_frames': 120, 'runt_frames': 120}, 'C06': {'named_frames': 250, 'relayed_arp_frames': 120, 'runt_frames': 120}, 'C08': {'stale_reply_then_runt': 40}, 'C11': {'midhistory_restarts': 1000, 'restarts_with_new_dns': 400}, 'C12': {'midhistory_restarts': 1000, 'restarts_with_new_dns': 400}, 'C13': {'relayed_requests_mixed_hunt_state': 8, 'starthunt_with_another_ip': 50}, 'C14': {'hunt_calls_with_another_address': 30}, 'C16': {'truncated_frames_tried': 500}, 'C17': {'dns_names_near_limit': 300, 'mac_level_merges_checked': 9000}, 'C18': {'midhistory_restarts': 40, 'restart_probes_after_ageing': 70}, 'C19': {'replies_inside_write': 200, 'duplicate_replies_inside_write': 50, 'stale_reply_then_runt': 300}, 'C20': {'library_log_lines_judged': 10000, 'library_log_histories': 20}}
for _p, _m in _EXTRA_MIN_OBS.items():
    PROPS[_p]['min_obs'] = dict(PROPS[_p]['min_obs'])
    PROPS[_p]['min_obs']['quick'] = dict(PROPS[_p]['min_obs'].get('quick', {}), **_m)

# every exported view type must have produced valid instances (a seed the view rejects leaves its getters unexplored)
PROPS['C01']['min_obs']['quick'] = dict(PROPS['C01']['min_obs']['quick'], **{'views_valid:' + t: 60 for t in ['ARP', 'DHCP4', 'DNS', 'Ether', 'EthernetPause', 'HopByHopExtensionHeader', 'ICMP', 'ICMP4Redirect', 'ICMP6NeighborAdvertisement', 'ICMP6NeighborSolicitation', 'ICMP6Redirect', 'ICMP6RouterAdvertisement', 'ICMP6RouterSolicitation', 'ICMPEcho', 'IEEE1905', 'IP4', 'IP6', 'LLC', 'LLDP', 'RRCP', 'SNAP', 'TCP', 'UDP']})

# every send path (C07) and every handler entry point (C08) must have been observed
for _p, _m in {'C07': {'tx_ok:ICMP4SendEchoRequest': 85, 'tx_ok:ICMP6SendEchoRequest': 81, 'tx_ok:ICMP6SendNeighborAdvertisement': 79, 'tx_ok:ICMP6SendNeighbourSolicitation': 81, 'tx_ok:ICMP6SendRouterAdvertisement': 64, 'tx_ok:ICMP6SendRouterSolicitation': 65, 'tx_ok:Ping': 82, 'tx_ok:Ping6': 81, 'tx_ok:arp.AnnounceTo': 79, 'tx_ok:arp.Probe': 83, 'tx_ok:arp.Reply': 90, 'tx_ok:arp.Request': 83, 'tx_ok:arp.RequestRaw': 79, 'tx_ok:arp.RequestTo': 84, 'tx_ok:arp.Scan': 10491, 'tx_ok:arp.WhoIs': 248, 'tx_ok:dhcp.SendDiscoverPacket': 81, 'tx_ok:dns.SendLLMNRQuery': 24, 'tx_ok:dns.SendMDNSQuery': 24, 'tx_ok:dns.SendNBNSNodeStatus': 84, 'tx_ok:dns.SendNBNSQuery': 83, 'tx_ok:dns.SendSSDPSearch': 83, 'tx_ok:dns.SendSleepProxyResponse': 83, 'tx_ok:icmp6.PingAll': 123, 'tx_ok:icmp6.StartRADVS': 198, 'tx_ok:purge-probe': 1423}, 'C08': {'handled:Process8023Frame': 1815, 'handled:arp.ProcessPacket': 1238, 'handled:dhcp4.ProcessPacket': 1174, 'handled:dns.ProcessDNS': 1496, 'handled:dns.ProcessMDNS': 1919, 'handled:dns.ProcessNBNS': 1137, 'handled:dns.ProcessSSDP': 1132, 'handled:icmp4.ProcessPacket': 1315, 'handled:icmp6.ProcessPacket': 929}}.items():
    PROPS[_p]['min_obs'] = dict(PROPS[_p]['min_obs'])
    PROPS[_p]['min_obs']['quick'] = dict(PROPS[_p]['min_obs'].get('quick', {}), **_m)

# every view covered by the C02 getter comparison must have been compared
PROPS['C02']['min_obs'] = dict(PROPS['C02']['min_obs'])
PROPS['C02']['min_obs']['quick'] = dict(PROPS['C02']['min_obs'].get('quick', {}), **{'getters_compared:ARP': 480, 'getters_compared:DHCP4': 1180, 'getters_compared:DNS': 692, 'getters_compared:Ether': 460, 'getters_compared:HopByHopExtensionHeader': 623, 'getters_compared:ICMP6NeighborSolicitation': 479, 'getters_compared:ICMP6Redirect': 373, 'getters_compared:ICMP6RouterAdvertisement': 692, 'getters_compared:ICMPEcho': 534, 'getters_compared:IP4': 799, 'getters_compared:IP6': 533, 'getters_compared:RRCP': 1012, 'getters_compared:SNAP': 373, 'getters_compared:TCP': 961, 'getters_compared:UDP': 320})

# workload features added after the fifth and sixth round of seeded changes: each must actually have been exercised
for _p, _m in {'C04': {'notification_channel_full': 30}, 'C05': {'histories_with_unread_notification_channel': 30}, 'C07': {'tx_ok:dhcp-reply': 10000, 'tx_ok:ValidateDefaultRouter': 140}, 'C03': {'dhcp_legacy_fields_round_trips': 1000},
               'C09': {'close_bubble_quiet_periods': 8}, 'C11': {'dhcp_pools_crowded': 80}, 'C12': {'dhcp_pools_crowded': 80},
               'C13': {'router_requests_sent_unicast': 70}, 'C15': {'headers_completed_concurrently': 100000}, 'C16': {'views_checked_on_padded_frames': 600},
               'C17': {'dns_messages_over_1k': 300, 'dns_compression_pointers_beyond_1k': 200}, 'C18': {'restart_offer_probes': 700}}.items():
    PROPS[_p]['min_obs'] = dict(PROPS[_p]['min_obs'])
    PROPS[_p]['min_obs']['quick'] = dict(PROPS[_p]['min_obs'].get('quick', {}), **_m)

# rule text: what the later rounds added to the workloads
_RULE_ADD = {
    'C04': ' Every sixteenth random history runs on a LAN of 136 further stations whose owner never reads the notification channel (channel full): tracking and invariants are judged as always, the notification trace is not.',
    'C07': ' The DHCP histories of C11/C12 (request lists absent / empty / with the router but not the mask, capture, restarts, exhausted pools) run as a sub-stream: every reply of the server goes through the same rules (mask before router among them).',
    'C15': ' IPv4 headers are completed a second time over the same bytes (same and shorter payload), and by four goroutines at once, each in its own buffer.',
    'C16': ' Upper layer views must end with the decoded packet (IPv4 total length, IPv6 payload length: rule beyond-packet) and Payload() must start at an offset the reference decoder allows (rule Payload:offset).',
    'C20': ' Short arrays (1..3 elements) are appended at every fill level of the last 96 bytes and compared exactly when the reference leaves 8 bytes (48 for address lists); arrays with unset elements (nil address, empty string) are judged structurally (brackets, set elements in order, neighbours intact).',
    'C13': ' Requests for the router arrive by broadcast and unicast (to this host, to the real router).',
    'C19': ' A third of the IPv4 peers send datagrams with IPv4 options whose bytes mimic the awaited echo reply.',
    'C09': ' The race-built close bubbles contain quiet periods of several virtual minutes (NIC monitor, purge and hunt timers run between packets).',
    'C10': ' Router advertisements also come from a second Ethernet address of the same router (with and without a source link layer option) and carry prefix lengths 0..128.',
    'C11': ' A fourth logical client shares the MAC of client 1 under its own client identifier; small pools are exhausted by stations with static addresses (op crowd); parameter request lists vary.',
    'C17': ' One response in eight exceeds a kilobyte, with compression pointers beyond offset 1023.',
    'C18': ' After the restart every bound address is asked for by a new network card and by a second client identifier on the holder\'s card.',
    'C02': ' IPv6 frames with bytes after the payload length are in the don\'t-care zone for acceptance; when accepted, every view must end at 40 + payload length. TCP reserved bits are random.',
    'C03': ' Every layer of a third of the UDP chains and of the IPv4 sweep is completed twice.',
}
_RULE_ADD['C12'] = _RULE_ADD['C11']
_RULE_ADD['C05'] = _RULE_ADD['C06'] = _RULE_ADD['C04']
for _p, _t in _RULE_ADD.items():
    PROPS[_p]['rule'] = PROPS[_p]['rule'] + _t

# features added after the seventh round
for _p, _m in {'C08': {'slow_traffic_frames_handled': 500}, 'C11': {'malformed_declines': 200, 'time_passing_without_tick': 300, 'rebinding_requests': 400},
               'C12': {'malformed_declines': 200, 'time_passing_without_tick': 300, 'rebinding_requests': 400}, 'C13': {'dhcp_confirmations': 30},
               'C16': {'forwarded_copy_pairs_measured': 500}, 'C18': {'full_lan_restarts_checked': 2, 'full_lan_bindings_checked': 300}}.items():
    PROPS[_p]['min_obs'] = dict(PROPS[_p]['min_obs'])
    PROPS[_p]['min_obs']['quick'] = dict(PROPS[_p]['min_obs'].get('quick', {}), **_m)
_RULE_ADD2 = {
    'C08': ' A sub-stream feeds the same kinds of frames minutes apart on a virtual clock (rate limited log statements, cache expiry) and 802.3 frames carry payloads up to the MTU.',
    'C11': ' DECLINEs that name no / a malformed / somebody else\'s address, a client with a zero length client identifier, renewals broadcast (rebinding), and time passing without a MinuteTicker call are part of the histories.',
    'C13': ' Op confirm: the DHCP handler confirms the station\'s address (DHCPv4Update), which replaces the offer on record.',
    'C16': ' A tracked client\'s frame and its forwarded copy (this host\'s MAC as source) alternating must stay allocation free and the copy must not get a host.',
    'C18': ' Full LAN: 150..240 clients with long identifiers lease addresses (lease file of several hundred KiB), restart, every binding present, renewals acknowledged, no bound address offered.',
    'C01': ' View seeds include LLDPDUs with TLVs of up to 511 bytes and DHCP messages with 255 byte options.',
}
_RULE_ADD2['C12'] = _RULE_ADD2['C11']
for _p, _t in _RULE_ADD2.items():
    PROPS[_p]['rule'] = PROPS[_p]['rule'] + _t

# features added after the eighth and ninth round
for _p, _m in {'C04': {'late_ageing_passes': 150}, 'C06': {'late_ageing_passes': 150}, 'C11': {'restarts_with_router_on_a_leased_address': 60},
               'C12': {'restarts_with_router_on_a_leased_address': 60}, 'C13': {'stophunt_with_ipv6_or_no_address': 5}}.items():
    PROPS[_p]['min_obs'] = dict(PROPS[_p]['min_obs'])
    PROPS[_p]['min_obs']['quick'] = dict(PROPS[_p]['min_obs'].get('quick', {}), **_m)
_RULE_ADD3 = {
    'C04': ' Op latepass: one ageing pass whose clock is past the offline / purge deadline of hosts that are still online.',
    'C07': ' NBNS queries are sent for names of up to 44 characters and the question label is decoded (RFC 1001 first level encoding).',
    'C11': ' Restarts may come back with the router replaced and sitting on a leased address (the table is reset by design, the address is the router\'s now).',
    'C13': ' StopHunt is also called with the station\'s IPv6 address or none (the hunt is keyed by MAC).',
    'C14': ' Advertisements may carry an MTU option of the wrong length after a valid one, several route information options, prefix lengths 0..128.',
    'C19': ' The peer\'s echo datagrams carry random DSCP / traffic class / flow label, IPv4 options, and echo all, part or none of the data.',
    'C03': ' A third of the chains hand EncodeIP6 / EncodeUDP input slices of length 0..40 with capacity behind them; both UDP ports may come from the port table.',
    'C16': ' The first fragment of a fragmented UDP datagram is a well-formed frame; the allocation clause also covers frames the reference finds well-formed and Parse rejects.',
}
_RULE_ADD3['C05'] = _RULE_ADD3['C06'] = _RULE_ADD3['C04']
_RULE_ADD3['C12'] = _RULE_ADD3['C11']
for _p, _t in _RULE_ADD3.items():
    PROPS[_p]['rule'] = PROPS[_p]['rule'] + _t

# features added after the tenth round
for _p, _m in {'C04': {'histories_with_eight_days_uptime': 4}, 'C14': {'starthunt_after_close': 100}, 'C20': {'lines_rendered_concurrently': 500000}}.items():
    PROPS[_p]['min_obs'] = dict(PROPS[_p]['min_obs'])
    PROPS[_p]['min_obs']['quick'] = dict(PROPS[_p]['min_obs'].get('quick', {}), **_m)
_RULE_ADD4 = {
    'C04': ' One random history in 128 lets eight days pass (11 520 runs of the minute ticker) in its middle.',
    'C07': ' Replies of the DHCP server must go to the broadcast addresses or to the client\'s hardware address and an address the transaction names (rule dhcp:reply-destination, also reported under C12).',
    'C08': ' DHCP server messages arrive on the server port and client messages on the client port as well. A worker that makes no progress and uses no CPU for 40 s is asked for its goroutines: if the one running the cases waits on a lock or channel below an irai/packet frame the case is reported as blocked:<frame>.',
    'C09': ' A goroutine that waits for a library lock at the same place for three seconds is reported as a deadlock even when the rest of the process is busy (a lock that is never released).',
    'C14': ' After Close half of the histories ask for two more hunts: nothing forged may follow. Route information options may carry the reserved preference (to be ignored).',
    'C20': ' Lines are rendered by twelve goroutines at once (plain and nested through a Stringer field) and compared; a second run of this part under the race detector reports races inside fastlog (the line pool) under C20.',
    'C03': ' A zero length UDP payload may be a nil slice.',
    'C11': ' Scripted beginnings include two clients offered the same address (offer contention) and an address with earlier, expired holders that its new holder releases and asks for again.',
}
_RULE_ADD4['C12'] = _RULE_ADD4['C11'] + _RULE_ADD4['C07']
for _p, _t in _RULE_ADD4.items():
    PROPS[_p]['rule'] = PROPS[_p]['rule'] + _t

# features added after the eleventh round
for _p, _m in {'C05': {'frames_injected_between_purge_steps': 2000}, 'C07': {'forged_declines_checked': 300}, 'C11': {'forged_declines_checked': 300},
               'C12': {'forged_declines_checked': 300}, 'C13': {'histories_with_send_window': 40}, 'C14': {'ra_from_nobody_checked': 200},
               'C15': {'headers_completed_concurrently': 50000}, 'C16': {'untracked_source_pairs_measured': 500},
               'C19': {'late_pings_after_slow_send_failure': 200}, 'C20': {'dns_entries_with_all_three_lists': 15}}.items():
    PROPS[_p]['min_obs'] = dict(PROPS[_p]['min_obs'])
    PROPS[_p]['min_obs']['quick'] = dict(PROPS[_p]['min_obs'].get('quick', {}), **_m)
_RULE_ADD5 = {
    'C02': ' Station MACs include unicast addresses that look special (all zero, 01-bit clear but ff:.. tails, vendor prefixes of multicast ranges with the group bit clear).',
    'C05': ' One random history in sixteen delivers frames from inside the purge pass, at its yield points (hook), so that a frame is parsed between two steps of one pass.',
    'C07': ' The DECLINE this host forges in answer to a foreign server\'s OFFER must name the offered address (yiaddr), that server, the client\'s chaddr / identifier and the OFFER\'s xid (rule dhcp:forged-decline-fields).',
    'C09': ' Close is called from four goroutines at once.',
    'C13': ' Window mode: the transport delays every write by a few milliseconds of virtual time, so StopHunt, the claim and the DHCP confirmation fall between the frames of one burst; the only rule is that the station is not left poisoned after the hunt stopped (arp:left-poisoned-after-stop).',
    'C14': ' Router advertisements whose source MAC belongs to nobody on the LAN must not redirect the hunt target (router:learned-from-nobody).',
    'C15': ' Eight goroutines complete headers in their own buffers at once and are compared with the reference; a second, race-built run of that part reports races inside the checksum / header code under C15.',
    'C16': ' Frames whose source address belongs to nobody (not this host, not the router, not tracked) in kinds that must not create a host are measured as pairs: allocation free and no host afterwards.',
    'C17': ' Recording the same answer twice must leave the entry and the pending flag of the host as after the first time (host-pending-changed).',
    'C19': ' An injected send failure may take a millisecond to be reported while later pings take their identifiers; two more pings started after it must get identifiers no other pending ping of the scenario used on the wire.',
    'C20': ' DNS table entries (decoded answers enriched with random A, AAAA and CNAME records) are rendered and each of the three lists is compared with the records of its own kind.',
}
_RULE_ADD5['C04'] = _RULE_ADD5['C06'] = _RULE_ADD5['C05']
_RULE_ADD5['C11'] = _RULE_ADD5['C12'] = _RULE_ADD5['C07']
for _p, _t in _RULE_ADD5.items():
    PROPS[_p]['rule'] = PROPS[_p]['rule'] + _t

# features added after the twelfth round
for _p, _m in {'C03': {'chains_read_back_through_every_header_view': 10000}, 'C07': {'intent_matched:arp.ProcessPacket(probe)': 150},
               'C09': {'sessions_closed_by_six_goroutines_at_once': 600}, 'C11': {'renewals_sent_from_another_address_than_ciaddr': 100, 'messages_with_a_host_name_option': 20000},
               'C12': {'renewals_sent_from_another_address_than_ciaddr': 100, 'messages_with_a_host_name_option': 20000}, 'C13': {'router_address_claimed_by_another_station': 30},
               'C15': {'ndp_messages_of_256_bytes_and_more': 200}, 'C18': {'messages_with_a_host_name_option': 5000}}.items():
    PROPS[_p]['min_obs'] = dict(PROPS[_p]['min_obs'])
    PROPS[_p]['min_obs']['quick'] = dict(PROPS[_p]['min_obs'].get('quick', {}), **_m)
_RULE_ADD6 = {
    'C03': ' Every chain is also read back through the Ethernet convenience views (Src, Dst, SrcIP, DstIP) and every IPv4 / IPv6 header accessor.',
    'C07': ' The ARP handler\'s answer to an address-conflict probe by a station that holds our DHCP offer is judged field by field (sender address = the probed address, unicast to the prober; none for the offered address, without an offer, outside the LAN). One advertisement in four carries 4..12 prefixes (256 bytes and more).',
    'C08': ' PTR records come with owner names of every shape: address literals of both families inside one label, with and without the arpa suffix, too few / many / large parts, ip6.arpa nibbles.',
    'C09': ' API goroutines keep the Router values FindRouter returned and render every part of them later, without a lock (they are documented as copies). After the stress run 150 fresh sessions are closed by six goroutines each, released together from a spin barrier (Close storm): a panic or a Close that does not return is reported.',
    'C11': ' A renewal that names another address than the client\'s may still come from the client\'s real address (IP source differs from ciaddr). Clients send host names (option 12) with characters that mean something to formatters, YAML and terminals.',
    'C13': ' Op router-claim: another station announces the router\'s address as its own; forged frames and the corrective packet must still carry the router\'s real MAC.',
    'C14': ' One advertisement in five carries a target link-layer address option (meaningless in an RA: to be ignored).',
    'C15': ' One send in eight is a neighbour discovery message (RS, NA, NS, RA with 1..14 prefixes and 0..4 DNS servers, up to about 600 bytes) verified against its pseudo header.',
    'C18': ' Host names (option 12) include percent signs, colons, quotes, newlines, NUL and invalid UTF-8: the lease file must round-trip them.',
    'C20': ' One LLDPDU in three has TLVs shorter than their type prescribes (capabilities of one byte, identifiers without subtype).',
}
_RULE_ADD6['C12'] = _RULE_ADD6['C11']
_RULE_ADD6['C01'] = _RULE_ADD6['C20'] + _RULE_ADD6['C08']
for _p, _t in _RULE_ADD6.items():
    PROPS[_p]['rule'] = PROPS[_p]['rule'] + _t

# features added after the thirteenth round
for _p, _m in {'C08': {'stations_hunted_while_handlers_run': 60}, 'C11': {'requests_to_another_server_naming_the_address_in_ciaddr': 80},
               'C12': {'requests_to_another_server_naming_the_address_in_ciaddr': 80}, 'C13': {'starthunt_under_another_targets_address': 120},
               'C16': {'frames_larger_than_a_standard_frame': 150}, 'C19': {'other_icmp_types_carrying_the_identifier': 500}}.items():
    PROPS[_p]['min_obs'] = dict(PROPS[_p]['min_obs'])
    PROPS[_p]['min_obs']['quick'] = dict(PROPS[_p]['min_obs'].get('quick', {}), **_m)
_RULE_ADD7 = {
    'C03': ' The DNS query encoder is read back through every header view (QR, OpCode, AA, TC, RD, RA, Z, ResponseCode, the four counts) against the encoded flags word.',
    'C07': ' One echo call in five is given an address the IPv4 header cannot carry (other family, unset, IPv4-mapped, zoned) on one side or both: an error and no frame are demanded.',
    'C08': ' Two handler stacks in three are at work: some clients captured and hunted over ARP and ICMPv6 while the frames arrive. A stack whose handler panicked is abandoned, not closed.',
    'C11': ' A REQUEST may name another server without a requested address option, its address in ciaddr only.',
    'C13': ' A station may be hunted under the address another target has or had (an address that changed hands): hunts are per MAC.',
    'C16': ' The caller\'s buffer holds up to 40 000 bytes: frames larger than a standard Ethernet frame (baby giants, jumbo MTU, receive offload) are measured like any other.',
    'C19': ' Extras include other ICMP messages (errors, timestamp, router / neighbour discovery, MLD, unknown types) whose bytes 4..5 equal the identifier of the pending ping.',
    'C20': ' ICMP4Redirect views come with tables of exactly the announced size (entry sizes 1, 2, 3, 4 and 10 words).',
    'C01': ' Frame payloads reach 1472..17000 bytes (UDP) and 1440..32000 bytes (TCP) now and then.',
}
_RULE_ADD7['C12'] = _RULE_ADD7['C11']
_RULE_ADD7['C02'] = _RULE_ADD7['C01']
for _p, _t in _RULE_ADD7.items():
    PROPS[_p]['rule'] = PROPS[_p]['rule'] + _t

for _p in ('C04', 'C05', 'C06'):
    PROPS[_p]['min_obs'] = dict(PROPS[_p]['min_obs'])
    PROPS[_p]['min_obs']['quick'] = dict(PROPS[_p]['min_obs'].get('quick', {}), **{'histories_with_an_eight_byte_hardware_address': 500})
    PROPS[_p]['rule'] = PROPS[_p]['rule'] + ' One history in eight makes a station with an EUI-64 (8 byte) hardware address known through Capture / Release / SetDHCPv4IPOffer; its first six bytes are those of another station.'

# features added after the fourteenth round
PROPS['C20']['min_obs'] = dict(PROPS['C20']['min_obs'])
PROPS['C20']['min_obs']['quick'] = dict(PROPS['C20']['min_obs'].get('quick', {}), **{'struct_fields_compared_with_their_own_rendering': 500})
_RULE_ADD8 = {
    'C03': ' A quarter of the chains complete the Ethernet layer on a view that already carries an earlier, shorter frame (a reused view).',
    'C07': ' Every advertisement of the RA daemon (StartRADVS, its ticker, SendRA) must carry the prefix and DNS servers the caller asked for, also after the handler learned another LAN router meanwhile.',
    'C19': ' Truncated IPv6 echo replies may come with the missing bytes (identifier first) as link layer trailer behind the declared payload.',
    'C20': ' Line.Struct(v) must append exactly what v.FastLog appends, for zero values of Addr, Notification, NameEntry and DNSEntry as for filled ones.',
}
for _p, _t in _RULE_ADD8.items():
    PROPS[_p]['rule'] = PROPS[_p]['rule'] + _t

for _p in ('C11', 'C12'):
    PROPS[_p]['min_obs'] = dict(PROPS[_p]['min_obs'])
    PROPS[_p]['min_obs']['quick'] = dict(PROPS[_p]['min_obs'].get('quick', {}), **{'histories_with_one_device_under_two_identities': 300})
    PROPS[_p]['rule'] = PROPS[_p]['rule'] + ' One history in seven knows client 0\'s device under a second identity (01+MAC next to the bare hardware address); a scripted beginning lets the pool fill up and that identity ask twice while it is exhausted.'
PROPS['C17']['min_obs'] = dict(PROPS['C17']['min_obs'])
PROPS['C17']['min_obs']['quick'] = dict(PROPS['C17']['min_obs'].get('quick', {}), **{'nbns_responses_with_several_status_records': 500})
PROPS['C17']['rule'] = PROPS['C17']['rule'] + ' A third of the node status responses spread their name array over two or three NBSTAT records (one may be empty or hold group names only).'
