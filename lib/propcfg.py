# Per-property configuration of the driver (see DESIGN.md sections 4.1 and 5).
GO = 'go1.26.8'

def run(name, race=False, tool=GO, **kw):
    d = dict(name=name, race=race, tool=tool)
    d.update(kw)
    return d

PROPS = {}

PROPS['C15'] = dict(
    runs=[run('plain')], shards=16, watchdog=False, level='exploration',
    rule=('cases: every byte string of length 0..2 (quick) / 0..3 (thorough), single 16-bit-word perturbations '
          '{0000,ffff,8000,00ff,ff00} at every offset of carriers of length 20,21,1500,1521,1522, all-ff and ramp carriers of every '
          'length 0..1522, PRNG strings with length = index mod 1523 plus a split-point identity check, IPv4 headers through '
          'EncodeIP4+SetPayload/AppendPayload, ICMPv4/ICMPv6 echo requests through the send functions. Oracle: independent big-endian '
          'RFC 1071 sum (refdec.Sum1071), byte-swapped. A case is non-trivial if it is non-empty and agreed; distinct classes = '
          '(length parity, log2 of carry count, second fold needed) / split parities / encoder path'),
    assumptions=['refdec.Sum1071 (20 lines, 64-bit accumulator, big-endian words) is the trusted oracle',
                 'the library documents that it stores the checksum low byte first, so values are compared byte-swapped'],
    exhaustive={'quick': False, 'thorough': False},
    exhaustive_note='exhaustive only for strings of length <= exhaustive_len (observed counter)',
    obs_max=['exhaustive_len'],
    min_obs={'quick': {'icmp_frames_checked': 2000}, 'thorough': {'icmp_frames_checked': 2000}},
)

PROPS['C01'] = dict(
    runs=[run('plain')], shards=16, watchdog=True, level='exploration',
    rule=('inputs: (S1) structurally valid frames of every EtherType/IP-protocol/UDP-port class x 7 mutations (none, truncate, length/count '
          'field set to {0,1,v-1,v+1,max,...}, bit flips, splice, zero-fill, extend); (S2) truncation of structural frames at every offset; '
          '(S3) random / all-ff / zero strings of every length 0..1600 steered to each EtherType and IP protocol; (S4) every exported view type '
          'x {random strings of every length 0..min+64, generated valid messages, truncated and byte-corrupted ones}, all zero-argument methods '
          'enumerated by reflection. Each Parse input is parsed twice (cap==len, and in a larger buffer whose spare capacity holds 0xff / PRNG / '
          'the plausible continuation of the packet) and the two results compared. Non-trivial: Parse returned nil and decoded a layer above '
          'Ethernet, or returned an error past the Ethernet check, or a valid view had its getters called; distinct = '
          '(PayloadID, error class, length bucket, mutation) / (view type, mutation, length bucket)'),
    assumptions=['Go bounds checks turn every out-of-slice access into a recoverable panic (no cgo/unsafe on these paths)',
                 'hang verdict = worker burned >=5 CPU-seconds on one case (cases cost microseconds)',
                 'Ether.Payload() on a header-only frame deliberately returns the spare capacity (encoder idiom) and is exempt from the containment rule'],
    min_obs={'quick': {'views_valid': 5000, 'view_results_inside': 20000}, 'thorough': {'views_valid': 5000}},
    obs_max=['view_methods_' + n for n in ['Ether','IP4','IP6','UDP','TCP','ARP','ICMP','ICMPEcho','ICMP4Redirect','ICMP6RouterSolicitation',
             'ICMP6RouterAdvertisement','ICMP6NeighborAdvertisement','ICMP6NeighborSolicitation','ICMP6Redirect','DHCP4','DNS','LLC','SNAP','RRCP','LLDP',
             'IEEE1905','EthernetPause','HopByHopExtensionHeader']],
    timeout={'quick': 900, 'thorough': 6*3600},
)

PROPS['C02'] = dict(
    runs=[run('plain')], shards=16, watchdog=True, level='exploration',
    rule=('differential against the independent reference decoder refdec.Decode (documented EtherType / IP-protocol / UDP-port table, '
          'DESIGN appendix C acceptance rules): (A1) full cross product of the 17x17 UDP port classes x {IPv4,IPv6}, (A2) structural frames of every '
          'class x 7 mutations, (A3) truncation at every offset; compared: error-vs-success, PayloadID, MACs, IPs, ports, presence and start '
          'pointer of IP4()/IP6()/UDP()/TCP()/Payload(), Payload() running to the end of the frame. (B) getter tables: every field of every view '
          'set to boundary/random values by the refdec encoder and read back through the getter. Non-trivial = a compared frame (both sides ran); '
          'distinct = (generator kind incl. port-class pair and source class, length bucket, padding, mutation, reference error layer) / view type'),
    assumptions=['refdec (self-tested against golang.org/x/net ipv4/ipv6/icmp/dnsmessage at start) is the trusted oracle',
                 "don't-care zones where RFCs leave the receiver free: IPv6 with trailing padding, UDP length != bytes present, ARP hlen/plen != 6/4, "
                 'IPv4 version nibble != 4, 802.3 length 1501..1535; payload offset of an unknown IP protocol',
                 'ICMP4Redirect.Addrs() is not compared (the view mixes two message formats)'],
    min_obs={'quick': {'getter_comparisons': 20000}, 'thorough': {'getter_comparisons': 20000}},
    timeout={'quick': 900, 'thorough': 6*3600},
)

PROPS['C03'] = dict(
    runs=[run('plain')], shards=16, watchdog=True, level='exploration',
    rule=('round trips through every encoder: Ethernet/IPv4|IPv6/UDP chains composed exactly as the send paths do (AppendPayload and SetPayload '
          'variants, payload lengths 0..MTU, all UDP port classes), Ethernet/IP AppendPayload with raw protocols, ARP, ICMP echo, DHCPv4 with '
          'PRNG option maps (0..11 options of length 0..254, arbitrary requested-parameter orders incl. router-before-mask and repeats, reused '
          'dirty buffers of capacity 300..1500), DNS queries with 1..6 labels, NDP NS/NA marshal; each result decoded by refdec (ground truth = '
          'the generator inputs) and by the library views / Session.Parse; capacity stream: AppendPayload on IPv4/IPv6/UDP into canary-guarded '
          'buffers whose remaining capacity is smaller/equal/larger than the payload. Non-trivial = a completed round trip; distinct = '
          '(encoder chain, family, length bucket, class / option-set shape)'),
    assumptions=['refdec decoders are the trusted oracle (self-tested against x/net)',
                 'inputs outside documented preconditions (buffers below the documented minimum, option values > 255 bytes, option sets > 1 KiB) are '
                 'exercised in a separate robustness stream whose panics are observations only'],
    min_obs={'quick': {}, 'thorough': {}},
    timeout={'quick': 900, 'thorough': 6*3600},
)

PROPS['C16'] = dict(
    runs=[run('go126-hooks', pkg='checks16'), run('go126-nohooks', pkg='checks16', hooks=False),
          run('go123-hooks', pkg='checks16', tool='go'), run('go123-nohooks', pkg='checks16', tool='go', hooks=False)],
    shards=8, watchdog=False, level='exploration',
    rule=('well-formed frames (reference decoder reports no error) of every EtherType / IP protocol / UDP port class, both address families, '
          'sources own / router / multicast / broadcast / client on and off LAN, with and without VLAN tags and padding, placed in an EthMaxSize '
          'buffer: after one warm-up Parse (a) every view must start at &buf[offset] for the reference offset, end inside the frame, and a '
          'write through view or buffer must be visible on the other side; (b) testing.AllocsPerRun(100, Parse) must be 0. Repeated under four '
          'builds: go1.26.8 and go1.23.5, verif tag on and off. Non-trivial = allocation measured on an accepted frame; distinct = '
          '(PayloadID, L3 family, source MAC class, tracked / untracked-by-rule)'),
    assumptions=['runtime allocation counters (testing.AllocsPerRun, GOMAXPROCS 1) are exact', 'refdec offsets are the trusted oracle'],
    min_obs={'quick': {'alloc_measurements': 2000, 'views_checked': 8000}, 'thorough': {'alloc_measurements': 2000}},
    timeout={'quick': 900, 'thorough': 3*3600},
)
