# Per-property configuration of the driver (see DESIGN.md sections 4.1 and 5).
GO = 'go1.26.8'

def run(name, race=False, tool=GO, **kw):
    d = dict(name=name, race=race, tool=tool)
    d.update(kw)
    return d

PROPS = {}

PROPS['C15'] = dict(
    runs=[run('plain')], shards=16, watchdog=False, level='exploration',
    rule=('cases: every byte string of length 0..2 (quick) / 0..3 (thorough), single 16-bit-word perturbations '
          '{0000,ffff,8000,00ff,ff00} at every offset of carriers of length 20,21,1500,1521,1522, all-ff and ramp carriers of every '
          'length 0..1522, PRNG strings with length = index mod 1523 plus a split-point identity check, IPv4 headers through '
          'EncodeIP4+SetPayload/AppendPayload, ICMPv4/ICMPv6 echo requests through the send functions. Oracle: independent big-endian '
          'RFC 1071 sum (refdec.Sum1071), byte-swapped. A case is non-trivial if it is non-empty and agreed; distinct classes = '
          '(length parity, log2 of carry count, second fold needed) / split parities / encoder path'),
    assumptions=['refdec.Sum1071 (20 lines, 64-bit accumulator, big-endian words) is the trusted oracle',
                 'the library documents that it stores the checksum low byte first, so values are compared byte-swapped'],
    exhaustive={'quick': False, 'thorough': False},
    exhaustive_note='exhaustive only for strings of length <= exhaustive_len (observed counter)',
    obs_max=['exhaustive_len'],
    min_obs={'quick': {'icmp_frames_checked': 2000}, 'thorough': {'icmp_frames_checked': 2000}},
)
