#!/bin/sh
# usage: mutate.sh <file> <sed-expr> <check ids...> ; applies a mutation to /repo, runs the checks (quick), restores /repo
f=$1; e=$2; shift 2
cd /repo && sed -i "$e" "$f" && git diff --stat | tail -1
for p in "$@"; do (cd /verif && ./check $p quick 2>/dev/null | egrep -c "VIOLATION|BROKEN" | sed "s/^/$p violations(or broken): /"); done
cd /repo && git checkout -- . 
