#!/usr/bin/env python3
"""regenerate /verif/MANIFEST.json from lib/propcfg.py (checks that exist) and properties.jsonl (ids)"""
import json, os, subprocess, sys
ROOT = os.path.dirname(os.path.dirname(os.path.abspath(__file__)))
sys.path.insert(0, os.path.join(ROOT, 'lib'))
from propcfg import PROPS, META
ids = [json.loads(l)['id'] for l in open(os.path.join(ROOT, 'properties.jsonl'))]
hook_commits = [l.split()[0] for l in subprocess.check_output(['git', '-C', '/repo', 'log', '--format=%h %s']).decode().splitlines() if l.split(' ', 1)[1].startswith('verif hooks')]
ENV = 'GOFLAGS=-mod=mod GOPROXY=off GOSUMDB=off GOTOOLCHAIN=local'
m = {
    'version': 1,
    'setup_cmd': 'cd /verif && ./setup.sh',
    'hooks': {
        'guard': 'verif',
        'enable': 'go test -tags verif in /verif/harness, whose go.mod has "replace github.com/irai/packet => /repo" (every check rebuilds from /repo working tree)',
        'baseline_off_cmd': 'cd /repo && %s go test -json -vet=off -count=1 -timeout 25m ./... 2>/dev/null | grep -v \'"Action":"output"\'' % ENV,
        'source_commits': hook_commits,
        'add_only': True,
    },
    'engines': [
        {'name': 'check', 'path': '/verif/check', 'serves_properties': sorted(PROPS), 'kind_free_text': 'python driver: builds the Go worker from /repo, shards it over worker processes under a CPU-time watchdog, merges monitor output, applies known_findings.json, writes evidence'},
        {'name': 'harness', 'path': '/verif/harness', 'serves_properties': sorted(PROPS), 'kind_free_text': 'Go module: refdec (independent reference codec), gen (seeded generators/mutators), mon (recorder conn, invariants, monitors), checks (one workload per property)'},
    ],
    'checks': [],
    'not_applicable': [],
    'notes': 'Technique family: runtime monitoring and sanitizers. exit 0 held / 1 VIOLATION / 2 broken / 3 inconclusive. Known findings: /verif/known_findings.json. Design: /verif/DESIGN.md.',
}
for i in ids:
    if i in PROPS:
        meta = META[i]
        m['checks'].append({
            'property_id': i,
            'quick_cmd': './check %s quick' % i,
            'thorough_cmd': './check %s thorough' % i,
            'evidence_file': '/verif/evidence/%s.json' % i,
            'replay_cmd_template': './check %s --replay {path}' % i,
            'engine': 'check',
            'level_claimed': {'category': PROPS[i].get('level', 'exploration'), 'text': meta['level_text'], 'design_ref': 'DESIGN.md section 5, ' + i},
            'level_note': meta['level_note'],
            'technique': meta['technique'],
        })
    else:
        m['not_applicable'].append({'property_id': i, 'reason': 'check not built yet (work in progress; planned monitor in DESIGN.md section 5)'})
json.dump(m, open(os.path.join(ROOT, 'MANIFEST.json'), 'w'), indent=1)
print('checks:', [c['property_id'] for c in m['checks']], 'n/a:', len(m['not_applicable']))
