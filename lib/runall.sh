#!/bin/sh
# run every check's quick (or $1) tier once; print one line per check
tier=${1:-quick}
cd /verif
for p in C01 C02 C03 C04 C05 C06 C07 C08 C09 C10 C11 C12 C13 C14 C15 C16 C17 C18 C19 C20; do
  out=$(./check $p $tier 2>&1); rc=$?
  echo "$p rc=$rc $(echo "$out" | grep -E "^(VIOLATION|KNOWN-FINDING|INCONCLUSIVE|BROKEN)" | head -3 | tr '\n' ' ') $(echo "$out" | grep "seed=" | sed 's/.*evals/evals/')"
done
