#!/usr/bin/env python3
"""collect a sub-agent's change from its scratch worktree into /verif/seeded/<id>/
   collect.py <id> <property> <worktree> <demo_cmd> <needs>"""
import json, os, subprocess, sys, shutil
i, prop, wt, demo_cmd, needs = sys.argv[1:6]
d = '/verif/seeded/' + i
os.makedirs(d, exist_ok=True)
diff = subprocess.check_output(['git', 'diff'], cwd=wt, text=True)
assert diff.strip(), 'no tracked change in ' + wt
open(os.path.join(d, 'patch.diff'), 'w').write(diff)
unt = subprocess.check_output(['git', 'ls-files', '--others', '--exclude-standard'], cwd=wt, text=True).split()
demos = [u for u in unt if u.endswith('.go')]
assert len(demos) == 1, demos
shutil.copy(os.path.join(wt, demos[0]), os.path.join(d, os.path.basename(demos[0]) + '.txt'))
meta = {'property': prop, 'needs_to_manifest': needs, 'demo_file': os.path.basename(demos[0]) + '.txt', 'demo_path': demos[0], 'demo_cmd': demo_cmd,
        'files_changed': [l[6:] for l in diff.splitlines() if l.startswith('+++ b/')], 'source': 'independent sub-agent given only the property text and a scratch worktree'}
json.dump(meta, open(os.path.join(d, 'meta.json'), 'w'), indent=1)
print('collected', i, meta['files_changed'], demos[0])
