#!/usr/bin/env python3
"""seeded changes: confirm a change in a scratch worktree, evaluate which checks catch it.
  seeded.py confirm <id>            build + existing tests + demo fails with / passes without the change (scratch worktree)
  seeded.py eval <id> [tier] [props...]   apply to /repo, run the checks, undo; prints which properties raise VIOLATION
"""
import json, os, subprocess, sys, shutil, re
ROOT = '/verif/seeded'
ENV = dict(os.environ, GOFLAGS='-mod=mod', GOPROXY='off', GOSUMDB='off', GOTOOLCHAIN='local')
PKGS = ['.', './fastlog', './handlers/arp_spoofer', './handlers/icmp_spoofer', './handlers/dhcp4_spoofer']


def sh(cmd, cwd, timeout=900, quiet=True):
    p = subprocess.run(cmd, cwd=cwd, env=ENV, shell=isinstance(cmd, str), stdout=subprocess.PIPE, stderr=subprocess.STDOUT, text=True, errors='replace', timeout=timeout)
    return p.returncode, p.stdout


def suite(wt):
    rc, out = sh(['go', 'test', '-vet=off', '-count=1', '-timeout', '300s'] + PKGS, wt)
    fails = [l for l in out.splitlines() if l.startswith('--- FAIL') or l.startswith('FAIL')]
    for _ in range(2):
        if rc == 0:
            break
        # several tests of the suite are timing sensitive (Test_requestExhaust, TestHandler_SignalNICStopped, Test_declineSimple,
        # TestDHCPHandler_exhaust fail now and then on a loaded machine, also on the unchanged tree): a failure must repeat
        first = set(l for l in fails if l.startswith('--- FAIL'))
        rc, out = sh(['go', 'test', '-vet=off', '-count=1', '-timeout', '300s'] + PKGS, wt)
        fails = [l for l in out.splitlines() if (l.startswith('--- FAIL') and l.split('(')[0] in set(x.split('(')[0] for x in first)) or l.startswith('FAIL')]
        if not any(l.startswith('--- FAIL') for l in fails):
            rc, fails = 0, []
    rc2, out2 = sh("go test -json -vet=off -count=1 -timeout 300s ./handlers/dns_naming 2>/dev/null | grep -v '\"Action\":\"output\"' | grep '\"fail\"' | grep '\"Test\"'", wt)
    dns_fail = [l for l in out2.splitlines() if 'TestDNS_reverseDNS' not in l]
    return rc == 0 and not dns_fail, fails + dns_fail


def confirm(i):
    d = os.path.join(ROOT, i)
    meta = json.load(open(os.path.join(d, 'meta.json')))
    wt = '/tmp/seedchk/' + i
    subprocess.run(['git', '-C', '/repo', 'worktree', 'remove', '--force', wt], stdout=subprocess.DEVNULL, stderr=subprocess.DEVNULL)
    os.makedirs('/tmp/seedchk', exist_ok=True)
    subprocess.check_call(['git', '-C', '/repo', 'worktree', 'add', '-q', '--detach', wt, 'HEAD'])
    try:
        demo_dst = os.path.join(wt, meta['demo_path'])
        shutil.copy(os.path.join(d, meta['demo_file']), demo_dst)
        rc, out = sh(meta['demo_cmd'], wt)
        base_ok = rc == 0
        subprocess.check_call(['git', 'apply', os.path.join(d, 'patch.diff')], cwd=wt)
        rcb, outb = sh(['go', 'build', './...'], wt)
        rc, out = sh(meta['demo_cmd'], wt)
        mut_fail = rc != 0
        os.remove(demo_dst)
        ok, fails = suite(wt)
        res = {'builds': rcb == 0, 'existing_suite_passes_with_change': ok, 'suite_failures': fails[:5], 'demo_passes_without_change': base_ok, 'demo_fails_with_change': mut_fail}
        print(i, json.dumps(res))
        if not mut_fail:
            print(out[-1500:])
        return res
    finally:
        subprocess.run(['git', '-C', '/repo', 'worktree', 'remove', '--force', wt], stdout=subprocess.DEVNULL, stderr=subprocess.DEVNULL)


def evaluate(i, tier, props):
    d = os.path.join(ROOT, i)
    meta = json.load(open(os.path.join(d, 'meta.json')))
    props = props or [meta['property']]
    st = subprocess.run(['git', '-C', '/repo', 'status', '--porcelain'], stdout=subprocess.PIPE, text=True).stdout.strip()
    assert not st, '/repo not clean: ' + st
    subprocess.check_call(['git', '-C', '/repo', 'apply', os.path.join(d, 'patch.diff')])
    caught = {}
    try:
        for p in props:
            r = subprocess.run(['./check', p, tier], cwd='/verif', stdout=subprocess.PIPE, stderr=subprocess.PIPE, text=True)
            keys = re.findall(r'^VIOLATION property=(\S+) replay=(\S+)', r.stdout, re.M)
            caught[p] = {'rc': r.returncode, 'violations': [os.path.basename(k[1])[:-5] for k in keys][:6]}
            if r.returncode == 2:
                caught[p]['broken'] = r.stdout[-600:]
    finally:
        subprocess.check_call(['git', '-C', '/repo', 'checkout', '--', '.'])
        subprocess.run(['git', '-C', '/repo', 'clean', '-fdq'], check=False)
        subprocess.run(['git', '-C', '/verif', 'checkout', '--', 'evidence'], check=False)  # evidence of a run against a changed tree is not evidence
    print(i, json.dumps(caught))
    ev = meta.setdefault('evaluated', {})
    for p, r in caught.items():
        ev[p] = {'tier': tier, 'verdict': {0: 'missed', 1: 'caught', 2: 'broken', 3: 'inconclusive'}.get(r['rc'], 'rc%d' % r['rc']), 'violations': r['violations']}
    meta['what_was_run'] = 'lib/seeded.py confirm (scratch worktree: go build, existing suite, demo with/without patch); lib/seeded.py eval (git -C /repo apply patch.diff; ./check <prop> <tier>; git -C /repo checkout -- .)'
    json.dump(meta, open(os.path.join(d, 'meta.json'), 'w'), indent=1)
    return caught


def evaluate_wt(i, tier, props):
    """like evaluate, but in a scratch worktree (VERIF_REPO): does not touch /repo, several can run side by side"""
    d = os.path.join(ROOT, i)
    meta = json.load(open(os.path.join(d, 'meta.json')))
    props = props or [meta['property']]
    wt = '/tmp/seedchk/ev-' + i
    evd = wt + '.evidence'
    subprocess.run(['git', '-C', '/repo', 'worktree', 'remove', '--force', wt], stdout=subprocess.DEVNULL, stderr=subprocess.DEVNULL)
    os.makedirs('/tmp/seedchk', exist_ok=True)
    subprocess.check_call(['git', '-C', '/repo', 'worktree', 'add', '-q', '--detach', wt, 'HEAD'])
    caught = {}
    try:
        subprocess.check_call(['git', 'apply', os.path.join(d, 'patch.diff')], cwd=wt)
        for p in props:
            os.makedirs(evd, exist_ok=True)
            r = subprocess.run(['./check', p, tier], cwd='/verif', env=dict(os.environ, VERIF_REPO=wt, VERIF_EVIDENCE_DIR=evd), stdout=subprocess.PIPE, stderr=subprocess.PIPE, text=True)
            keys = re.findall(r'^VIOLATION property=(\S+) replay=(\S+)', r.stdout, re.M)
            caught[p] = {'rc': r.returncode, 'violations': [os.path.basename(k[1])[:-5] for k in keys][:6]}
            if r.returncode in (2, 3):
                caught[p]['note'] = r.stdout[-600:]
    finally:
        subprocess.run(['git', '-C', '/repo', 'worktree', 'remove', '--force', wt], stdout=subprocess.DEVNULL, stderr=subprocess.DEVNULL)
        shutil.rmtree(evd, ignore_errors=True)
    print(i, json.dumps(caught))
    ev = meta.setdefault('evaluated', {})
    for p, r in caught.items():
        ev[p] = {'tier': tier, 'verdict': {0: 'missed', 1: 'caught', 2: 'broken', 3: 'inconclusive'}.get(r['rc'], 'rc%d' % r['rc']), 'violations': r['violations']}
    meta['what_was_run'] = 'lib/seeded.py confirm (scratch worktree: go build, existing suite, demo with/without patch); lib/seeded.py eval / evalwt (patch applied to /repo resp. to a scratch worktree given to the driver as VERIF_REPO; ./check <prop> <tier>; undone / removed afterwards)'
    json.dump(meta, open(os.path.join(d, 'meta.json'), 'w'), indent=1)
    return caught


if __name__ == '__main__':
    cmd, i = sys.argv[1], sys.argv[2]
    if cmd == 'confirm':
        confirm(i)
    elif cmd == 'evalwt':
        evaluate_wt(i, sys.argv[3] if len(sys.argv) > 3 else 'quick', sys.argv[4:])
    else:
        tier = sys.argv[3] if len(sys.argv) > 3 else 'quick'
        evaluate(i, tier, sys.argv[4:])
