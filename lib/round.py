#!/usr/bin/env python3
"""one round of seeded changes delivered by sub-agents: collect, confirm, blind evaluation
   round.py collect <dir> <suffix>      reads <dir>/Cxx (worktree) and <dir>/Cxx.report.json {demo_cmd, needs}
   round.py confirm <suffix>
   round.py blind <suffix> [extra props per id as id:Cyy,Czz ...]"""
import json, os, subprocess, sys
cmd = sys.argv[1]
ids = ['C%02d' % i for i in range(1, 21)]
if cmd == 'collect':
    d, suf = sys.argv[2], sys.argv[3]
    for p in ids:
        rp = os.path.join(d, p + '.report.json')
        if not os.path.exists(rp):
            print(p, 'no report.json'); continue
        r = json.load(open(rp))
        dc = r['demo_cmd'].strip()
        if '-vet=off' not in dc:
            dc = dc.replace('go test', 'go test -vet=off', 1)
        if '-count=1' not in dc:
            dc = dc.replace('go test', 'go test -count=1', 1)
        out = subprocess.run(['python3', '/verif/lib/collect.py', '%s-%s' % (p, suf), p, os.path.join(d, p), dc, r['needs']], stdout=subprocess.PIPE, stderr=subprocess.STDOUT, text=True)
        print(out.stdout.strip().splitlines()[-1] if out.stdout.strip() else (p, 'collect failed'))
elif cmd == 'confirm':
    suf = sys.argv[2]
    for p in ids:
        i = '%s-%s' % (p, suf)
        if not os.path.isdir('/verif/seeded/' + i):
            continue
        out = subprocess.run(['python3', '/verif/lib/seeded.py', 'confirm', i], stdout=subprocess.PIPE, stderr=subprocess.STDOUT, text=True).stdout.strip().splitlines()
        print(out[-1][:260] if out else i + ' ?', flush=True)
elif cmd == 'blind':
    suf = sys.argv[2]
    extra = dict(a.split(':') for a in sys.argv[3:])
    head = subprocess.check_output(['git', '-C', '/verif', 'log', '-1', '--format=%h %s'], text=True).strip()
    for p in ids:
        i = '%s-%s' % (p, suf)
        if not os.path.isdir('/verif/seeded/' + i):
            continue
        props = [p] + [x for x in extra.get(i, '').split(',') if x]
        out = subprocess.run(['python3', '/verif/lib/seeded.py', 'evalwt', i, 'quick'] + props, stdout=subprocess.PIPE, stderr=subprocess.STDOUT, text=True).stdout.strip().splitlines()
        line = out[-1] if out else ''
        print(line[:330], flush=True)
        try:
            c = json.loads(line.split(' ', 1)[1])
            mp = '/verif/seeded/%s/meta.json' % i
            m = json.load(open(mp))
            m['blind_evaluation'] = {k: {'tier': 'quick', 'verdict': {0: 'missed', 1: 'caught', 2: 'broken', 3: 'inconclusive'}[r['rc']], 'violations': r['violations'][:3]} for k, r in c.items()}
            m['blind_evaluation']['harness'] = '/verif at ' + head
            json.dump(m, open(mp, 'w'), indent=1)
        except Exception as e:
            print('  (not recorded: %s)' % e)
