#!/usr/bin/env python3
"""fill the table between <!-- SEEDED-BEGIN/END --> in DESIGN.md from seeded/*/meta.json"""
import json, os, glob, re
rows = []
for d in sorted(glob.glob('/verif/seeded/*/meta.json')):
    m = json.load(open(d))
    i = os.path.basename(os.path.dirname(d))
    ev = m.get('evaluated', {})
    first = m.get('first_evaluation', {})
    def fmt(e):
        out = []
        for p, r in e.items():
            v = r['verdict']
            k = ', '.join(x.split('-', 1)[1] if '-' in x else x for x in r.get('violations', [])[:2])
            out.append('%s %s: %s%s' % (p, r.get('tier', ''), v, (' (' + k + ')') if k and v == 'caught' else ''))
        return '; '.join(out)
    note = m.get('assessment', '')
    blind = m.get('blind_evaluation')
    if blind:
        first = {k: v for k, v in blind.items() if isinstance(v, dict)}
    rows.append('| %s | %s | %s | %s | %s | %s |' % (i, m['property'], ', '.join(m['files_changed']), m['needs_to_manifest'].replace('|', '/')[:260],
                fmt(first) if first else '-', fmt(ev) + ((' — ' + note.split('.')[0]) if note else '')))
tab = ['| id | property | file | needs to manifest | first (blind) evaluation | current checks |', '|---|---|---|---|---|---|'] + rows
s = open('/verif/DESIGN.md').read()
s = re.sub(r'<!-- SEEDED-BEGIN -->.*<!-- SEEDED-END -->', '<!-- SEEDED-BEGIN -->\n' + '\n'.join(tab) + '\n<!-- SEEDED-END -->', s, flags=re.S)
open('/verif/DESIGN.md', 'w').write(s)
print(len(rows), 'seeded changes')
